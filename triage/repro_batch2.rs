use wirm::ir::id::*;
use wirm::ir::types::{InstrumentationMode, Location};
use wirm::ir::function::FunctionBuilder;
use wirm::ir::module::module_globals::{Global, GlobalKind, LocalGlobal};
use wirm::ir::types::{InitExpr, InitInstr, Value};
use wirm::iterator::module_iterator::ModuleIterator;
use wirm::iterator::iterator_trait::{IteratingInstrumenter, Iterator};
use wirm::opcode::{Opcode, Instrumenter};
use wirm::{Module, DataType};
use std::panic::{catch_unwind, AssertUnwindSafe};

fn print(b: &[u8]) -> String { wasmprinter::print_bytes(b).unwrap_or_else(|e| format!("PRINT-ERR {e}")) }
fn valid(b: &[u8]) -> String { match wasmparser::Validator::new_with_features(wasmparser::WasmFeatures::all()).validate_all(b) { Ok(_) => "valid".into(), Err(e) => format!("INVALID: {e}") } }
fn try_<F: FnOnce() -> String>(name: &str, f: F) { match catch_unwind(AssertUnwindSafe(f)) { Ok(s) => println!("--{name}--\n{s}"), Err(_) => println!("--{name}-- PANICKED") } }

fn main() {
    std::panic::set_hook(Box::new(|i| eprintln!("  panic: {}", i)));
    let which = std::env::args().nth(1).unwrap_or_default();
    if which == "f12" {
        let w = wat::parse_str(r#"(module (type (func)) (type (func (param i32))) (type (func)) (type (func)) (type (func)) (type (func)) (func (type 1) ))"#).unwrap();
        let mut m = Module::parse(&w, false).unwrap();
        let t = m.types.add_func_type(&[], &[], None);
        println!("F12 dedup id = {}", *t);
        return;
    }
    try_("F5 replace import with mixed imports", || {
        let w = wat::parse_str(r#"(module (import "e" "mem" (memory 1)) (import "e" "f" (func $f (result i32))) (func $l (result i32) call $f) (export "l" (func $l)))"#).unwrap();
        let mut m = Module::parse(&w, false).unwrap();
        let imp = m.imports.find("e".into(), "f".into()).unwrap();
        let mut fb = FunctionBuilder::new(&[], &[DataType::I32]);
        fb.i32_const(42);
        fb.replace_import_in_module(&mut m, imp);
        let o = m.encode(); format!("{}\n{}", print(&o), valid(&o)) });
    try_("F6 iterator add_global then imported global", || {
        let w = wat::parse_str(r#"(module (func (result i32) i32.const 0))"#).unwrap();
        let mut m = Module::parse(&w, false).unwrap();
        let g1 = { let mut it = ModuleIterator::new(&mut m, &vec![]);
            it.add_global(Global::new(GlobalKind::Local(LocalGlobal{ global_id: GlobalID(0), ty: wasmparser::GlobalType{content_type: wasmparser::ValType::I32, mutable: true, shared: false}, init_expr: InitExpr::new(vec![InitInstr::Value(Value::I32(5))])}), None)) };
        let (g2, _) = m.add_imported_global("e".into(), "g".into(), DataType::I64, false, false);
        format!("local id {} imported id {}", *g1, *g2) });
    try_("F8 finish_module after local->import", || {
        let w = wat::parse_str(r#"(module (func $a) (func $b call $a))"#).unwrap();
        let mut m = Module::parse(&w, false).unwrap();
        let ty = m.types.add_func_type(&[], &[], None);
        m.convert_local_fn_to_import(FunctionID(0), "e".into(), "a".into(), ty);
        let mut fb = FunctionBuilder::new(&[], &[]); fb.nop();
        let id = fb.finish_module(&mut m); format!("ok id {}", *id) });
    try_("F7 convert locals to imports in descending order", || {
        let w = wat::parse_str(r#"(module (func $a (result i32) i32.const 1) (func $b (result i32) i32.const 2) (func (export "c") (result i32) call $a call $b i32.add))"#).unwrap();
        let mut m = Module::parse(&w, false).unwrap();
        let ty = m.types.add_func_type(&[], &[DataType::I32], None);
        m.convert_local_fn_to_import(FunctionID(1), "e".into(), "B".into(), ty);
        m.convert_local_fn_to_import(FunctionID(0), "e".into(), "A".into(), ty);
        let o = m.encode(); format!("{}\n{}", print(&o), valid(&o)) });
    try_("F19a iterator on module without local functions", || {
        let w = wat::parse_str(r#"(module (import "e" "f" (func)))"#).unwrap();
        let mut m = Module::parse(&w, false).unwrap();
        let it = ModuleIterator::new(&mut m, &vec![]); format!("{:?}", it.curr_loc()) });
    try_("F19b skip function 0 (3 instrs) then visit function 1 (6 instrs)", || {
        let w = wat::parse_str(r#"(module (func nop nop) (func nop nop nop nop nop))"#).unwrap();
        let mut m = Module::parse(&w, false).unwrap();
        let mut it = ModuleIterator::new(&mut m, &vec![FunctionID(0)]);
        let mut n = 1; let first = format!("{:?}", it.curr_loc()); while it.next().is_some() { n += 1; } format!("first={first} visited={n} (expected 6)") });
    try_("F14/F15 block_exit on if with nested block", || {
        let w = wat::parse_str(r#"(module (func (param i32) local.get 0 if block nop end nop end))"#).unwrap();
        let mut m = Module::parse(&w, false).unwrap();
        { let mut it = ModuleIterator::new(&mut m, &vec![]);
          loop { if let Some(wasmparser::Operator::If{..}) = it.curr_op() { it.block_exit().i32_const(99).drop(); } if it.next().is_none() { break; } } }
        let o = m.encode(); print(&o) });
    try_("F18 semantic_after on br to function label", || {
        let w = wat::parse_str(r#"(module (func br 0))"#).unwrap();
        let mut m = Module::parse(&w, false).unwrap();
        { let mut it = ModuleIterator::new(&mut m, &vec![]);
          loop { if let Some(wasmparser::Operator::Br{..}) = it.curr_op() { it.semantic_after().i32_const(77).drop(); } if it.next().is_none() { break; } } }
        let o = m.encode(); print(&o) });
    try_("F11 parse extended const / garbage", || {
        let w = wat::parse_str(r#"(module (global i32 (i32.add (i32.const 1) (i32.const 2))))"#).unwrap();
        match Module::parse(&w, false) { Ok(_) => "parsed".into(), Err(e) => format!("err {e}") } });
    let _ = (Location::Module{func_idx: FunctionID(0), instr_idx: 0}, InstrumentationMode::Before);
}
