// Triage demonstrations for the fix: commits (each fails on the pinned tree and passes after its fix).
use std::collections::HashMap;
use wirm::ir::function::FunctionBuilder;
use wirm::ir::id::*;
use wirm::ir::module::module_globals::{Global, GlobalKind, LocalGlobal};
use wirm::ir::types::{InitExpr, InstrumentationMode, Location, Value};
use wirm::iterator::component_iterator::ComponentIterator;
use wirm::iterator::iterator_trait::{IteratingInstrumenter, Iterator};
use wirm::iterator::module_iterator::ModuleIterator;
use wirm::opcode::{InjectAt, Instrumenter, Opcode};
use wirm::{Component, DataType, InitInstr, Module};

fn print(b: &[u8]) -> String {
    wasmprinter::print_bytes(b).unwrap_or_else(|e| format!("PRINT-ERR {e}"))
}
fn ops_of(bytes: &[u8]) -> Vec<Vec<String>> {
    let mut out = vec![];
    for p in wasmparser::Parser::new(0).parse_all(bytes) {
        if let wasmparser::Payload::CodeSectionEntry(b) = p.unwrap() {
            out.push(b.get_operators_reader().unwrap().into_iter().map(|o| format!("{:?}", o.unwrap())).collect());
        }
    }
    out
}
fn leb(mut n: usize) -> Vec<u8> { let mut v = vec![]; loop { let b = (n & 0x7f) as u8; n >>= 7; if n == 0 { v.push(b); break; } v.push(b | 0x80); } v }
fn sec(id: u8, body: &[u8]) -> Vec<u8> { let mut v = vec![id]; v.extend(leb(body.len())); v.extend_from_slice(body); v }
fn module(secs: &[Vec<u8>]) -> Vec<u8> { let mut v = b"\0asm\x01\0\0\0".to_vec(); for s in secs { v.extend_from_slice(s); } v }
fn custom(name: &str, data: &[u8]) -> Vec<u8> { let mut b = leb(name.len()); b.extend_from_slice(name.as_bytes()); b.extend_from_slice(data); sec(0, &b) }

#[test]
fn f01_atomic_rmw_memory_remap() {
    let w = wat::parse_str(r#"(module (memory 1 1 shared) (func (param i32) (result i32) local.get 0 i32.const 1 i32.atomic.rmw.add drop local.get 0 i64.atomic.load drop local.get 0 i32.load))"#).unwrap();
    let mut m = Module::parse(&w, true).unwrap();
    m.add_import_memory("e".into(), "m".into(), wasmparser::MemoryType { memory64: false, shared: false, initial: 1, maximum: None, page_size_log2: None });
    let o = m.encode();
    let ops = ops_of(&o);
    let f = &ops[0];
    let rmw = f.iter().find(|s| s.starts_with("I32AtomicRmwAdd")).unwrap();
    let ld = f.iter().find(|s| s.starts_with("I32Load")).unwrap();
    let ald = f.iter().find(|s| s.starts_with("I64AtomicLoad")).unwrap();
    assert!(ld.contains("memory: 1"), "{ld}");
    assert!(rmw.contains("memory: 1"), "atomic rmw still on memory 0: {rmw}");
    assert!(ald.contains("memory: 1"), "i64.atomic.load still on memory 0: {ald}");
}

#[test]
fn f02_export_global_remap() {
    let w = wat::parse_str(r#"(module (global $g i32 (i32.const 7)) (export "g" (global $g)))"#).unwrap();
    let mut m = Module::parse(&w, false).unwrap();
    m.add_imported_global("e".into(), "h".into(), DataType::I64, false, false);
    let o = m.encode();
    let p = print(&o);
    assert!(p.contains("(export \"g\" (global 1))") || p.contains("(export \"g\" (global $g))"), "{p}");
    wasmparser::Validator::new().validate_all(&o).unwrap();
    // the exported global must be the i32 one
    for pl in wasmparser::Parser::new(0).parse_all(&o) {
        if let wasmparser::Payload::ExportSection(r) = pl.unwrap() { for e in r { assert_eq!(e.unwrap().index, 1); } }
    }
}

#[test]
fn f05_replace_import_with_mixed_imports() {
    let w = wat::parse_str(r#"(module (import "e" "mem" (memory 1)) (import "e" "f" (func $f (result i32))) (func $l (result i32) call $f) (export "l" (func $l)))"#).unwrap();
    let mut m = Module::parse(&w, false).unwrap();
    let imp = m.imports.find("e".into(), "f".into()).unwrap();
    let mut fb = FunctionBuilder::new(&[], &[DataType::I32]);
    fb.i32_const(42);
    fb.replace_import_in_module(&mut m, imp);
    let o = m.encode();
    let p = print(&o);
    assert!(!p.contains("(import \"e\" \"f\""), "import f still present:\n{p}");
    assert!(p.contains("i32.const 42"), "{p}");
    wasmparser::Validator::new().validate_all(&o).unwrap();
}

#[test]
fn f05b_get_func_with_mixed_imports() {
    let w = wat::parse_str(r#"(module (import "e" "mem" (memory 1)) (import "e" "f" (func $f)) (func $l call $f))"#).unwrap();
    let m = Module::parse(&w, false).unwrap();
    assert_eq!(m.imports.get_func("e".into(), "f".into()), Some(FunctionID(0)));
}

#[test]
fn f06_iterator_add_global_then_imported_global() {
    let w = wat::parse_str(r#"(module (func (result i32) i32.const 0))"#).unwrap();
    let mut m = Module::parse(&w, false).unwrap();
    let g1 = {
        let mut it = ModuleIterator::new(&mut m, &vec![]);
        it.add_global(Global::new(GlobalKind::Local(LocalGlobal { global_id: GlobalID(0), ty: wasmparser::GlobalType { content_type: wasmparser::ValType::I32, mutable: true, shared: false }, init_expr: InitExpr::new(vec![InitInstr::Value(Value::I32(5))]) }), None))
    };
    let (g2, _) = m.add_imported_global("e".into(), "g".into(), DataType::I64, false, false);
    assert_ne!(*g1, *g2, "the iterator-added local global and the imported global got the same id");
}

#[test]
fn f08_finish_module_after_local_to_import() {
    let w = wat::parse_str(r#"(module (func $a) (func $b call $a))"#).unwrap();
    let mut m = Module::parse(&w, false).unwrap();
    let ty = m.types.add_func_type(&[], &[], None);
    m.convert_local_fn_to_import(FunctionID(0), "e".into(), "a".into(), ty);
    let mut fb = FunctionBuilder::new(&[], &[]);
    fb.nop();
    let _ = fb.finish_module(&mut m);
}

#[test]
fn f09_finish_component_after_added_import() {
    let w = wat::parse_str(r#"(component (core module (func)))"#).unwrap();
    let mut c = Component::parse(&w, false).unwrap();
    let ty = c.modules[0].types.add_func_type(&[], &[], None);
    c.modules[0].add_import_func("e".into(), "f".into(), ty);
    let mut fb = FunctionBuilder::new(&[], &[]);
    fb.nop();
    let _ = fb.finish_component(&mut c, ModuleID(0));
}

#[test]
fn f10_exnref_local_round_trip() {
    let w = wat::parse_str(r#"(module (func (local exnref) (local (ref null noexn))))"#).unwrap();
    let mut m = Module::parse(&w, false).unwrap();
    let o = m.encode();
    let p = print(&o);
    assert!(p.contains("exnref") || p.contains("(ref null exn)"), "{p}");
    assert!(p.contains("nullexnref") || p.contains("(ref null noexn)"), "{p}");
}

#[test]
fn f23_add_global_nonnull_funcref() {
    let w = wat::parse_str(r#"(module (func $f) (elem declare func $f))"#).unwrap();
    let mut m = Module::parse(&w, false).unwrap();
    m.add_global(InitExpr::new(vec![InitInstr::RefFunc(FunctionID(0))]), DataType::FuncRef, false, false);
    let o = m.encode();
    let p = print(&o);
    assert!(p.contains("(global (;0;) (ref func)"), "{p}");
}

#[test]
fn f11a_malformed_tag_section_is_an_error() {
    let b = module(&[sec(13, &[1, 0])]);
    let r = std::panic::catch_unwind(|| Module::parse(&b, false).is_ok());
    assert!(matches!(r, Ok(false)), "{r:?}");
}

#[test]
fn f11b_empty_producers_section() {
    let b = module(&[custom("producers", &[0])]);
    let r = std::panic::catch_unwind(|| Module::parse(&b, false).is_ok());
    assert!(r.is_ok(), "panicked");
}

#[test]
fn f11c_function_name_out_of_range() {
    // name section: subsection 1 (function names): count 1: index 7 name "x"
    let names = { let body = vec![1u8, 7, 1, b'x']; let mut s = vec![1u8]; s.extend(leb(body.len())); s.extend(body); s };
    let b = module(&[sec(1, &[1, 0x60, 0, 0]), sec(3, &[1, 0]), sec(10, &[1, 2, 0, 0x0b]), custom("name", &names)]);
    let r = std::panic::catch_unwind(|| Module::parse(&b, false).is_ok());
    assert!(r.is_ok(), "panicked");
    // and a name section placed before the code section
    let names0 = { let body = vec![1u8, 0, 1, b'x']; let mut s = vec![1u8]; s.extend(leb(body.len())); s.extend(body); s };
    let b = module(&[sec(1, &[1, 0x60, 0, 0]), sec(3, &[1, 0]), custom("name", &names0), sec(10, &[1, 2, 0, 0x0b])]);
    let r = std::panic::catch_unwind(|| Module::parse(&b, false).is_ok());
    assert!(r.is_ok(), "panicked");
}

#[test]
fn f11d_function_type_index_out_of_range() {
    let b = module(&[sec(3, &[1, 5]), sec(10, &[1, 2, 0, 0x0b])]);
    let r = std::panic::catch_unwind(|| Module::parse(&b, false).is_ok());
    assert!(matches!(r, Ok(false)), "{r:?}");
    // type index of a non-function type
    let w = wat::parse_str(r#"(module (type (struct)) (type (func)) (func (type 1)))"#).unwrap();
    let mut b = w.clone();
    // patch the function section's type index 1 -> 0
    let pos = b.windows(3).position(|x| x == [3, 2, 1]).unwrap();
    b[pos + 3] = 0;
    let r = std::panic::catch_unwind(|| Module::parse(&b, false).is_ok());
    assert!(matches!(r, Ok(false)), "{r:?}");
}

#[test]
fn f11e_unsupported_const_expr_is_an_error() {
    let w = wat::parse_str(r#"(module (global i32 (i32.add (i32.const 1) (i32.const 2))))"#).unwrap();
    let r = std::panic::catch_unwind(|| Module::parse(&w, false).is_ok());
    assert!(matches!(r, Ok(false)), "{r:?}");
    // truncated const expr (no end)
    let b = module(&[sec(6, &[1, 0x7f, 0, 0x41, 0])]);
    let r = std::panic::catch_unwind(|| Module::parse(&b, false).is_ok());
    assert!(matches!(r, Ok(false)), "{r:?}");
}

#[test]
fn f11f_malformed_name_map_is_ignored() {
    // local names subsection (2) whose declared count exceeds the entries
    let names = { let body = vec![3u8, 0, 1, 0, 1, b'a']; let mut s = vec![2u8]; s.extend(leb(body.len())); s.extend(body); s };
    let names7 = { let body = vec![2u8, 0, 1, b'a']; let mut s = vec![7u8]; s.extend(leb(body.len())); s.extend(body); s };
    let mut both = names.clone(); both.extend(names7);
    let b = module(&[custom("name", &both)]);
    let r = std::panic::catch_unwind(|| Module::parse(&b, false).is_ok());
    assert!(r.is_ok(), "panicked");
}

#[test]
fn f11g_truncated_nested_module_in_component() {
    let mut b = b"\0asm\x0d\0\x01\0".to_vec();
    b.extend([1u8, 100]);
    b.extend(b"\0asm\x01\0\0\0");
    let r = std::panic::catch_unwind(|| Component::parse(&b, false).is_ok());
    assert!(matches!(r, Ok(false)), "{r:?}");
    let mut b = b"\0asm\x0d\0\x01\0".to_vec();
    b.extend([4u8, 100]);
    b.extend(b"\0asm\x0d\0\x01\0");
    let r = std::panic::catch_unwind(|| Component::parse(&b, false).is_ok());
    assert!(matches!(r, Ok(false)), "{r:?}");
}

#[test]
fn f12_type_dedup_is_deterministic() {
    let w = wat::parse_str(r#"(module (type (func)) (type (func (param i32))) (type (func)) (type (func)) (type (func)) (type (func)) (func (type 1)))"#).unwrap();
    for _ in 0..40 {
        let mut m = Module::parse(&w, false).unwrap();
        let t = m.types.add_func_type(&[], &[], None);
        assert_eq!(*t, 0, "dedup winner depends on hash order");
    }
}

#[test]
fn f14_try_table_is_a_block_opener() {
    let w = wat::parse_str(r#"(module (func block try_table nop end i32.const 5 drop end))"#).unwrap();
    let mut m = Module::parse(&w, false).unwrap();
    {
        let mut it = ModuleIterator::new(&mut m, &vec![]);
        loop {
            if let Some(wasmparser::Operator::Block { .. }) = it.curr_op() { it.block_exit().i32_const(99).drop(); }
            if it.next().is_none() { break; }
        }
    }
    let o = m.encode();
    let f = &ops_of(&o)[0];
    let i99 = f.iter().position(|s| s.contains("value: 99")).expect("probe lost");
    let i5 = f.iter().position(|s| s.contains("value: 5")).unwrap();
    assert!(i99 > i5, "block-exit probe emitted at the try_table's end, not the block's: {f:?}");
}

#[test]
fn f17_inject_at_special_mode_through_function_modifier() {
    let w = wat::parse_str(r#"(module (func block nop end))"#).unwrap();
    let mut m = Module::parse(&w, false).unwrap();
    {
        let mut fm = m.functions.get_fn_modifier(FunctionID(0)).unwrap();
        fm.inject_at(0, InstrumentationMode::BlockEntry, wasmparser::Operator::I32Const { value: 77 });
        fm.inject_at(0, InstrumentationMode::BlockEntry, wasmparser::Operator::Drop);
    }
    let o = m.encode();
    let f = &ops_of(&o)[0];
    assert!(f.iter().any(|s| s.contains("value: 77")), "block-entry probe injected through inject_at was lost: {f:?}");
}

#[test]
fn f19_skip_first_function_sizes_the_next_one() {
    let w = wat::parse_str(r#"(module (func nop nop) (func nop nop nop nop nop))"#).unwrap();
    let mut m = Module::parse(&w, false).unwrap();
    let mut it = ModuleIterator::new(&mut m, &vec![FunctionID(0)]);
    let mut n = 1;
    while it.next().is_some() { n += 1; }
    assert_eq!(n, 6);
}

#[test]
fn f20_component_iterator_reset_uses_module_zero_skip_list() {
    let w = wat::parse_str(r#"(component (core module (func nop) (func nop nop)) (core module (func nop nop nop) (func nop)))"#).unwrap();
    let mut c = Component::parse(&w, false).unwrap();
    let mut skip = HashMap::new();
    skip.insert(ModuleID(1), vec![FunctionID(0)]);
    let mut it = ComponentIterator::new(&mut c, skip);
    let mut first = vec![];
    loop { if let Location::Component { mod_idx, func_idx, instr_idx } = it.curr_loc().0 { first.push((*mod_idx, *func_idx, instr_idx)); } if it.next().is_none() { break; } }
    it.reset();
    let mut second = vec![];
    loop { if let Location::Component { mod_idx, func_idx, instr_idx } = it.curr_loc().0 { second.push((*mod_idx, *func_idx, instr_idx)); } if it.next().is_none() { break; } }
    assert_eq!(first, second, "after reset the visit sequence differs");
    assert!(second.contains(&(0, 0, 0)));
}

#[test]
fn f21_stream_without_payload_inside_instance_type() {
    let w = wat::parse_str(r#"(component (type (instance (type (stream)) (type (future)))))"#).unwrap();
    let mut c = Component::parse(&w, false).unwrap();
    let o = c.encode();
    let p = print(&o);
    assert!(p.contains("stream"), "{p}");
}

#[test]
fn f22_set_fn_name_on_added_import() {
    let w = wat::parse_str(r#"(module (import "e" "g" (global i32)) (func $l))"#).unwrap();
    let mut m = Module::parse(&w, false).unwrap();
    let ty = m.types.add_func_type(&[], &[], None);
    let (fid, _) = m.add_import_func("e".into(), "f".into(), ty);
    m.set_fn_name(fid, "imp".into());
    m.set_fn_name(FunctionID(0), "loc".into());
    let o = m.encode();
    let p = print(&o);
    assert!(p.contains("(func $imp") , "{p}");
    assert!(p.contains("(func $loc"), "{p}");
}

#[test]
fn f11h_locals_count_overflow_is_an_error() {
    // one function with 90000 local groups of 50000 i32 each (sum > u32::MAX)
    let n = 90000usize;
    let body = { let mut b = leb(n); for _ in 0..n { b.extend(leb(50000)); b.push(0x7f); } b.push(0x0b); b };
    let code = { let mut c = vec![1u8]; c.extend(leb(body.len())); c.extend(body); c };
    let b = module(&[sec(1, &[1, 0x60, 0, 0]), sec(3, &[1, 0]), sec(10, &code)]);
    let r = std::panic::catch_unwind(|| Module::parse(&b, false).map(|_| ()).map_err(|e| e.to_string()));
    assert!(matches!(r, Ok(Err(_))), "{r:?}");
}

#[test]
fn f05c_imports_set_fn_name_with_mixed_imports() {
    let w = wat::parse_str(r#"(module (import "e" "mem" (memory 1)) (import "e" "f" (func)) (import "e" "g" (func)))"#).unwrap();
    let mut m = Module::parse(&w, false).unwrap();
    m.imports.set_fn_name("second".into(), FunctionID(1));
    assert_eq!(m.imports.get_import_name(ImportsID(2)).as_deref(), Some("second"));
    assert_eq!(m.imports.get_import_name(ImportsID(1)).as_deref(), None);
}

#[test]
fn f15_if_block_exit_with_nested_block() {
    let w = wat::parse_str(r#"(module (func (param i32) local.get 0 if block nop end i32.const 5 drop end))"#).unwrap();
    let mut m = Module::parse(&w, false).unwrap();
    {
        let mut it = ModuleIterator::new(&mut m, &vec![]);
        loop {
            if let Some(wasmparser::Operator::If { .. }) = it.curr_op() { it.block_exit().i32_const(99).drop(); }
            if it.next().is_none() { break; }
        }
    }
    let o = m.encode();
    let f = &ops_of(&o)[0];
    let i99 = f.iter().position(|s| s.contains("value: 99")).expect("probe lost");
    let i5 = f.iter().position(|s| s.contains("value: 5")).unwrap();
    assert!(i99 > i5, "if-arm exit probe emitted at the nested block's end: {f:?}");
}

#[test]
fn f24_special_probes_on_first_local_after_deleting_an_original_import() {
    let w = wat::parse_str(r#"(module (import "e" "a" (func $a)) (func $f block nop end) (func $g block nop end))"#).unwrap();
    let mut m = Module::parse(&w, false).unwrap();
    m.delete_func(FunctionID(0));
    {
        let mut it = ModuleIterator::new(&mut m, &vec![]);
        loop {
            if let Some(wasmparser::Operator::Block { .. }) = it.curr_op() { it.block_entry().i32_const(77).drop(); }
            if it.next().is_none() { break; }
        }
    }
    let o = m.encode();
    let p = print(&o);
    assert_eq!(p.matches("i32.const 77").count(), 2, "{p}");
}

#[test]
fn f25_component_nested_three_levels_deep_round_trips() {
    let w = wat::parse_str(r#"(component
        (component
          (component
            (core module (func))
          )
          (core module (func) (func))
          (core type (func))
        )
        (core module (func) (func) (func))
    )"#).unwrap();
    let mut c = Component::parse(&w, false).unwrap();
    let o = c.encode();
    assert_eq!(print(&w), print(&o));
}

#[test]
fn f26_component_iteration_continues_after_a_module_whose_last_function_is_skipped() {
    let w = wat::parse_str(r#"(component
        (core module (func nop) (func nop nop))
        (core module (func nop nop nop))
    )"#).unwrap();
    let mut c = Component::parse(&w, false).unwrap();
    let mut skip: HashMap<ModuleID, Vec<FunctionID>> = HashMap::new();
    skip.insert(ModuleID(0), vec![FunctionID(1)]);
    let mut it = ComponentIterator::new(&mut c, skip);
    let mut n = 0;
    loop {
        n += 1;
        if it.next().is_none() { break; }
    }
    assert_eq!(n, 6); // module 0 func 0: nop end; module 1 func 0: nop nop nop end
}

fn valid(bytes: &[u8]) -> Result<(), String> {
    wasmparser::Validator::new_with_features(wasmparser::WasmFeatures::all()).validate_all(bytes).map(|_| ()).map_err(|e| e.to_string())
}

#[test]
fn f27_added_import_deleted_again_leaves_the_index_space() {
    // memory
    let w = wat::parse_str(r#"(module (import "e" "m0" (memory 1)) (memory 1) (memory 2) (func (export "f") (result i32) i32.const 0 i32.load 2))"#).unwrap();
    let mut m = Module::parse(&w, true).unwrap();
    let (mid, _) = m.add_import_memory("e".into(), "added".into(), wasmparser::MemoryType { memory64: false, shared: false, initial: 1, maximum: None, page_size_log2: None });
    m.delete_memory(mid);
    let o = m.encode();
    valid(&o).unwrap();
    assert!(print(&o).contains("i32.load 2"));
    // global
    let w = wat::parse_str(r#"(module (import "e" "g0" (global i32)) (global i32 (i32.const 1)) (global i32 (i32.const 2)) (func (export "f") (result i32) global.get 2))"#).unwrap();
    let mut m = Module::parse(&w, true).unwrap();
    let (gid, _) = m.add_imported_global("e".into(), "added".into(), DataType::I32, false, false);
    m.delete_global(gid);
    let o = m.encode();
    valid(&o).unwrap();
    assert!(print(&o).contains("global.get 2"));
    // function
    let w = wat::parse_str(r#"(module (import "e" "f0" (func)) (func) (func (export "f") call 1 call 2))"#).unwrap();
    let mut m = Module::parse(&w, true).unwrap();
    let (fid, _) = m.add_import_func("e".into(), "added".into(), TypeID(0));
    m.delete_func(fid);
    let o = m.encode();
    valid(&o).unwrap();
    // two converted imports, the first deleted: the second must not be numbered past the end
    let w = wat::parse_str(r#"(module (import "e" "f0" (func)) (import "e" "f1" (func)) (func) (func (export "f") call 1 call 2))"#).unwrap();
    let mut m = Module::parse(&w, true).unwrap();
    let mut b = FunctionBuilder::new(&[], &[]);
    b.nop();
    b.replace_import_in_module(&mut m, ImportsID(0));
    let mut b = FunctionBuilder::new(&[], &[]);
    b.nop();
    b.replace_import_in_module(&mut m, ImportsID(1));
    m.delete_func(FunctionID(0));
    valid(&m.encode()).unwrap();
}

#[test]
fn f28_deeply_nested_component_is_an_error_not_a_stack_overflow() {
    let header = [0x00u8, 0x61, 0x73, 0x6d, 0x0d, 0x00, 0x01, 0x00];
    let nested = |depth: usize| {
        let mut cur: Vec<u8> = header.to_vec();
        for _ in 0..depth {
            let mut outer = header.to_vec();
            outer.push(4); // nested component section
            outer.extend(leb(cur.len()));
            outer.extend(cur);
            cur = outer;
        }
        cur
    };
    assert!(Component::parse(&nested(5), false).is_ok());
    for d in [1000usize, 20000] {
        let b = nested(d);
        // before the fix this aborted the process (SIGABRT: stack overflow)
        let r = std::thread::Builder::new().stack_size(8 << 20).spawn(move || Component::parse(&b, false).is_err()).unwrap().join();
        assert_eq!(r.ok(), Some(true));
    }
}

#[test]
fn f29_empty_block_alt_on_a_plain_instruction_is_rejected_not_dropped() {
    let w = wat::parse_str(r#"(module (func (export "f") nop (block nop)))"#).unwrap();
    let mut m = Module::parse(&w, false).unwrap();
    let before = print(&m.encode());
    let mut m = Module::parse(&w, false).unwrap();
    let r = std::panic::catch_unwind(std::panic::AssertUnwindSafe(|| {
        let mut it = ModuleIterator::new(&mut m, &vec![]);
        // instruction 0 is the `nop`: a block alternate does not apply to it
        it.empty_block_alt_at(Location::Module { func_idx: FunctionID(0), instr_idx: 0 });
    }));
    let after = print(&m.encode());
    // before the fix the request was accepted and the function came out unchanged
    assert!(r.is_err() || after != before, "request accepted and silently dropped:\n{after}");
    // a block alternate on the block itself still removes it
    let mut m = Module::parse(&w, false).unwrap();
    {
        let mut it = ModuleIterator::new(&mut m, &vec![]);
        it.empty_block_alt_at(Location::Module { func_idx: FunctionID(0), instr_idx: 1 });
    }
    assert!(!print(&m.encode()).contains("block"));
}

#[test]
fn f30_deleted_tagged_import_is_not_reported() {
    use wirm::ir::module::side_effects::{InjectType, Injection};
    use wirm::ir::types::Tag;
    let w = wat::parse_str(r#"(module (type (func)) (func (export "f")))"#).unwrap();
    let build = || {
        let mut m = Module::parse(&w, false).unwrap();
        m.add_import_func_with_tag("e".into(), "keep".into(), TypeID(0), Tag::new(b"keep".to_vec()));
        let (gone, _) = m.add_import_func_with_tag("e".into(), "gone".into(), TypeID(0), Tag::new(b"gone".to_vec()));
        m.delete_func(gone);
        m
    };
    let text = print(&build().encode());
    assert!(text.contains("\"keep\"") && !text.contains("\"gone\""));
    let fx = build().pull_side_effects();
    let names: Vec<String> = fx.get(&InjectType::Import).map(|v| v.iter().filter_map(|i| if let Injection::Import { name, .. } = i { Some(name.clone()) } else { None }).collect()).unwrap_or_default();
    assert_eq!(names, vec!["keep".to_string()]);
}
