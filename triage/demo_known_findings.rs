// Demonstrations of the *recorded* (not repaired) findings: every test here FAILS on the current tree.
use wirm::ir::id::*;
use wirm::iterator::iterator_trait::{IteratingInstrumenter, Iterator};
use wirm::iterator::module_iterator::ModuleIterator;
use wirm::opcode::Opcode;
use wirm::{DataType, Module};

fn print(b: &[u8]) -> String { wasmprinter::print_bytes(b).unwrap_or_else(|e| format!("PRINT-ERR {e}")) }
fn ops_of(bytes: &[u8]) -> Vec<Vec<String>> {
    let mut out = vec![];
    for p in wasmparser::Parser::new(0).parse_all(bytes) {
        if let wasmparser::Payload::CodeSectionEntry(b) = p.unwrap() {
            out.push(b.get_operators_reader().unwrap().into_iter().map(|o| format!("{:?}", o.unwrap())).collect());
        }
    }
    out
}

#[test]
fn kf3_ref_func_in_element_expression_keeps_old_index() {
    let w = wat::parse_str(r#"(module (func $a) (func $b (result i32) i32.const 7) (table 1 funcref) (elem (i32.const 0) funcref (ref.func $b)))"#).unwrap();
    let mut m = Module::parse(&w, false).unwrap();
    let ty = m.types.add_func_type(&[], &[], None);
    m.add_import_func("e".into(), "imp".into(), ty);
    let o = m.encode();
    let p = print(&o);
    // $b was function 1 and is function 2 after the import was added
    assert!(p.contains("ref.func 2") || p.contains("ref.func $b"), "{p}");
}

#[test]
fn kf3b_ref_func_in_table_init_keeps_old_index() {
    let w = wat::parse_str(r#"(module (func $a) (func $b) (table 1 funcref (ref.func $b)) (elem declare func $b))"#).unwrap();
    let mut m = Module::parse(&w, false).unwrap();
    let ty = m.types.add_func_type(&[], &[], None);
    m.add_import_func("e".into(), "imp".into(), ty);
    let o = m.encode();
    let p = print(&o);
    assert!(p.contains("(table (;0;) 1 funcref ref.func 2)") || p.contains("ref.func 2"), "{p}");
}

#[test]
fn kf3c_global_get_in_element_offset_keeps_old_index() {
    let w = wat::parse_str(r#"(module (import "e" "g0" (global i32)) (import "e" "g" (global $g i32)) (table 4 funcref) (func $f) (elem (offset (global.get $g)) func $f))"#).unwrap();
    let mut m = Module::parse(&w, false).unwrap();
    m.delete_global(GlobalID(0));
    let o = m.encode();
    let p = print(&o);
    assert!(p.contains("global.get 0"), "{p}");
}

#[test]
fn kf4_global_name_moves_to_another_global() {
    let w = wat::parse_str(r#"(module (global $mine i32 (i32.const 7)))"#).unwrap();
    let mut m = Module::parse(&w, false).unwrap();
    m.add_imported_global("e".into(), "h".into(), DataType::I64, false, false);
    let o = m.encode();
    let p = print(&o);
    assert!(p.contains("(global $mine (;1;) i32"), "{p}");
}

#[test]
fn kf7_descending_local_to_import_conversions() {
    let w = wat::parse_str(r#"(module (func $a (result i32) i32.const 1) (func $b (result i32) i32.const 2) (func (export "c") (result i32) call $a))"#).unwrap();
    let mut m = Module::parse(&w, false).unwrap();
    let ty = m.types.add_func_type(&[], &[DataType::I32], None);
    m.convert_local_fn_to_import(FunctionID(1), "e".into(), "B".into(), ty);
    m.convert_local_fn_to_import(FunctionID(0), "e".into(), "A".into(), ty);
    let o = m.encode();
    // `call $a` must reach import "A"
    let called = ops_of(&o)[0].iter().find(|s| s.starts_with("Call")).unwrap().clone();
    let idx: u32 = called.trim_start_matches("Call { function_index: ").trim_end_matches(" }").parse().unwrap();
    let mut names = vec![];
    for pl in wasmparser::Parser::new(0).parse_all(&o) { if let wasmparser::Payload::ImportSection(r) = pl.unwrap() { for i in r { names.push(i.unwrap().name.to_string()); } } }
    assert_eq!(names[idx as usize], "A", "call $a now reaches import {:?} (imports: {names:?})", names[idx as usize]);
}

#[test]
fn kf13_second_encode_differs() {
    let w = wat::parse_str(r#"(module (func $a) (func $b call $a))"#).unwrap();
    let mut m = Module::parse(&w, false).unwrap();
    let ty = m.types.add_func_type(&[], &[], None);
    m.add_import_func("e".into(), "imp".into(), ty);
    let first = m.encode();
    let second = m.encode();
    assert_eq!(print(&first), print(&second));
}

#[test]
fn kf13b_second_encode_moves_the_start_function() {
    // self.start is overwritten with the remapped index; the second encode maps it again
    let w = wat::parse_str(r#"(module (func $a) (func $b) (func $c) (start $a))"#).unwrap();
    let mut m = Module::parse(&w, false).unwrap();
    let ty = m.types.add_func_type(&[], &[], None);
    m.add_import_func("e".into(), "imp".into(), ty);
    let first = m.encode();
    let second = m.encode();
    assert_eq!(print(&first), print(&second));
}

#[test]
fn kf13c_second_encode_moves_ref_func_in_global_initialiser() {
    // InitInstr::fix_id_mapping rewrites the stored initialiser in place
    let w = wat::parse_str(r#"(module (func $a) (func $b) (func $c) (global funcref (ref.func $a)) (elem declare func $a))"#).unwrap();
    let mut m = Module::parse(&w, false).unwrap();
    let ty = m.types.add_func_type(&[], &[], None);
    m.add_import_func("e".into(), "imp".into(), ty);
    let first = m.encode();
    let second = m.encode();
    assert_eq!(print(&first), print(&second));
}

#[test]
fn kf16_branch_flag_is_never_reset() {
    // loop { block $B { if (p0) { br $B  <- semantic-after probe } } ; p0 = 0 ; br_if loop (once) }
    let w = wat::parse_str(r#"(module (func (param i32) (local i32)
        loop $L
          block $B
            local.get 0
            if
              br $B
            end
          end
          i32.const 0
          local.set 0
          local.get 1
          i32.eqz
          if
            i32.const 1
            local.set 1
            br $L
          end
        end))"#).unwrap();
    let mut m = Module::parse(&w, false).unwrap();
    {
        let mut it = ModuleIterator::new(&mut m, &vec![]);
        loop {
            if let Some(wasmparser::Operator::Br { relative_depth: 1 }) = it.curr_op() { it.semantic_after().i32_const(77).drop(); }
            if it.next().is_none() { break; }
        }
    }
    let o = m.encode();
    let f = &ops_of(&o)[0];
    // the guarded body `local.get F; if; i32.const 77; drop; end` must clear F inside the guard,
    // otherwise the second loop iteration (which never executes the br) fires the probe again
    let i77 = f.iter().position(|s| s.contains("value: 77")).expect("probe lost");
    let guard_end = f[i77..].iter().position(|s| s == "End").unwrap() + i77;
    let resets = f[i77..guard_end].iter().any(|s| s.starts_with("LocalSet"));
    assert!(resets, "flag is not reset inside the guard: {:?}", &f[i77.saturating_sub(3)..=guard_end]);
}

#[test]
fn kf18_semantic_after_on_branch_to_function_label_is_lost() {
    let w = wat::parse_str(r#"(module (func br 0))"#).unwrap();
    let mut m = Module::parse(&w, false).unwrap();
    {
        let mut it = ModuleIterator::new(&mut m, &vec![]);
        loop {
            if let Some(wasmparser::Operator::Br { .. }) = it.curr_op() { it.semantic_after().i32_const(77).drop(); }
            if it.next().is_none() { break; }
        }
    }
    let o = m.encode();
    assert!(ops_of(&o)[0].iter().any(|s| s.contains("value: 77")), "{:?}", ops_of(&o)[0]);
}

#[test]
fn kf19_iterator_on_module_without_local_functions() {
    let w = wat::parse_str(r#"(module (import "e" "f" (func)))"#).unwrap();
    let mut m = Module::parse(&w, false).unwrap();
    let r = std::panic::catch_unwind(std::panic::AssertUnwindSafe(|| { let it = ModuleIterator::new(&mut m, &vec![]); let _ = it.curr_loc(); }));
    assert!(r.is_ok(), "ModuleIterator::new panicked on a module without local functions");
}

#[test]
fn kf19b_iterator_with_every_function_skipped() {
    let w = wat::parse_str(r#"(module (func nop))"#).unwrap();
    let mut m = Module::parse(&w, false).unwrap();
    let r = std::panic::catch_unwind(std::panic::AssertUnwindSafe(|| { let mut it = ModuleIterator::new(&mut m, &vec![FunctionID(0)]); let _ = it.next(); }));
    assert!(r.is_ok(), "ModuleIterator panicked when every function is skipped");
}

#[test]
fn kf_legacy_try_is_not_a_block_opener() {
    let w = wat::parse_str(r#"(module (func block try nop catch_all end i32.const 5 drop end))"#).unwrap();
    let mut m = Module::parse(&w, false).unwrap();
    {
        let mut it = ModuleIterator::new(&mut m, &vec![]);
        loop {
            if let Some(wasmparser::Operator::Block { .. }) = it.curr_op() { it.block_exit().i32_const(99).drop(); }
            if it.next().is_none() { break; }
        }
    }
    let o = m.encode();
    let f = &ops_of(&o)[0];
    let i99 = f.iter().position(|s| s.contains("value: 99")).expect("probe lost");
    let i5 = f.iter().position(|s| s.contains("value: 5")).unwrap();
    assert!(i99 > i5, "block-exit probe emitted at the try's end: {f:?}");
}

#[test]
fn kf24_three_flagged_semantic_after_branches_to_one_block_are_ill_nested() {
    let w = wat::parse_str(r#"(module (func (param i32)
        block $B
          local.get 0
          br_if $B
          local.get 0
          br_if $B
          local.get 0
          br_if $B
        end))"#).unwrap();
    let mut m = Module::parse(&w, false).unwrap();
    {
        let mut it = ModuleIterator::new(&mut m, &vec![]);
        loop {
            if let Some(wasmparser::Operator::BrIf { .. }) = it.curr_op() { it.semantic_after().i32_const(77).drop(); }
            if it.next().is_none() { break; }
        }
    }
    let o = m.encode();
    let v = wasmparser::Validator::new_with_features(wasmparser::WasmFeatures::all()).validate_all(&o);
    assert!(v.is_ok(), "{:?}", v.err());
}
