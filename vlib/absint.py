"""A small abstract interpreter over the typed HIR facts, for *table-like*
functions: bodies made of match / if / constructors / field reads / a few
whitelisted foreign accessors.  It evaluates a function on an abstract value
(enum variants with symbolic leaves) and returns an abstract value.  Anything
outside the table fragment evaluates to an opaque ('app', callee, args) term,
never to a guess.

Values (hashable tuples):
  ('v', adt, variant, fields)   fields: tuple of (name, value) sorted by name; tuple ctors use '0','1',..
  ('b', True|False)
  ('s', name)                   opaque symbol
  ('lit', text)
  ('rt', nullable, heap)        wasmparser::RefType (packed, opaque in the ADT) modelled abstractly
  ('some', x) / ('none',)
  ('app', callee, args)         uninterpreted call
  ('panic', macro)
  ('tup', items)
"""
from .facts import CheckError

PANIC = ("panic",)


def V(adt, variant, **fields):
    return ("v", adt, variant, tuple(sorted(fields.items())))


def Vt(adt, variant, *items):
    return ("v", adt, variant, tuple((str(i), x) for i, x in enumerate(items)))


def fields_of(v):
    return dict(v[3])


def is_panic(v):
    return isinstance(v, tuple) and v and v[0] == "panic"


WP = "wasmparser::"
# wasmparser constants the crate refers to (reviewed against wasmparser 0.235 readers/core/types.rs)
CONSTS = {
    "wasmparser::ValType::FUNCREF": ("v", "wasmparser::ValType", "Ref", (("0", ("rt", ("b", True), V("wasmparser::HeapType", "Abstract", shared=("b", False), ty=V("wasmparser::AbstractHeapType", "Func")))),)),
    "wasmparser::ValType::EXTERNREF": ("v", "wasmparser::ValType", "Ref", (("0", ("rt", ("b", True), V("wasmparser::HeapType", "Abstract", shared=("b", False), ty=V("wasmparser::AbstractHeapType", "Extern")))),)),
    "wasmparser::RefType::FUNCREF": ("rt", ("b", True), V("wasmparser::HeapType", "Abstract", shared=("b", False), ty=V("wasmparser::AbstractHeapType", "Func"))),
    "wasmparser::RefType::EXTERNREF": ("rt", ("b", True), V("wasmparser::HeapType", "Abstract", shared=("b", False), ty=V("wasmparser::AbstractHeapType", "Extern"))),
}


class Interp:
    def __init__(self, F, max_depth=6, opaque=()):
        self.F = F
        self.max_depth = max_depth
        self.opaque = set(opaque)  # local fn names never interpreted
        self.effects = []  # every uninterpreted call evaluated, in order

    def match_on(self, match_node, val, env=None, depth=0):
        """Evaluate a Match node as if its scrutinee evaluated to `val`.
        Returns (arm_index or None, value)."""
        env = dict(env or {})
        for i, arm in enumerate(match_node["arms"]):
            env2 = dict(env)
            m = self.bind(arm["pat"], val, env2)
            if m and "guard" not in arm:
                return i, self.ev(arm["body"], env2, depth)
            if m is None or (m and "guard" in arm):
                return None, ("app", "match?", (val,))
        return None, ("app", "match-nonexhaustive", (val,))

    # -- entry ------------------------------------------------------------
    def call_fn(self, fn, args, depth=0):
        if depth > self.max_depth:
            return ("app", fn["path"], tuple(args))
        env = {}
        for p, a in zip(fn["params"], args):
            self.bind(p["pat"], a, env)
        return self.ev(fn["body"], env, depth)

    # -- patterns ---------------------------------------------------------
    def bind(self, pat, val, env):
        """Try to match; returns True/False/None (None = cannot decide)."""
        k = pat["k"]
        if k == "Wild":
            return True
        if k == "Binding":
            env[pat["hid"]] = val
            if pat.get("sub"):
                return self.bind(pat["sub"], val, env)
            return True
        if k in ("Ref", "Deref", "Box"):
            return self.bind(pat["sub"], val, env)
        if k == "Or":
            undecided = False
            for q in pat["pats"]:
                e2 = dict(env)
                m = self.bind(q, val, e2)
                if m:
                    env.update(e2)
                    return True
                if m is None:
                    undecided = True
            return None if undecided else False
        if k == "Lit":
            if val[0] == "lit":
                return val[1] == pat["lit"]
            if val[0] == "b":
                return pat["lit"] == ("Bool(true)" if val[1] else "Bool(false)")
            return None
        if k in ("Struct", "TupleStruct", "Path"):
            if val[0] == "some" and pat.get("variant") == "Some":
                return self.bind(pat["pats"][0], val[1], env)
            if val[0] == "none":
                return pat.get("variant") == "None"
            if val[0] == "some":
                return False
            if val[0] != "v":
                return None
            if pat.get("variant") is not None:
                if val[2] != pat["variant"]:
                    return False
            fs = fields_of(val)
            if k == "Struct":
                for name, sub in pat["fields"]:
                    if name not in fs:
                        return None
                    m = self.bind(sub, fs[name], env)
                    if not m:
                        return m
            elif k == "TupleStruct":
                for i, sub in enumerate(pat["pats"]):
                    if str(i) not in fs:
                        return None
                    m = self.bind(sub, fs[str(i)], env)
                    if not m:
                        return m
            return True
        if k == "Tuple":
            if val[0] != "tup":
                return None
            for sub, x in zip(pat["pats"], val[1]):
                m = self.bind(sub, x, env)
                if not m:
                    return m
            return True
        return None

    # -- expressions ------------------------------------------------------
    def ev(self, e, env, depth=0):
        k = e["k"]
        if e.get("ty") == "!" and k not in ("Block", "Match", "If"):
            return ("panic", (e.get("exp") or ["?"])[0] if e.get("exp") else k)
        if k == "Block":
            env = dict(env)
            for st in e["stmts"]:
                if st["k"] == "Let":
                    if "init" in st:
                        v = self.ev(st["init"], env, depth)
                        if is_panic(v):
                            return v
                        self.bind(st["pat"], v, env)
                elif st["k"] in ("Semi", "Expr"):
                    v = self.ev(st["e"], env, depth)
                    if is_panic(v):
                        return v
            if e.get("expr") is not None:
                return self.ev(e["expr"], env, depth)
            return ("tup", ())
        if k == "Path":
            r = e["res"]
            if r["r"] == "local":
                return env.get(r["hid"], ("s", r["name"]))
            if r["r"] == "def":
                if r.get("variant") is not None:
                    return ("v", r["adt"], r["variant"], ())
                if r["path"] in CONSTS:
                    return CONSTS[r["path"]]
                if r["path"].endswith("::None") and "Option" in r["path"]:
                    return ("none",)
                return ("s", r["path"])
            return ("s", "?")
        if k == "Lit":
            if e["lit"] == "Bool(true)":
                return ("b", True)
            if e["lit"] == "Bool(false)":
                return ("b", False)
            return ("lit", e["lit"])
        if k in ("AddrOf",):
            return self.ev(e["a"], env, depth)
        if k == "Cast":
            inner = self.ev(e["a"], env, depth)
            return ("cast", e["ty"], inner)
        if k in ("Use", "Type"):
            return self.ev(e.get("e") or e.get("a"), env, depth)
        if k == "Unary":
            a = self.ev(e["a"], env, depth)
            if e["op"] == "*":
                # overloaded deref of an ID newtype -> field 0
                if e.get("callee") and a[0] == "v" and a[2] is None and len(a[3]) == 1:
                    return a[3][0][1]
                if e.get("callee"):
                    return ("deref", a)
                return a
            if e["op"] == "!":
                if a[0] == "b":
                    return ("b", not a[1])
            return ("app", "unary" + e["op"], (a,))
        if k == "Tup":
            return ("tup", tuple(self.ev(x, env, depth) for x in e["elems"]))
        if k == "Struct":
            fs = {name: self.ev(x, env, depth) for name, x in e["fields"]}
            for x in fs.values():
                if is_panic(x):
                    return x
            if "base" in e:
                fs["..base"] = self.ev(e["base"], env, depth)
            return ("v", e.get("adt"), e.get("variant"), tuple(sorted(fs.items())))
        if k == "Field":
            b = self.ev(e["base"], env, depth)
            if b[0] == "v":
                fs = fields_of(b)
                if e["name"] in fs:
                    return fs[e["name"]]
            if b[0] == "tup" and e["name"].isdigit() and int(e["name"]) < len(b[1]):
                return b[1][int(e["name"])]
            return ("field", b, e["name"])
        if k == "If":
            c = e["cond"]
            if c["k"] == "LetExpr":
                v = self.ev(c["init"], env, depth)
                env2 = dict(env)
                m = self.bind(c["pat"], v, env2)
                if m:
                    return self.ev(e["then"], env2, depth)
                if m is False:
                    return self.ev(e["else"], env, depth) if "else" in e else ("tup", ())
                return ("app", "if-let?", (v,))
            cv = self.ev(c, env, depth)
            if cv == ("b", True):
                return self.ev(e["then"], env, depth)
            if cv == ("b", False):
                return self.ev(e["else"], env, depth) if "else" in e else ("tup", ())
            # undecided: both branches must agree
            t = self.ev(e["then"], env, depth)
            f = self.ev(e["else"], env, depth) if "else" in e else ("tup", ())
            if t == f:
                return t
            return ("ite", cv, t, f)
        if k == "Match":
            sv = self.ev(e["scrut"], env, depth)
            if is_panic(sv):
                return sv
            for arm in e["arms"]:
                env2 = dict(env)
                m = self.bind(arm["pat"], sv, env2)
                if m and "guard" not in arm:
                    return self.ev(arm["body"], env2, depth)
                if m is None or (m and "guard" in arm):
                    return ("app", "match?", (sv,))
            return ("app", "match-nonexhaustive", (sv,))
        if k == "Call":
            args = [self.ev(a, env, depth) for a in e["args"]]
            for a in args:
                if is_panic(a):
                    return a
            fr = e.get("fres") or {}
            if fr.get("r") == "def" and fr.get("dk", "").startswith("Ctor"):
                # tuple-struct / tuple-variant constructor
                if fr.get("variant") is not None:
                    if fr["adt"].endswith("option::Option") and fr["variant"] == "Some":
                        return ("some", args[0])
                    return Vt(fr["adt"], fr["variant"], *args)
                return Vt(fr.get("adt"), None, *args)
            if fr.get("r") == "self":
                return Vt(fr.get("adt"), None, *args)
            return self.apply(e, callee_of(e), args, depth)
        if k == "MethodCall":
            recv = self.ev(e["recv"], env, depth)
            if is_panic(recv):
                return recv
            args = [recv] + [self.ev(a, env, depth) for a in e["args"]]
            for a in args:
                if is_panic(a):
                    return a
            return self.apply(e, callee_of(e), args, depth)
        if k == "Closure":
            return ("closure", e["def"], e, dict(env))
        return ("app", "expr:" + k, ())

    def apply(self, e, callee, args, depth):
        callee = callee or "?"
        F = self.F
        # whitelisted foreign accessors (reviewed; see tables/foreign_semantics.json)
        if callee.endswith("wasmparser::RefType::heap_type") and args[0][0] == "rt":
            return args[0][2]
        if callee.endswith("wasmparser::RefType::is_nullable") and args[0][0] == "rt":
            return args[0][1]
        if callee.endswith("wasmparser::RefType::new"):
            return ("some", ("rt", args[0], args[1]))
        if callee.endswith("::unwrap") or callee.endswith("::expect"):
            if args[0][0] == "some":
                return args[0][1]
            if args[0][0] == "none":
                return ("panic", "unwrap")
            return ("app", "unwrap", (args[0],))
        if callee.endswith("clone::Clone::clone") or callee.endswith("::clone") or callee.endswith("ToOwned::to_owned"):
            return args[0]
        # Option combinators with a closure argument (`a.or_else(|| b).unwrap_or_else(|| panic!(..))`, `.map(|x| ..)`)
        if len(args) == 2 and isinstance(args[1], tuple) and args[1] and args[1][0] == "closure" and len(args[1]) == 4 and args[0][0] in ("some", "none"):
            def call_closure(c, cargs):
                env2 = dict(c[3])
                for p_, a_ in zip(c[2].get("params") or [], cargs):
                    self.bind(p_, a_, env2)
                return self.ev(c[2]["body"], env2, depth + 1)
            if callee.endswith("Option::<T>::or_else"):
                return args[0] if args[0][0] == "some" else call_closure(args[1], [])
            if callee.endswith("Option::<T>::unwrap_or_else"):
                return args[0][1] if args[0][0] == "some" else call_closure(args[1], [])
            if callee.endswith("Option::<T>::map"):
                return ("some", call_closure(args[1], [args[0][1]])) if args[0][0] == "some" else ("none",)
            if callee.endswith("Option::<T>::and_then"):
                return call_closure(args[1], [args[0][1]]) if args[0][0] == "some" else ("none",)
        # Option → Result and the `?` desugaring (Try::branch + match on ControlFlow)
        if callee.endswith("Option::<T>::ok_or_else") or callee.endswith("Option::<T>::ok_or"):
            if args[0][0] == "some":
                return Vt("std::result::Result", "Ok", args[0][1])
            if args[0][0] == "none":
                return Vt("std::result::Result", "Err", ("s", "err"))
        if callee.endswith("ops::Try::branch") or callee.endswith("::branch"):
            a = args[0]
            if a[0] == "some":
                return Vt("std::ops::ControlFlow", "Continue", a[1])
            if a[0] == "none":
                return Vt("std::ops::ControlFlow", "Break", a)
            if a[0] == "v" and a[2] in ("Ok", "Some") and len(a[3]) == 1:
                return Vt("std::ops::ControlFlow", "Continue", a[3][0][1])
            if a[0] == "v" and a[2] in ("Err", "None"):
                return Vt("std::ops::ControlFlow", "Break", a)
        if "convert::Into" in callee and callee.endswith("::into") and isinstance(e, dict) and e.get("recv_ty") and e.get("ty"):
            # `x.into()` is `U::from(x)` (blanket impl): name the From impl it resolves to, local or foreign
            src_t, dst_t = e["recv_ty"].lstrip("&").strip(), e["ty"]
            loc = [f for f in F.fns if f["name"] == "from" and (f.get("impl_trait") or "").endswith("convert::From")
                   and (f.get("self_ty") or "") == dst_t and f.get("params") and f["params"][0]["ty"] == src_t]
            if len(loc) == 1:
                return self.apply(e, loc[0]["path"], args, depth) if False else ("app", loc[0]["path"], tuple(args))
            return ("app", "<%s as std::convert::From<%s>>::from" % (dst_t, src_t), tuple(args))
        if callee.endswith("convert::Into::into") or callee.endswith("convert::From::from"):
            # generic, unresolved
            return ("app", callee, tuple(args))
        if callee.endswith("UnpackedIndex::as_module_index") or callee.endswith("UnpackedIndex::as_rec_group_index") or callee.endswith("UnpackedIndex::as_core_type_id"):
            want = {"as_module_index": "Module", "as_rec_group_index": "RecGroup", "as_core_type_id": "Id"}[callee.split("::")[-1]]
            a = args[0]
            if a[0] == "v" and a[1] and a[1].endswith("UnpackedIndex"):
                return ("some", fields_of(a)["0"]) if a[2] == want else ("none",)
        # local function: interpret its body
        fs = F.by_path.get(callee)
        if fs and len(fs) == 1 and fs[0].get("body") is not None and fs[0]["name"] not in self.opaque:
            return self.call_fn(fs[0], args, depth + 1)
        v = ("app", callee, tuple(args))
        self.effects.append(v)
        return v


def callee_of(e):
    return e.get("inst") or e.get("callee")


def find_conv(F, src_ty, dst_ty, by_ref=False):
    """The `impl From<src> for dst` function (fail closed)."""
    want_param = ("&" + src_ty) if by_ref else src_ty
    c = [f for f in F.fns if f["name"] == "from" and (f.get("impl_trait") or "").endswith("convert::From")
         and f.get("self_ty") == dst_ty and f["params"] and f["params"][0]["ty"] == want_param]
    if len(c) != 1:
        raise CheckError("anchor: impl From<%s> for %s: %d candidates" % (want_param, dst_ty, len(c)))
    return c[0]


def show(v, depth=0):
    """Compact rendering for reports."""
    if not isinstance(v, tuple):
        return str(v)
    t = v[0]
    if t == "v":
        name = (v[1] or "?").split("::")[-1] + (("::" + v[2]) if v[2] else "")
        if v[3]:
            return name + "{" + ", ".join("%s: %s" % (k, show(x)) for k, x in v[3]) + "}"
        return name
    if t == "b":
        return "true" if v[1] else "false"
    if t == "s":
        return v[1]
    if t == "lit":
        return v[1]
    if t == "rt":
        return "RefType(nullable=%s, %s)" % (show(v[1]), show(v[2]))
    if t == "some":
        return "Some(%s)" % show(v[1])
    if t == "none":
        return "None"
    if t == "panic":
        return "panic!(%s)" % (v[1] if len(v) > 1 else "")
    if t == "app":
        return "%s(%s)" % (v[1].split("::")[-1], ", ".join(show(x) for x in v[2]))
    if t == "tup":
        return "(" + ", ".join(show(x) for x in v[1]) + ")"
    if t == "cast":
        return "(%s as %s)" % (show(v[2]), v[1])
    if t == "field":
        return "%s.%s" % (show(v[1]), v[2])
    if t == "deref":
        return "*" + show(v[1])
    return str(v)
