"""Fact extraction (runs the rustc_private driver over /repo's working tree)
and generic queries over the typed-HIR / MIR fact file.

Nothing here judges anything; rules live in /verif/rules.
"""
import fcntl
import hashlib
import json
import os
import subprocess
import sys
import time

VERIF = os.path.dirname(os.path.dirname(os.path.abspath(__file__)))
REPO = os.environ.get("ORCA_REPO", "/repo")
WORK = os.path.join(VERIF, ".work")
DRIVER = os.path.join(VERIF, "driver", "target", "release", "orca-facts")


class AnchorInlined(Exception):
    """A function a rule is anchored on no longer exists because its body was inlined into its caller(s) (the reviewed
    tree's record of it and the callers' present bodies say so).  The clause the rule decides about that function cannot
    be located any more: the rule reports it as undecided instead of failing or alarming."""


class CheckError(Exception):
    """Fail-closed error: missing anchor, stale facts, extractor failure."""


def _digest_tree(repo):
    h = hashlib.sha256()
    files = []
    for root, dirs, fs in os.walk(repo):
        dirs[:] = [d for d in dirs if d not in ("target", ".git", "output", "node_modules")]
        for f in fs:
            if f.endswith((".rs", ".toml", ".lock")):
                files.append(os.path.join(root, f))
    for p in sorted(files):
        h.update(os.path.relpath(p, repo).encode())
        h.update(b"\0")
        with open(p, "rb") as fh:
            h.update(fh.read())
        h.update(b"\0")
    try:
        with open(DRIVER, "rb") as fh:
            h.update(hashlib.sha256(fh.read()).digest())
    except FileNotFoundError:
        raise CheckError("driver binary missing: run MANIFEST.setup_cmd (%s)" % DRIVER)
    return h.hexdigest()[:24]


def _sysroot():
    return subprocess.check_output(["rustc", "+nightly", "--print", "sysroot"], text=True).strip()


def extract(repo=None, force=False):
    """Return (facts_path, digest). Re-runs the driver unless a fact file for
    exactly this source digest (sources + manifest + lock + driver) exists."""
    repo = repo or REPO
    os.makedirs(WORK, exist_ok=True)
    digest = _digest_tree(repo)
    out = os.path.join(WORK, "facts-%s.json" % digest)
    if os.environ.get("VERIF_NO_CACHE"):
        force = True
    lock = open(os.path.join(WORK, "extract.lock"), "w")
    fcntl.flock(lock, fcntl.LOCK_EX)
    try:
        if os.path.exists(out) and not force:
            return out, digest
        target = os.environ.get("ORCA_TARGET_DIR", os.path.join(WORK, "target"))
        env = dict(os.environ)
        env.update(
            LD_LIBRARY_PATH=os.path.join(_sysroot(), "lib"),
            RUSTFLAGS="-Zmir-opt-level=0 -Awarnings",
            RUSTC_WORKSPACE_WRAPPER=DRIVER,
            ORCA_FACTS_OUT=out,
            ORCA_FACTS_NONCE=digest,
            ORCA_FACTS_CRATE="wirm",
            CARGO_TARGET_DIR=target,
            CARGO_NET_OFFLINE="true",
        )
        env.pop("RUSTC_WRAPPER", None)
        for attempt in (0, 1):
            # cargo's freshness cache would skip the wrapper: drop wirm's fingerprints
            fp = os.path.join(target, "debug", ".fingerprint")
            if os.path.isdir(fp):
                for d in os.listdir(fp):
                    if d.startswith("wirm-"):
                        subprocess.call(["rm", "-rf", os.path.join(fp, d)])
            if os.path.exists(out):
                os.remove(out)
            p = subprocess.run(
                ["cargo", "+nightly", "check", "--offline", "--lib", "--quiet"],
                cwd=repo, env=env, stdout=subprocess.PIPE, stderr=subprocess.STDOUT, text=True,
            )
            if p.returncode != 0:
                raise CheckError("extractor: cargo check failed on the working tree:\n" + p.stdout[-4000:])
            if os.path.exists(out):
                break
        else:
            raise CheckError("extractor produced no fact file (driver skipped?)")
        # prune old fact files
        olds = sorted(
            (f for f in os.listdir(WORK) if f.startswith("facts-") and f.endswith(".json")),
            key=lambda f: os.path.getmtime(os.path.join(WORK, f)),
        )
        keep = int(os.environ.get("VERIF_FACT_CACHE", "700"))  # the self-test analyses ~200 source variants; one fact file is ≈11 MB
        for f in olds[:-keep]:
            try:
                os.remove(os.path.join(WORK, f))
            except OSError:
                pass
        return out, digest
    finally:
        fcntl.flock(lock, fcntl.LOCK_UN)
        lock.close()


# --------------------------------------------------------------------------
# Generic tree walking


def walk(node):
    """Yield every dict node (exprs, pats, stmts, arms) in a HIR subtree, pre-order."""
    stack = [node]
    while stack:
        n = stack.pop()
        if isinstance(n, dict):
            yield n
            for v in reversed(list(n.values())):
                if isinstance(v, (dict, list)):
                    stack.append(v)
        elif isinstance(n, list):
            for v in reversed(n):
                if isinstance(v, (dict, list)):
                    stack.append(v)


def exprs(node, kind=None):
    for n in walk(node):
        k = n.get("k")
        if k is None:
            continue
        if kind is None or k == kind or (isinstance(kind, (tuple, set, list)) and k in kind):
            yield n


def peel(e):
    """Strip reference/deref/paren-like wrappers that do not change which place is denoted."""
    while isinstance(e, dict):
        k = e.get("k")
        if k == "AddrOf":
            e = e["a"]
        elif k == "Unary" and e.get("op") == "*":
            e = e["a"]
        elif k in ("Use", "Type"):
            e = e.get("e") or e.get("a")
        elif k == "Block" and not e.get("stmts") and e.get("expr") is not None:
            e = e["expr"]
        elif k in ("Call", "MethodCall") and isinstance(e.get("inlined"), dict):
            # an accessor extracted into a helper (vlib/canon.py): `self.flag_at(i)` ≡ `&mut self.body.instructions[i].instr_flag`
            t = _inlined_place(e["inlined"])
            if t is None:
                break
            e = t
        else:
            break
    return e


def _inlined_place(inl):
    """the place an inlined helper evaluates to, when its body is nothing but that place expression"""
    b = inl.get("body")
    while isinstance(b, dict) and b.get("k") == "Block" and not b.get("stmts") and b.get("expr") is not None:
        b = b["expr"]
    t = b
    while isinstance(t, dict) and t.get("k") in ("AddrOf", "Field", "Index") or (isinstance(t, dict) and t.get("k") == "Unary" and t.get("op") == "*"):
        t = t.get("a") or t.get("base")
    if isinstance(t, dict) and t.get("k") == "Path" and isinstance(b, dict) and b.get("k") != "Path":
        return b
    return None


def place_path(e):
    """Render a place expression as a dotted path string, e.g. self.body.instructions[].instr_flag
    Returns None if the expression is not a pure place."""
    e0 = e
    parts = []
    while isinstance(e, dict):
        k = e.get("k")
        if k == "Field":
            parts.append("." + e["name"])
            e = e["base"]
        elif k == "Index":
            parts.append("[]")
            e = e["base"]
        elif k == "AddrOf":
            e = e["a"]
        elif k == "Unary" and e.get("op") == "*":
            e = e["a"]
        elif k == "MethodCall" and e.get("method") in ("as_ref", "as_mut", "borrow", "borrow_mut", "deref", "deref_mut", "unwrap", "clone", "to_owned", "iter", "iter_mut", "as_slice"):
            parts.append("." + e["method"] + "()")
            e = e["recv"]
        elif k == "Path":
            r = e.get("res", {})
            if r.get("r") == "local":
                parts.append(r["name"])
            elif r.get("r") == "def":
                parts.append(r["path"])
            else:
                parts.append("?")
            return "".join(reversed(parts))
        elif k in ("Use", "Type"):
            e = e.get("e") or e.get("a")
        else:
            return None
    return None


def path_to(root, target):
    """[(node, role)] from `root` down to `target` (by identity); role = key under which the node hangs off its
    parent ('then', 'else', 'cond', 'arms', 'body', ...).  None if target is not inside root."""
    path = []

    def rec(n, role):
        if n is target:
            path.append((n, role))
            return True
        if isinstance(n, dict):
            for k, v in n.items():
                if isinstance(v, (dict, list)) and rec(v, k if isinstance(n, dict) else role):
                    path.append((n, role))
                    return True
        elif isinstance(n, list):
            for v in n:
                if isinstance(v, (dict, list)) and rec(v, role):
                    return True
        return False

    if not rec(root, None):
        return None
    path.reverse()
    return path


def conditional_ancestors(root, target, below=None):
    """Nodes between `below` (default: root) and `target` under which target executes only conditionally:
    If arms, arms/guards of a real `match`, closure bodies, the right operand of &&/||, let-else.
    `for`/`while` desugarings are NOT counted (a zero-trip loop is 'for every element')."""
    p = path_to(root, target)
    if p is None:
        return None
    out = []
    started = below is None
    for i, (n, role) in enumerate(p):
        if not started:
            if n is below:
                started = True   # the arm of `below` itself that leads to the target counts (then vs else of one If are exclusive)
            else:
                continue
        if not isinstance(n, dict) or i + 1 >= len(p):
            continue
        child_role = p[i + 1][1]
        k = n.get("k")
        if k == "If" and child_role in ("then", "else"):
            # `while` desugars to loop { if cond {body} else {break} }: the then-arm is the loop body
            if not (i > 0 and isinstance(p[i - 1][0], dict) and False):
                out.append(n)
        elif k == "Match" and child_role == "arms" and n.get("src") not in ("ForLoopDesugar", "TryDesugar", "AwaitDesugar"):
            out.append(n)
        elif k == "Match" and child_role == "arms" and n.get("src") == "TryDesugar":
            pass  # `?`: the continuation arm is the normal path
        elif k == "Closure" and child_role == "body":
            out.append(n)
        elif k == "Binary" and n.get("op") in ("&&", "||") and child_role == "b":
            out.append(n)
        elif k == "Let" and child_role == "else":
            out.append(n)
    return out


def lca(root, a, b):
    pa, pb = path_to(root, a), path_to(root, b)
    if pa is None or pb is None:
        return None
    last = None
    for (x, _), (y, _) in zip(pa, pb):
        if x is y:
            if isinstance(x, dict):
                last = x
        else:
            break
    return last


def sp_key(n):
    """source position as an evaluation-order key; nodes of an inlined helper sit at the end of the call expression, in
    the helper's own source order (`ord`, see vlib/canon.py)"""
    e = n.get("esp") or n["sp"]
    return (e[0], e[1], n.get("ord", 0.0))


def sp_before(a, b):
    return sp_key(a) < sp_key(b)


def uncond_before(root, a, b):
    """`a` is evaluated earlier than `b` on every path that evaluates `b` (structural dominance on the HIR tree):
    a precedes b in source order, and below their lowest common ancestor `a` hangs under no conditional construct.
    Returns (ok, reason)."""
    l = lca(root, a, b)
    if l is None:
        return False, "not in the same body"
    if not sp_before(a, b):
        return False, "comes after"
    conds = conditional_ancestors(root, a, below=l)
    if conds:
        c = conds[0]
        what = c.get("k")
        return False, "only under a conditional (%s at line %s)" % (what, c.get("sp", ["?"])[0])
    # `a` inside a helper body attached to its call site (vlib/canon.py): an earlier `return` of the helper skips `a` while
    # the caller carries on to `b`
    pa = path_to(l, a) or []
    for i, (anc, _role) in enumerate(pa):
        if isinstance(anc, dict) and anc.get("k") == "Inlined":
            for x in walk(anc.get("body") or {}):
                if x.get("k") == "Ret" and sp_before(x, a) and not any(y is a for y in walk(x)):
                    inner = [q for q, _ in (path_to(anc, x) or []) if isinstance(q, dict) and q.get("k") in ("Closure", "Inlined") and q is not anc]
                    if not inner:
                        return False, "the extracted helper may return before it (line %s)" % x.get("sp", ["?"])[0]
    return True, ""


def every_iteration(scope, node):
    """`node` is evaluated on every normal pass through `scope` (a loop body / closure body / block): it hangs under no
    conditional inside scope and no break/continue/return/`?` that belongs to scope precedes it.  Returns (ok, reason)."""
    conds = conditional_ancestors(scope, node)
    if conds is None:
        return False, "not inside the scope"
    if conds:
        return False, "only under a conditional (%s at line %s)" % (conds[0].get("k"), conds[0].get("sp", ["?"])[0])
    for x in walk(scope):
        if x.get("k") in ("Break", "Continue", "Ret") and x.get("sp") and sp_before(x, node):
            # exits of nested loops/closures do not leave this scope
            inner = [a for a, _ in (path_to(scope, x) or []) if isinstance(a, dict) and a.get("k") in ("Loop", "Closure", "Inlined") and a is not scope]
            if x.get("k") == "Ret":
                inner = [a for a in inner if a.get("k") in ("Closure", "Inlined")]
            if not inner:
                return False, "after an early %s at line %s" % (x["k"].lower(), x["sp"][0])
    return True, ""


def binding_site(root, hid):
    """Where is local `hid` bound?  → (pattern that contains the binding, scrutinee/initialiser expression, kind) with kind in
    'let' | 'iflet' | 'match' | 'param-or-unknown'.  Handles `let P = e [else {..}]`, `if let P = e`, `match e { P => .. }`."""
    for n in walk(root):
        k = n.get("k")
        if k == "Let" and "init" in n and any(b.get("k") == "Binding" and b.get("hid") == hid for b in walk(n["pat"])):
            return n["pat"], n["init"], "let"
        if k == "LetExpr" and any(b.get("k") == "Binding" and b.get("hid") == hid for b in walk(n["pat"])):
            return n["pat"], n["init"], "iflet"
        if k == "Match":
            for arm in n["arms"]:
                if any(b.get("k") == "Binding" and b.get("hid") == hid for b in walk(arm["pat"])):
                    return arm["pat"], n["scrut"], "match"
        if k in ("Call", "MethodCall") and isinstance(n.get("inlined"), dict):
            # a parameter of a helper whose body is attached to this call (vlib/canon.py) is bound to the argument
            inl = n["inlined"]
            args = ([n["recv"]] if k == "MethodCall" else []) + list(n.get("args", []))
            for pat, ai in zip(inl.get("params", []), inl.get("param_args", [])):
                if ai < len(args) and any(b.get("k") == "Binding" and b.get("hid") == hid for b in walk(pat)):
                    return pat, args[ai], "arg"
    return None, None, "param-or-unknown"


def field_of_pattern_binding(root, e, field):
    """Does expression `e` denote field `field` of a value destructured by a pattern — either the binding that the pattern
    gives to that field (`Kind::Import(S { field, .. })`) or `b.field` where `b` binds the whole payload (`Kind::Import(b)`)?
    → (pattern, scrutinee) of the binding site, or (None, None)."""
    e = peel(e)
    while isinstance(e, dict) and e.get("k") == "MethodCall" and e.get("method") in ("clone", "to_owned"):
        e = peel(e["recv"])
    if isinstance(e, dict) and e.get("k") == "Field" and e["name"] == field:
        b = peel(e["base"])
        if b.get("k") == "Path" and b.get("res", {}).get("r") == "local":
            pat, scr, _ = binding_site(root, b["res"]["hid"])
            return pat, scr
    if isinstance(e, dict) and e.get("k") == "Path" and e.get("res", {}).get("r") == "local":
        hid = e["res"]["hid"]
        pat, scr, _ = binding_site(root, hid)
        if pat is not None:
            for s_ in walk(pat):
                if s_.get("k") == "Struct" and isinstance(s_.get("fields"), list):
                    for item in s_["fields"]:
                        if isinstance(item, list) and item[0] == field and any(b.get("k") == "Binding" and b.get("hid") == hid for b in walk(item[1])):
                            return pat, scr
    return None, None


def guard_conditions(root, node):
    """Conditions known to hold when `node` executes, as a list of (polarity, condition expression):
    enclosing `if c` (then: +c, else: −c), and *preceding guard clauses* in enclosing blocks — `if c { diverge }` gives −c.
    Pattern tests (if-let / match arms / let-else) are reported as ('pat', (pattern, scrutinee)); an if-let guard clause
    whose body diverges is reported as ('notpat', (pattern, scrutinee)): afterwards the scrutinee did not match."""
    out = []
    p = path_to(root, node)
    if p is None:
        return out
    for i, (n, role) in enumerate(p):
        if not isinstance(n, dict) or i + 1 >= len(p):
            continue
        child, crole = p[i + 1]
        k = n.get("k")
        if k == "If" and crole in ("then", "else"):
            c = peel(n["cond"])
            if c.get("k") == "LetExpr":
                if crole == "then":
                    out.append(("pat", (c["pat"], c["init"])))
            else:
                out.append((crole == "then", n["cond"]))
        elif k == "Match" and crole == "arms":
            for arm in n["arms"]:
                if any(x is node for x in walk(arm["body"])):
                    out.append(("pat", (arm["pat"], n["scrut"])))
        elif k == "Block":
            # statements before the one that leads to `node`
            stmts = n.get("stmts") or []
            nxt = p[i + 1][0]
            for st in stmts:
                if st is nxt or any(x is nxt for x in ([st] if st is nxt else [])):
                    break
                if any(x is node for x in walk(st)):
                    break
                e_ = st.get("e") if st.get("k") in ("Semi", "Expr") else None
                if isinstance(e_, dict) and e_.get("k") == "If" and "else" not in e_ and diverges(e_["then"]):
                    c = peel(e_["cond"])
                    if c.get("k") != "LetExpr":
                        out.append((False, e_["cond"]))
                    else:
                        # `if let P = e { return / continue / panic }`: afterwards e did NOT match P
                        out.append(("notpat", (c["pat"], c["init"])))
                if st.get("k") == "Let" and "else" in st and "init" in st:
                    out.append(("pat", (st["pat"], st["init"])))
                # a preceding call to a helper whose body was attached (vlib/canon.py): the guard clauses at the top level of
                # the helper that end in a panic (not in a `return`) hold once the helper has returned
                top = st.get("init") if st.get("k") == "Let" else e_
                top = peel(top) if isinstance(top, dict) else None
                while isinstance(top, dict) and top.get("k") == "Match" and (top.get("src") or "").startswith("TryDesugar"):
                    top = peel(top["scrut"])
                    if top.get("k") == "Call" and top.get("args") and "inlined" not in top:
                        top = peel(top["args"][0])
                if isinstance(top, dict) and top.get("k") in ("Call", "MethodCall") and isinstance(top.get("inlined"), dict):
                    hb = top["inlined"].get("body")
                    if isinstance(hb, dict) and hb.get("k") == "Block":
                        for hst in hb.get("stmts") or []:
                            he = hst.get("e") if hst.get("k") in ("Semi", "Expr") else None
                            if isinstance(he, dict) and he.get("k") == "If" and "else" not in he and diverges(he["then"]) \
                                    and not any(x.get("k") == "Ret" for x in walk(he["then"])):
                                hc = peel(he["cond"])
                                if hc.get("k") != "LetExpr":
                                    out.append((False, he["cond"]))
    return out


def pat_variants(p):
    """Set of (adt, variant) a pattern matches at its top level (through Or/Ref/Deref/Box/Binding@),
    plus flag whether it contains a catch-all at that level."""
    out = set()
    wild = False
    stack = [p]
    while stack:
        q = stack.pop()
        k = q.get("k")
        if k == "Or":
            stack.extend(q["pats"])
        elif k in ("Ref", "Deref", "Box"):
            stack.append(q["sub"])
        elif k == "Guard":
            stack.append(q["sub"])
        elif k == "Binding":
            if q.get("sub"):
                stack.append(q["sub"])
            else:
                wild = True
        elif k == "Wild":
            wild = True
        elif k in ("Struct", "TupleStruct", "Path"):
            if q.get("variant"):
                out.add((q.get("adt"), q["variant"]))
            elif q.get("adt"):
                out.add((q.get("adt"), None))
        # Lit/Range/Tuple/Slice: not enum-variant patterns
    return out, wild


def pat_alternatives(p):
    """Flatten or-patterns: list of leaf patterns (after peeling Ref/Deref/Box)."""
    out = []
    stack = [p]
    while stack:
        q = stack.pop()
        k = q.get("k")
        if k == "Or":
            stack.extend(reversed(q["pats"]))
        elif k in ("Ref", "Deref", "Box"):
            stack.append(q["sub"])
        else:
            out.append(q)
    return out


def pat_bindings(p):
    """All binding names introduced by a pattern: list of (name, hid)."""
    return [(n["name"], n.get("hid")) for n in walk(p) if n.get("k") == "Binding"]


def callee_of(e):
    """Most precise resolved callee path of a Call/MethodCall node."""
    return e.get("inst") or e.get("callee")


def is_call_to(e, *suffixes):
    if e.get("k") not in ("Call", "MethodCall"):
        return False
    for c in (e.get("inst"), e.get("callee")):
        if c and any(c == s or c.endswith("::" + s) or c.endswith(s) for s in suffixes):
            return True
    return False


def diverges(e):
    """expression never completes normally (panic!/todo!/unreachable!/return-less diverging call)"""
    if not isinstance(e, dict):
        return False
    if e.get("ty") == "!" or e.get("k") in ("Continue", "Break", "Ret"):
        return True
    if e.get("k") == "Block":
        if e.get("expr") is not None:
            return diverges(e["expr"])
        if e.get("stmts"):
            last = e["stmts"][-1]
            return diverges(last.get("e") or {})
    return False


def lit_int(lit):
    """'Int(Pu128(7), Unsuffixed)' -> 7 ; None if not an integer literal."""
    import re
    m = re.match(r"Int\(Pu128\((\d+)\)", lit or "")
    return int(m.group(1)) if m else None


def macro_names(e):
    return e.get("exp") or []


class Facts:
    def __init__(self, path, digest=None):
        t0 = time.time()
        with open(path) as fh:
            self.raw = json.load(fh)
        self.path = path
        self.digest = digest
        if digest is not None and self.raw.get("nonce") != digest:
            raise CheckError("stale fact file: nonce %r != digest %r" % (self.raw.get("nonce"), digest))
        self.fns = self.raw["fns"]
        self.adts = {a["path"]: a for a in self.raw["adts"]}
        self.impls = self.raw["impls"]
        self.by_path = {}
        for f in self.fns:
            self.by_path.setdefault(f["path"], []).append(f)
        self.renamed = {}
        self.renamed_fields = {}
        self.inlined_calls = 0
        table = self._anchor_table()
        if table and not os.environ.get("VERIF_NO_CANON"):
            from vlib import canon
            try:
                self.renamed = canon.canonicalise_functions(self, table)
            except Exception:       # the fallback must never make things worse: names that do not resolve fail closed in one_fn
                self.renamed = {}
            if self.renamed:
                self.by_path = {}
                for f in self.fns:
                    self.by_path.setdefault(f["path"], []).append(f)
            try:
                self.inlined_calls = canon.inline_new_helpers(self, table)
            except Exception:
                self.inlined_calls = 0
        self.all_fns = self.fns
        hidden = {f["path"] for f in self.fns if f.get("hidden_helper")}
        if hidden:
            self.fns = [f for f in self.all_fns if f["path"] not in hidden and not (f["kind"] == "Closure" and (f.get("parent") or "") in hidden)]
        try:
            self._canonicalise_field_renames()
        except Exception:
            self.renamed_fields = {}
        self.renamed_locals = 0
        try:
            self._canonicalise_local_renames()
        except Exception:
            pass
        self.load_s = time.time() - t0

    def _inlined_into(self, kw):
        """names of the recorded callers whose present bodies contain (most of) the distinctive words of the recorded body
        of the missing function — the signature of `inline function` refactoring; [] when there is no such evidence"""
        table = self._anchor_table()
        if not table:
            return []
        from vlib import canon
        rows = [r_ for p_, r_ in (table.get("known_fns") or {}).items()
                if r_.get("name") == kw["name"] and (kw.get("self_adt") is None or (r_.get("self_adt") or "").endswith(kw["self_adt"]))
                and (kw.get("path_contains") is None or kw["path_contains"] in r_.get("path", ""))]
        if len(rows) != 1 or rows[0].get("vis") == "pub":
            return []
        row = rows[0]
        want = row.get("tokens") or {}
        out = []
        byp = {}
        for f in getattr(self, "all_fns", self.fns):
            if f["kind"] in ("Fn", "AssocFn"):
                byp.setdefault(canon.nogen(f["path"]), f)
        for cp in row.get("callers", []):
            g = byp.get(cp)
            if g is None or g.get("body") is None:
                continue
            have = canon.body_tokens(g)
            tot = sum(want.values())
            got = sum(min(n_, have.get(t_, 0)) for t_, n_ in want.items())
            if tot == 0 or got >= 0.7 * tot:
                out.append(g["path"].split("::")[-1])
        return out

    def _anchor_table(self):
        try:
            with open(os.path.join(os.path.dirname(os.path.dirname(os.path.abspath(__file__))), "tables", "anchors.json")) as fh:
                return json.load(fh)
        except (OSError, ValueError):
            return None

    @staticmethod
    def _bindings(f):
        out = []
        for pm in f.get("params", []):
            out += [b for b in walk(pm["pat"]) if b.get("k") == "Binding"]
        if f.get("body") is not None:
            out += [b for b in walk(f["body"]) if b.get("k") == "Binding"]
        return out

    def _canonicalise_local_renames(self):
        """Parameters and locals: tables/anchors.json records, per function, the sequence of (name, type) of its bindings in
        source order.  When a function still has the same sequence of binding *types* but some names differ, the function
        was edited by renaming variables (at least as far as its bindings go): those bindings get their recorded names back
        (a few rules still recognise a role by the name the repository gives a local).  Any other difference — a binding
        added, removed, retyped — leaves the function untouched."""
        import re as _re
        try:
            with open(os.path.join(os.path.dirname(os.path.dirname(os.path.abspath(__file__))), "tables", "anchors.json")) as fh:
                rec = json.load(fh).get("bindings") or {}
        except (OSError, ValueError):
            return
        norm = lambda t: _re.sub(r"'[a-z_0-9]+", "'_", t or "")
        n = 0
        for f in self.fns:
            row = rec.get(f["path"])
            if row is None or f["kind"] not in ("Fn", "AssocFn"):
                continue
            bs = self._bindings(f)
            if len(bs) != len(row) or any(norm(b.get("ty")) != norm(t) for b, (_n, t) in zip(bs, row)):
                continue
            ren = {b["hid"]: nm for b, (nm, _t) in zip(bs, row) if b.get("name") != nm}
            if not ren:
                continue
            n += len(ren)
            for x in list(walk(f.get("body") or {})) + [y for pm in f.get("params", []) for y in walk(pm["pat"])]:
                if x.get("k") == "Binding" and x.get("hid") in ren:
                    x["name"] = ren[x["hid"]]
                elif x.get("k") == "Path" and isinstance(x.get("res"), dict) and x["res"].get("r") == "local" and x["res"].get("hid") in ren:
                    x["res"]["name"] = ren[x["res"]["hid"]]
        self.renamed_locals = n

    def _canonicalise_field_renames(self):
        """Same idea for struct / enum-variant fields: tables/anchors.json records the (name, type) list of every ADT of
        the crate on the reviewed tree.  A field whose recorded name is gone while the field at the same position has the
        same type and a name the record does not know is that field renamed; the facts are rewritten to the recorded name
        (ADT record, HIR field accesses / struct literals / struct patterns of that ADT, MIR aggregates, and MIR
        projections when the new name is unique in the crate)."""
        import re as _re
        try:
            with open(os.path.join(os.path.dirname(os.path.dirname(os.path.abspath(__file__))), "tables", "anchors.json")) as fh:
                rec = json.load(fh).get("adt_fields") or {}
        except (OSError, ValueError):
            return
        norm = lambda t: _re.sub(r"'[a-z_0-9]+", "'_", t or "")
        ren = {}       # adt path -> {new: old}
        for path, variants in rec.items():
            a = self.adts.get(path)
            if a is None:
                continue
            for v in a["variants"]:
                old_fields = variants.get(v["name"])
                if old_fields is None or len(old_fields) != len(v["fields"]):
                    continue
                old_names = {n for n, _t in old_fields}
                cur_names = {f["name"] for f in v["fields"]}
                for (on, ot), f in zip(old_fields, v["fields"]):
                    if f["name"] != on and on not in cur_names and f["name"] not in old_names and norm(f["ty"]) == norm(ot) and not on.isdigit():
                        ren.setdefault(path, {})[f["name"]] = on
                        f["name"] = on
        if not ren:
            return
        all_new = {}
        for path, m in ren.items():
            for n, o in m.items():
                all_new.setdefault(n, []).append((path, o))
        every_field = {}
        for a in self.adts.values():
            for v in a["variants"]:
                for f in v["fields"]:
                    every_field[f["name"]] = every_field.get(f["name"], 0) + 1
        mir_safe = {n: po[0][1] for n, po in all_new.items() if len(po) == 1 and every_field.get(n, 0) == 0}

        def adt_of(ty):
            t = (ty or "").replace("&mut ", "").replace("&", "").strip()
            prev = None
            while prev != t:
                prev = t
                t = _re.sub(r"<[^<>]*>", "", t)
            return t

        def fix(o):
            if isinstance(o, dict):
                k = o.get("k")
                if k == "Field" and "name" in o and adt_of(o.get("base_ty")) in ren and o["name"] in ren[adt_of(o.get("base_ty"))]:
                    o["name"] = ren[adt_of(o["base_ty"])][o["name"]]
                if k == "Struct" and o.get("adt") in ren and isinstance(o.get("fields"), list):
                    m = ren[o["adt"]]
                    for item in o["fields"]:
                        if isinstance(item, list) and item and item[0] in m:
                            item[0] = m[item[0]]
                if k == "Aggregate" and o.get("adt") in ren and isinstance(o.get("fields"), list):
                    m = ren[o["adt"]]
                    o["fields"] = [m.get(x, x) for x in o["fields"]]
                if "p" in o and isinstance(o["p"], list) and "l" in o:
                    o["p"] = [("." + mir_safe[x[1:]]) if isinstance(x, str) and x.startswith(".") and x[1:] in mir_safe else x for x in o["p"]]
                for v in o.values():
                    if isinstance(v, (dict, list)):
                        fix(v)
            elif isinstance(o, list):
                for v in o:
                    fix(v)
        for f in self.fns:
            fix(f)
        self.renamed_fields = ren

    # --- anchors (fail closed) -------------------------------------------
    def fn(self, path):
        """Exact def-path lookup."""
        fs = self.by_path.get(path)
        if not fs:
            raise CheckError("anchor function missing: %s" % path)
        if len(fs) > 1:
            raise CheckError("anchor function ambiguous: %s" % path)
        return fs[0]

    def find_fns(self, name=None, self_adt=None, impl_trait=None, in_trait=None, path_contains=None, kind=("Fn", "AssocFn")):
        out = []
        for f in self.fns:
            if kind and f["kind"] not in kind:
                continue
            if name is not None and f["name"] != name:
                continue
            if self_adt is not None and not (f.get("self_adt") or "").endswith(self_adt):
                continue
            if impl_trait is not None and not (f.get("impl_trait") or "").endswith(impl_trait):
                continue
            if in_trait is not None and not (f.get("in_trait") or "").endswith(in_trait):
                continue
            if path_contains is not None and path_contains not in f["path"]:
                continue
            out.append(f)
        return out

    def one_fn(self, **kw):
        fs = self.find_fns(**kw)
        if len(fs) == 0 and kw.get("name"):
            where = self._inlined_into(kw)
            if where:
                raise AnchorInlined("%s was inlined into %s" % (kw["name"], ", ".join(where)))
        if len(fs) != 1:
            raise CheckError("anchor function: expected exactly one match for %r, got %d (%s)" % (kw, len(fs), [f["path"] for f in fs][:6]))
        if getattr(self, "anchor_log", None) is not None:
            self.anchor_log.append((dict(kw), fs[0]))
        return fs[0]

    # --- a private function that was merely renamed is still the same anchor ------------------------------------
    @staticmethod
    def _sig(f):
        import re as _re
        norm = lambda t: _re.sub(r"'[a-z_0-9]+", "'_", t or "")
        return [norm(pm.get("ty")) for pm in f.get("params", [])] + ["->", norm(f.get("ret"))]

    def callers_of(self, name):
        """names of the functions whose bodies call a function called `name` (by resolved callee's last path segment)"""
        if not hasattr(self, "_callers"):
            import re as _re
            idx = {}
            for g in self.fns:
                if g.get("body") is None:
                    continue
                gname = g["path"] if g["kind"] != "Closure" else (g.get("parent") or g["path"])
                for c in walk(g["body"]):
                    if c.get("k") in ("Call", "MethodCall") and c.get("callee"):
                        cal = c["callee"]
                        prev = None
                        while prev != cal:
                            prev = cal
                            cal = _re.sub(r"::<[^<>]*>|<[^<>]*>", "", cal)
                        idx.setdefault(cal.split("::")[-1], set()).add(gname.split("::{closure")[0].split("::")[-1])
            self._callers = idx
        return self._callers.get(name, set())

    def adt(self, path):
        a = self.adts.get(path)
        if a is None:
            # allow unique suffix
            c = [v for k, v in self.adts.items() if k.endswith("::" + path)]
            if len(c) == 1:
                return c[0]
            raise CheckError("anchor ADT missing or ambiguous: %s (%d candidates)" % (path, len(c)))
        return a

    def variants(self, adt_path):
        return {v["name"]: v for v in self.adt(adt_path)["variants"]}

    def closures_of(self, fn):
        return [f for f in self.fns if f["kind"] == "Closure" and f.get("parent") == fn["path"]]

    def loc(self, fn, node=None):
        sp = (node or fn).get("csp") or (node or fn).get("sp") or fn["sp"]
        return "%s:%d" % (fn["file"], sp[0])


_cached = {}


def load(repo=None, force=False):
    key = (repo or REPO)
    if key in _cached and not force:
        return _cached[key]
    path, digest = extract(repo, force=force)
    F = Facts(path, digest)
    _cached[key] = F
    return F
