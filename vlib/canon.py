"""Canonicalisation of the facts against the reviewed tree (tables/anchors.json).

The rules address a number of non-public functions, fields and locals by the name the repository gives them, and walk the
bodies of a handful of long functions.  Three kinds of edit change none of the library's behaviour but all of those
spellings: renaming/moving a function, extracting part of a function into a new helper, renaming a field or a variable.
They are undone *in the facts* before any rule runs:

  canonicalise_functions   a recorded function that is gone is re-identified among the functions the record does not know
                           (owner + signature, or callers/callees fingerprint) and gets its recorded name/path back;
  inline_new_helpers       a call from a recorded function to a function the record does not know (an extracted helper)
                           carries the helper's body as an `inlined` child, parameters substituted by the arguments, so
                           that a rule walking the caller sees what it saw before the extraction;
  (fields and bindings are handled in vlib/facts.py).

Everything here is a fallback: it only acts on names that no longer resolve / functions the record does not know, any
ambiguity leaves the facts untouched, and a name that then does not resolve fails closed in Facts.one_fn."""
import copy
import re

from vlib.facts import walk, peel

_GEN = re.compile(r"::<[^<>]*>|<[^<>]*>")
_STRKEYS = ("callee", "inst", "path", "parent", "def", "fn")


def nogen(p):
    prev = None
    p = p or ""
    while prev != p:
        prev = p
        p = _GEN.sub("", p)
    return p


def norm_ty(t):
    return re.sub(r"'[a-z_0-9]+", "'_", t or "")


def sig(f):
    return [norm_ty(pm.get("ty")) for pm in f.get("params", [])] + ["->", norm_ty(f.get("ret"))]


def owner_path(g):
    p = g["path"] if g["kind"] != "Closure" else (g.get("parent") or g["path"])
    return nogen(p).split("::{closure")[0]


def call_index(F):
    """→ (fns by nogen path, callers[path] = set of caller paths, callees[path] = set of crate-local callee paths)"""
    byp = {}
    for f in F.fns:
        if f["kind"] in ("Fn", "AssocFn"):
            byp.setdefault(nogen(f["path"]), []).append(f)
    callers, callees = {}, {}
    for g in F.fns:
        if g.get("body") is None:
            continue
        gp = owner_path(g)
        for c in walk(g["body"]):
            if c.get("k") in ("Call", "MethodCall") and c.get("callee"):
                cp = nogen(c["callee"])
                if cp in byp:
                    callers.setdefault(cp, set()).add("<self>" if cp == gp else gp)
                    callees.setdefault(gp, set()).add("<self>" if cp == gp else cp)
    return byp, callers, callees


def body_tokens(f):
    """a bag of the distinctive words of a function body (enum variants, field names, std method names, literals): what a
    rename or a move of the function leaves unchanged"""
    bag = {}
    if f.get("body") is None:
        return bag
    for n in walk(f["body"]):
        toks = []
        k = n.get("k")
        if k == "Field":
            toks.append("." + str(n.get("name")))
        elif k == "MethodCall" and (n.get("callee") or "").startswith(("std::", "core::", "alloc::")):
            toks.append("m:" + str(n.get("method")))
        elif k == "Lit":
            toks.append("l:" + str(n.get("lit"))[:40])
        elif k in ("Path",) and isinstance(n.get("res"), dict) and n["res"].get("variant"):
            toks.append("v:" + str(n["res"]["variant"]))
        elif k in ("Struct", "TupleStruct") and n.get("variant"):
            toks.append("v:" + str(n["variant"]))
        for t in toks:
            bag[t] = bag.get(t, 0) + 1
    return bag


def similarity(a, b):
    if not a and not b:
        return 1.0      # two bodies without any distinctive word (a bare loop over calls) are alike as far as this measure goes
    keys = set(a) | set(b)
    return sum(min(a.get(k, 0), b.get(k, 0)) for k in keys) / float(sum(max(a.get(k, 0), b.get(k, 0)) for k in keys))


def fn_record(F, f, callers, callees):
    p = nogen(f["path"])
    return {"tokens": body_tokens(f) if f.get("vis") != "pub" and not f.get("impl_trait") else {},
            "path": f["path"], "name": f["name"], "self_adt": f.get("self_adt") or "", "self_ty": f.get("self_ty") or "", "vis": f.get("vis"),
            "impl_trait": f.get("impl_trait") or "", "sig": sig(f), "callers": sorted(callers.get(p, ())), "callees": sorted(callees.get(p, ())),
            "takes_self": bool(f.get("params")) and f["params"][0]["pat"].get("name") == "self"}


def canonicalise_functions(F, table):
    known = table.get("known_fns") or {}
    if not known:
        return {}
    byp, callers, callees = call_index(F)
    missing = {p: r for p, r in known.items() if p not in byp and r.get("vis") != "pub" and not r.get("impl_trait")}
    if not missing:
        return {}
    unknown = {p: fs[0] for p, fs in byp.items() if p not in known and len(fs) == 1 and not fs[0].get("impl_trait")}
    if not unknown:
        return {}
    mapping = {}      # new nogen path -> old nogen path
    changed = True
    while changed:
        changed = False
        inv = dict(mapping)

        def through_unknown(s, rel, depth=3):
            """callers (callees) with functions the record does not know replaced by *their* callers (callees): a role is
            recognised through freshly extracted helpers standing between it and its recorded neighbours"""
            out, todo = set(), [(x, 0) for x in s]
            while todo:
                x, d = todo.pop()
                if x in unknown and x not in inv and d < depth and rel.get(x):
                    todo.extend((y, d + 1) for y in rel[x] if y != "<self>")
                else:
                    out.add(x)
            return out

        def canon_set(s, rel=None):
            if rel is not None:
                s = through_unknown(s, rel)
            return sorted(set(inv.get(x, x) for x in s))
        for op, row in missing.items():
            if op in mapping.values():
                continue
            cands = [(np, u) for np, u in unknown.items() if np not in mapping]
            feats = []
            for np, u in cands:
                same_owner = (u.get("self_adt") or "") == row["self_adt"]
                same_sig = sig(u) == row["sig"]
                cu = canon_set(callers.get(np, ()))
                same_callers = bool(cu) and (cu == sorted(row["callers"]) or canon_set(callers.get(np, ()), callers) == sorted(row["callers"]))
                ce = canon_set(callees.get(np, ()))
                same_callees = bool(ce) and (ce == sorted(row["callees"]) or canon_set(callees.get(np, ()), callees) == sorted(row["callees"]))
                feats.append((np, same_owner, same_sig, same_callers, same_callees))
            pick = None
            rec_bag = row.get("tokens") or {}
            rec_n = sum(rec_bag.values())

            def plausible(np):
                # structural evidence alone (same callers) does not make a 90-line function the twin of a 3-line one
                n_ = sum(body_tokens(unknown[np]).values())
                return not (n_ > 3 * rec_n + 12 or rec_n > 3 * n_ + 12)
            for ti, tier in enumerate((lambda o, s, c, e: o and s and (c or not row["callers"]),
                                       lambda o, s, c, e: o and s,
                                       lambda o, s, c, e: c and (o or s),
                                       lambda o, s, c, e: c and e,
                                       lambda o, s, c, e: s and c)):
                sel = [np for np, o, s, c, e in feats if tier(o, s, c, e) and (ti < 2 or plausible(np))]
                if len(sel) == 1:
                    pick = sel[0]
                    break
                if len(sel) > 1:
                    # several functions fit the role: the one whose body is (nearly) the recorded body, if it stands out
                    sims = sorted(((similarity(row.get("tokens") or {}, body_tokens(unknown[np])), np) for np in sel), reverse=True)
                    if sims[0][0] >= 0.8 and sims[0][0] - sims[1][0] >= 0.2:
                        pick = sims[0][1]
                    else:
                        # … or the only one among them that also has the recorded callees (a small helper extracted next to
                        # a renamed function shares its callers, not what it calls)
                        by_np = {np: (o, s_, c, e) for np, o, s_, c, e in feats}
                        narrowed = [np for np in sel if by_np[np][3]]
                        if len(narrowed) == 1 and row["callees"]:
                            pick = narrowed[0]
                    break       # otherwise ambiguous at this tier: do not guess with a weaker one
            if pick is not None:
                mapping[pick] = op
                changed = True
    if not mapping:
        return {}
    # no two new functions may claim the same old one (dict construction above guarantees distinct keys; check values)
    if len(set(mapping.values())) != len(mapping):
        return {}
    newname = {np: np.split("::")[-1] for np in mapping}
    oldname = {np: known[op]["name"] for np, op in mapping.items()}

    def repl(v):
        nv = nogen(v)
        for np, op in mapping.items():
            if nv == np or nv.startswith(np + "::"):
                return known[op]["path"] + nv[len(np):]
        return None

    def fix(o):
        if isinstance(o, dict):
            if o.get("k") == "MethodCall" and isinstance(o.get("callee"), str):
                nv = nogen(o["callee"])
                if nv in mapping and o.get("method") == newname[nv]:
                    o["method"] = oldname[nv]
            for k, v in o.items():
                if isinstance(v, str):
                    if k in _STRKEYS:
                        r = repl(v)
                        if r is not None:
                            o[k] = r
                else:
                    fix(v)
        elif isinstance(o, list):
            for v in o:
                fix(v)
    for f in F.fns:
        if f["kind"] in ("Fn", "AssocFn") and nogen(f["path"]) in mapping:
            row = known[mapping[nogen(f["path"])]]
            f["name"] = row["name"]
            if not row.get("takes_self") or (f.get("self_adt") or "") == "":
                # a helper moved between an impl block and module level keeps its recorded owner for lookup purposes
                f["self_adt"] = row["self_adt"] or f.get("self_adt")
                if row.get("self_ty"):
                    f["self_ty"] = row["self_ty"]
        fix(f)
    return mapping


# ---------------------------------------------------------------------------------------------------------------------
def _rehid(node, base, subst, at, ord_base, scale):
    """deep copy of a helper's body for one call site: HIR ids shifted by `base`; Path nodes that denote a substituted
    parameter replaced by a copy of the argument expression; every node gets an *evaluation position* `esp` = the end of the
    call expression, with the helper's own source order in `ord` (see facts.sp_key); `sp` stays the node's real span"""
    if isinstance(node, list):
        return [_rehid(x, base, subst, at, ord_base, scale) for x in node]
    if not isinstance(node, dict):
        return node
    if node.get("k") == "Path" and isinstance(node.get("res"), dict) and node["res"].get("r") == "local" and node["res"].get("hid") in subst:
        arg = copy.deepcopy(subst[node["res"]["hid"]])
        o_ = node.get("sp") or [0, 0, 0, 0]
        for x in walk(arg):
            if "sp" in x:
                x["esp"] = list(at)
                x["ord"] = ord_base + scale * (o_[0] * 10000 + o_[1])
        return arg
    out = {}
    for k, v in node.items():
        if k == "hid" and isinstance(v, int):
            out[k] = v + base
        elif k == "res" and isinstance(v, dict) and v.get("r") == "local" and isinstance(v.get("hid"), int):
            r = dict(v)
            r["hid"] = v["hid"] + base
            out[k] = r
        elif k == "sp" and isinstance(v, list) and len(v) == 4:
            out["sp"] = v
            out["esp"] = list(at)
            out["ord"] = ord_base + scale * (v[0] * 10000 + v[1])
        else:
            out[k] = _rehid(v, base, subst, at, ord_base, scale)
    return out


def _is_place(e):
    e = peel(e)
    while isinstance(e, dict) and e.get("k") in ("Field", "Index", "Unary", "AddrOf"):
        e = peel(e.get("base") or e.get("a"))
    return isinstance(e, dict) and e.get("k") == "Path"


def inline_new_helpers(F, table, max_depth=3):
    """Calls from recorded functions to functions the record does not know get the callee's body attached (`inlined`):
    {"params": [(pattern, argument) for non-substituted parameters], "body": <callee body, ids shifted, parameters that were
    passed pure places replaced by those places>}.  `walk` descends into it like into any child, so rules that scan the
    caller see the extracted statements; the path engine treats it as the call's effect (a `return` ends the helper only)."""
    known = table.get("known_fns") or {}
    if not known:
        return 0
    byp, _callers, _callees = call_index(F)
    unknown = {p: fs[0] for p, fs in byp.items() if p not in known and len(fs) == 1 and fs[0].get("body") is not None
               and not fs[0].get("impl_trait")}
    if not unknown:
        return 0
    counter = [0]

    sites = {}
    root_fn = None

    def expand(body, depth, stack, scale=1.0):
        n = 0
        for c in list(walk(body)):
            if c.get("k") not in ("Call", "MethodCall") or "inlined" in c or not c.get("callee"):
                continue
            cp = nogen(c["callee"])
            g = unknown.get(cp)
            if g is None or cp in stack or depth >= max_depth:
                continue
            args = ([c["recv"]] if c["k"] == "MethodCall" else []) + list(c.get("args", []))
            params = g.get("params", [])
            if len(args) != len(params):
                continue
            counter[0] += 1
            base = counter[0] * 1000000
            subst, rest, rest_args = {}, [], []
            sp_ = c.get("esp") or c.get("sp") or [0, 0, 0, 0]
            at = [sp_[2], sp_[3], sp_[2], sp_[3]]
            ord_base = c.get("ord", 0.0)
            for i_, (pm, a) in enumerate(zip(params, args)):
                pat = pm["pat"]
                if pat.get("k") == "Binding" and _is_place(a):
                    subst[pat["hid"]] = a
                else:
                    rest.append(_rehid(pat, base, {}, at, ord_base, scale * 1e-9))
                    rest_args.append(i_)
            inl = {"k": "Inlined", "of": g["path"], "params": rest, "param_args": rest_args,
                   "body": _rehid(g["body"], base, subst, at, ord_base, scale * 1e-9)}
            c["inlined"] = inl
            sites.setdefault(g["path"], []).append((root_fn, inl))
            n += 1 + expand(inl["body"], depth + 1, stack | {cp}, scale * 1e-9)
        return n
    total = 0
    for f in F.fns:
        if f.get("body") is None or f["kind"] not in ("Fn", "AssocFn"):
            continue
        if nogen(f["path"]) in unknown:
            continue
        root_fn = f
        total += expand(f["body"], 0, {nogen(f["path"])})
    # where each new helper was inlined: rules that judge a site inside the helper in the caller's context look here
    F.inline_sites = sites
    # a helper all of whose call sites carry its body is analysed through its callers only: it is taken out of `F.fns` (the
    # list crate-wide scans iterate) so that the fragment is not judged out of its context a second time; it stays in
    # `F.all_fns` / `F.by_path` (explicit look-ups by callee, MIR call graph)
    not_inlined = set()
    for f in F.fns:
        if f.get("body") is None or nogen(f["path"]) in unknown:
            continue
        for c in walk(f["body"]):
            if c.get("k") in ("Call", "MethodCall") and c.get("callee") and "inlined" not in c and nogen(c["callee"]) in unknown:
                not_inlined.add(nogen(c["callee"]))
    for pth, g in unknown.items():
        g["is_new_helper"] = True
        g["inlined_into"] = sorted({rf["path"] for rf, _ in sites.get(g["path"], [])})
        if sites.get(g["path"]) and pth not in not_inlined:
            g["hidden_helper"] = True
    return total
