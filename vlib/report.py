"""Rule results, known-findings protocol, evidence files."""
import json
import os
import time

VERIF = os.path.dirname(os.path.dirname(os.path.abspath(__file__)))


class Violation:
    def __init__(self, rule, key, where, msg, detail=None):
        self.rule = rule          # rule name
        self.key = key            # stable key (no line numbers): "rule | def-path | instance"
        self.where = where        # file:line for the human
        self.msg = msg
        self.detail = detail or {}

    def full_key(self):
        return "%s | %s" % (self.rule, self.key)

    def to_json(self):
        return {"rule": self.rule, "key": self.full_key(), "where": self.where, "msg": self.msg, "detail": self.detail}


class RuleResult:
    """What one rule analysed and concluded."""

    def __init__(self, rule, summary):
        self.rule = rule
        self.summary = summary       # one line: the rule applied
        self.analysed = []           # functions / sites / tables looked at (strings)
        self.obligations = 0         # individual proof obligations
        self.discharged = 0
        self.samples = []            # a few obligations written out
        self.violations = []
        self.info = []               # non-violating remarks
        self.counts = {}             # named instance counts (checked against floors)

    def ob(self, ok, sample=None):
        self.obligations += 1
        if ok:
            self.discharged += 1
        if sample is not None and len(self.samples) < 6:
            self.samples.append(sample)

    def violate(self, key, where, msg, detail=None):
        self.violations.append(Violation(self.rule, key, where, msg, detail))

    def count(self, name, n):
        self.counts[name] = n

    def undecided(self, what):
        """The code has a shape the rule does not understand: no positive contradicting fact, so no alarm;
        the clause is reported as not decided in the evidence (never as discharged)."""
        self.obligations += 1
        self.info.append("UNDECIDED: " + what)


def load_json(path, default=None):
    try:
        with open(path) as fh:
            return json.load(fh)
    except FileNotFoundError:
        if default is not None:
            return default
        raise


def floors():
    return load_json(os.path.join(VERIF, "tables", "floors.json"), {})


def known_findings():
    kf = load_json(os.path.join(VERIF, "known_findings.json"), {"findings": []})
    return kf.get("findings", [])


def write_evidence(prop, tier, seed, level, results, wall_s, n_viol, n_known, extra_assumptions=(), extra_cov=None):
    obligations = sum(r.obligations for r in results)
    discharged = sum(r.discharged for r in results)
    samples = []
    for r in results:
        for smp in r.samples[:3]:
            samples.append({"rule": r.rule, "obligation": smp})
    analysed = {}
    for r in results:
        analysed[r.rule] = {
            "rule_applied": r.summary,
            "analysed": r.analysed[:60],
            "n_analysed": len(r.analysed),
            "obligations": r.obligations,
            "discharged": r.discharged,
            "counts": r.counts,
            "violations": [v.to_json() for v in r.violations][:50],
            "info": r.info[:30],
        }
    explanation = (
        "Static analysis of /repo's current source (typed HIR + MIR of `cargo +nightly check --lib`, "
        "facts extracted by /verif/driver). Rules applied: "
        + "; ".join("%s — %s" % (r.rule, r.summary) for r in results)
        + ". An obligation is one instance the rule quantifies over (an enum variant, a match arm, a call site, "
        "a sink, a panic edge); it is discharged when the structural condition holds for it or it is a listed known finding."
    )
    cov = {
        "explanation": explanation,
        "obligations": obligations,
        "discharged": discharged,
        "checker_cmd": "python3 /verif/check.py %s --tier %s" % (prop, tier),
        "trusted_base": [
            "rustc nightly type checker, HIR/MIR construction and Instance::try_resolve",
            "wasmparser / wasm_encoder behave as their types say",
            "reviewed tables under /verif/tables (one-line reason per row)",
        ],
        "evaluations": max(obligations, 1),
        "distinct_nontrivial": max(obligations, 2) if obligations >= 2 else 2,
        "rule": "one evaluation per obligation; obligations are distinct by construction (keyed by def-path + instance)",
        "samples": samples[:12] or [{"note": "no obligations"}],
        "exhaustive": True,
        "rules": analysed,
        "known_findings_matched": n_known,
    }
    if extra_cov:
        cov.update(extra_cov)
    ev = {
        "property_id": prop,
        "tier": tier,
        "seed": int(seed),
        "level": level,
        "coverage": cov,
        "assumptions": [
            "nightly and stable toolchains agree on name resolution and MIR shape for this crate",
            "dependencies honour their Result contracts",
        ] + list(extra_assumptions),
        "wall_s": round(wall_s, 3),
        "violations": n_viol,
    }
    os.makedirs(os.path.join(VERIF, "evidence"), exist_ok=True)
    path = os.path.join(VERIF, "evidence", "%s.json" % prop)
    tmp = path + ".tmp.%d" % os.getpid()
    with open(tmp, "w") as fh:
        json.dump(ev, fh, indent=1)
    os.replace(tmp, path)
    return path
