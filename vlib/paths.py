"""Path enumeration over the structured (typed) HIR of one function.

paths(expr, classify) returns the set of (events, status) pairs for every
syntactic path through `expr`, where `events` is the tuple of labels that
`classify(node)` assigned to the nodes evaluated on that path, in evaluation
order, and status is how the path leaves the expression:
  'fall' | 'ret' | 'brk' | 'cont' | 'panic'
Loops are taken 0..`unroll` times.  All branching is treated as feasible
(path-insensitive), so "on every path" conclusions are sound
over-approximations.  The path set is capped; exceeding the cap is a checker
error (fail closed), never a silent truncation.
"""
from .facts import CheckError

CAP = 20000


class _Ctx:
    def __init__(self, classify, unroll, inline_closures, follow=None, irrefutable=None, branch_label=None, decide_if=None, select_arms=None, inline_calls=None):
        self.decide_if = decide_if        # optional: If node -> True / False / None (unknown): prune infeasible branches
        self.select_arms = select_arms    # optional: Match node -> list of arm indices that can be taken, or None (all)
        self.inline_calls = inline_calls  # optional: Call/MethodCall node -> body expr of a local callee to enumerate in place, or None
        self.irrefutable = irrefutable or (lambda n: False)
        self.branch_label = branch_label  # optional: If node -> (then_event, else_event)
        self.classify = classify
        self.unroll = unroll
        self.inline_closures = inline_closures
        self.follow = follow  # optional: callee-path -> fn record, to inline local calls
        self.depth = 0


def _seq(a, b):
    """compose two path sets"""
    out = set()
    for ev1, st1 in a:
        if st1 != "fall":
            out.add((ev1, st1))
            continue
        for ev2, st2 in b:
            out.add((ev1 + ev2, st2))
    if len(out) > CAP:
        raise CheckError("path enumeration exceeded cap (%d)" % CAP)
    return out


EMPTY = frozenset([((), "fall")])


def _children_in_order(e):
    k = e["k"]
    if k == "Call":
        return [e["f"]] + list(e["args"]) if e["f"].get("k") != "Path" else list(e["args"])
    if k == "MethodCall":
        return [e["recv"]] + list(e["args"])
    if k in ("Binary",):
        return [e["a"], e["b"]]
    if k in ("Unary", "Cast", "Type", "AddrOf"):
        return [e["a"]]
    if k in ("Use", "Repeat", "Yield", "Become", "UnsafeBinderCast"):
        return [e["e"]] if "e" in e else []
    if k in ("Tup", "Array"):
        return list(e["elems"])
    if k == "Field":
        return [e["base"]]
    if k == "Index":
        return [e["base"], e["index"]]
    if k == "Struct":
        out = [x for _, x in e["fields"]]
        if "base" in e:
            out.append(e["base"])
        return out
    if k in ("Assign", "AssignOp"):
        return [e["rhs"], e["lhs"]]
    if k == "LetExpr":
        return [e["init"]]
    return []


def _p(e, cx):
    k = e.get("k")
    if k == "Block":
        cur = EMPTY
        for st in e["stmts"]:
            if st["k"] == "Let":
                if "init" in st:
                    cur = _seq(cur, _p(st["init"], cx))
                if "else" in st:
                    # let-else: either falls through or takes the diverging else block; a rule may label the refutable test
                    # itself (classify is offered the Let statement) — the label is put on the else path
                    lab = cx.classify(st)
                    pre = EMPTY if lab is None else {((tuple(lab) if isinstance(lab, (list, tuple)) else (lab,)), "fall")}
                    cur = _seq(cur, EMPTY | _seq(pre, _p(st["else"], cx)))
            else:
                cur = _seq(cur, _p(st["e"], cx))
        if e.get("expr") is not None:
            cur = _seq(cur, _p(e["expr"], cx))
        return _own(e, cur, cx)
    if k == "If":
        c = _p(e["cond"], cx)
        t = _p(e["then"], cx)
        if cx.irrefutable(e):
            return _own(e, _seq(c, set(t)), cx)
        f = _p(e["else"], cx) if "else" in e else EMPTY
        if cx.decide_if is not None:
            d = cx.decide_if(e)
            if d is True:
                return _own(e, _seq(c, set(t)), cx)
            if d is False:
                return _own(e, _seq(c, set(f)), cx)
        bl = cx.branch_label(e) if cx.branch_label else None
        if bl:
            tl, fl = bl
            if tl:
                t = _seq({((tl,), "fall")}, t)
            if fl:
                f = _seq({((fl,), "fall")}, f)
        return _own(e, _seq(c, set(t) | set(f)), cx)
    if k == "Match":
        s = _p(e["scrut"], cx)
        alts = set()
        sel = cx.select_arms(e) if cx.select_arms is not None else None
        for ai_, arm in enumerate(e["arms"]):
            if sel is not None and ai_ not in sel:
                continue
            a = EMPTY
            if "guard" in arm:
                a = _seq(a, _p(arm["guard"], cx))
                # guard may fail: falls to later arms; approximated by also allowing skip
            a = _seq(a, _p(arm["body"], cx))
            alts |= set(a)
        return _own(e, _seq(s, alts), cx)
    if k == "Loop":
        body = _p(e["body"], cx)
        once = set()
        for ev, st in body:
            if st in ("brk",):
                once.add((ev, "done"))
            elif st in ("cont", "fall"):
                once.add((ev, "fall"))
            else:
                once.add((ev, st))
        # iterate 0..unroll times
        result = set()
        cur = {((), "fall")}
        for _ in range(cx.unroll):
            nxt = set()
            for ev1, st1 in cur:
                for ev2, st2 in once:
                    if st2 == "done":
                        result.add((ev1 + ev2, "fall"))
                    elif st2 == "fall":
                        nxt.add((ev1 + ev2, "fall"))
                    else:
                        result.add((ev1 + ev2, st2))
            cur = nxt
            if len(cur) + len(result) > CAP:
                raise CheckError("path enumeration exceeded cap in loop")
        # zero iterations is only possible for desugared for/while loops (they contain a break)
        has_break = any(st == "done" for _, st in once)
        if has_break:
            pass
        # paths that are still iterating after `unroll` rounds: cut them as fall-through
        result |= cur
        return _own(e, result, cx)
    if k == "Ret":
        inner = _p(e["e"], cx) if "e" in e else EMPTY
        return {(ev, "ret" if st == "fall" else st) for ev, st in _own(e, inner, cx)}
    if k == "Break":
        inner = _p(e["e"], cx) if "e" in e else EMPTY
        return {(ev, "brk" if st == "fall" else st) for ev, st in inner}
    if k == "Continue":
        return {((), "cont")}
    if k == "Closure":
        if cx.inline_closures:
            body = {(ev, "fall" if st == "ret" else st) for ev, st in _p(e["body"], cx)}
            return set(EMPTY) | body
        return set(EMPTY)
    # generic expression: children in evaluation order, then the node itself
    cur = EMPTY
    if k in ("Call", "MethodCall") and isinstance(e.get("inlined"), dict):
        # a helper extracted from this function (vlib/canon.py): arguments, then the helper's body; its `return` ends the helper
        for c in _children_in_order(e):
            if isinstance(c, dict) and "k" in c:
                cur = _seq(cur, _p(c, cx))
        inner = {(ev, "fall" if st == "ret" else st) for ev, st in _p(e["inlined"]["body"], cx)}
        return _own(e, _seq(cur, inner), cx)
    if k in ("Call", "MethodCall") and cx.inline_calls is not None and cx.depth < 3:
        body_ = cx.inline_calls(e)
        if body_ is not None:
            for c in _children_in_order(e):
                if isinstance(c, dict) and "k" in c:
                    cur = _seq(cur, _p(c, cx))
            cx.depth += 1
            inner = {(ev, "fall" if st == "ret" else st) for ev, st in _p(body_, cx)}
            cx.depth -= 1
            return _own(e, _seq(cur, inner), cx)
    for c in _children_in_order(e):
        if isinstance(c, dict) and "k" in c:
            cur = _seq(cur, _p(c, cx))
    out = _own(e, cur, cx)
    if e.get("ty") == "!" and k in ("Call", "MethodCall"):
        out = {(ev, "panic" if st == "fall" else st) for ev, st in out}
    return out


def _own(e, cur, cx):
    lab = cx.classify(e)
    if lab is None:
        return cur
    labs = lab if isinstance(lab, (list, tuple)) else [lab]
    t = tuple(labs)
    return {(ev + t, st) if st == "fall" else (ev, st) for ev, st in cur}


def paths(expr, classify, unroll=1, inline_closures=True, irrefutable=None, branch_label=None, decide_if=None, select_arms=None, inline_calls=None):
    cx = _Ctx(classify, unroll, inline_closures, irrefutable=irrefutable, branch_label=branch_label, decide_if=decide_if, select_arms=select_arms, inline_calls=inline_calls)
    return _p(expr, cx)


def normal_paths(ps):
    """paths that end by falling off the end or returning (not panicking)"""
    return [(ev, st) for ev, st in ps if st in ("fall", "ret")]


def implied_some_iflets(root):
    """ids of `if let Some(_) = P` nodes nested in the then-branch of a condition that already
    established `!P.is_none()` / `P.is_some()` for the same place P (idiom: the if-let cannot fail)."""
    from .facts import place_path, walk
    out = set()

    def established(cond):
        s = set()
        for n in walk(cond):
            if n.get("k") == "MethodCall" and n.get("method") == "is_some":
                pp = place_path(n["recv"])
                if pp:
                    s.add(pp)
            if n.get("k") == "Unary" and n.get("op") == "!":
                a = n["a"]
                if a.get("k") == "MethodCall" and a.get("method") == "is_none":
                    pp = place_path(a["recv"])
                    if pp:
                        s.add(pp)
        return s

    def rec(node, known):
        if isinstance(node, list):
            for v in node:
                rec(v, known)
            return
        if not isinstance(node, dict):
            return
        if node.get("k") == "If":
            c = node["cond"]
            if c.get("k") == "LetExpr" and c["pat"].get("variant") == "Some":
                pp = place_path(c["init"])
                if pp and pp in known:
                    out.add(id(node))
            rec(c, known)
            # only a top-level conjunction establishes facts for the then-branch
            est = set()
            conj = [c]
            while conj:
                x = conj.pop()
                if x.get("k") == "Binary" and x.get("op") == "&&":
                    conj += [x["a"], x["b"]]
                else:
                    est |= established(x) if x.get("k") in ("Unary", "MethodCall") else set()
            rec(node["then"], known | est)
            if "else" in node:
                rec(node["else"], known)
            return
        for v in node.values():
            if isinstance(v, (dict, list)):
                rec(v, known)

    rec(root, set())
    return out



def variant_case(F, fn, subject_hids, adt, variant):
    """Callbacks (decide_if, select_arms) that prune path enumeration of `fn` under the assumption that the locals in
    `subject_hids` (e.g. the `op` parameter and its re-borrows) hold enum variant `variant` of `adt`.
    Understood condition forms: `matches!(x, P)`, `match x {P => true, _ => false}`, `if let P = x`, `!c`, `a && b`, `a || b`,
    bool locals initialised from such tests, and local predicate functions `p(x)` whose body is such a test."""
    from .facts import walk, peel, pat_variants

    def subj(e):
        e = peel(e)
        while isinstance(e, dict) and e.get("k") in ("MethodCall",) and e.get("method") in ("clone", "borrow", "as_ref"):
            e = peel(e["recv"])
        return isinstance(e, dict) and e.get("k") == "Path" and e.get("res", {}).get("hid") in subject_hids

    def pat_has(p):
        vs, wild = pat_variants(p)
        if any(a == adt and v == variant for a, v in vs):
            return True
        if wild:
            return True
        return False

    def select_arms(m):
        if not subj(m.get("scrut") or {}):
            return None
        for i, arm in enumerate(m["arms"]):
            if pat_has(arm["pat"]) and "guard" not in arm:
                return [i]
            if pat_has(arm["pat"]) and "guard" in arm:
                # guarded arm: may or may not be taken — keep it and continue to later arms
                rest = [j for j in range(i + 1, len(m["arms"])) if pat_has(m["arms"][j]["pat"])]
                return [i] + rest[:1]
        return []

    bool_locals = {}

    def val(c, depth=0):
        """True / False / None"""
        c = peel(c)
        if not isinstance(c, dict) or depth > 6:
            return None
        k = c.get("k")
        if k == "Lit":
            return True if c.get("lit") == "Bool(true)" else (False if c.get("lit") == "Bool(false)" else None)
        if k == "Unary" and c.get("op") == "!":
            v = val(c["a"], depth + 1)
            return None if v is None else (not v)
        if k == "Binary" and c.get("op") in ("&&", "||"):
            a, b = val(c["a"], depth + 1), val(c["b"], depth + 1)
            if c["op"] == "&&":
                if a is False or b is False:
                    return False
                return True if (a is True and b is True) else None
            if a is True or b is True:
                return True
            return False if (a is False and b is False) else None
        if k == "Match" and subj(c.get("scrut") or {}):
            sel = select_arms(c)
            if sel and len(sel) == 1:
                return val(c["arms"][sel[0]]["body"], depth + 1)
            return None
        if k == "LetExpr" and subj(c.get("init") or {}):
            vs, wild = pat_variants(c["pat"])
            return True if (wild or any(a == adt and v == variant for a, v in vs)) else False
        if k == "Block" and not c.get("stmts") and c.get("expr") is not None:
            return val(c["expr"], depth + 1)
        if k == "DropTemps":
            return val(c.get("e") or c.get("a") or {}, depth + 1)
        if k == "Path" and c.get("res", {}).get("hid") in bool_locals:
            return bool_locals[c["res"]["hid"]]
        if k in ("Call", "MethodCall"):
            callee = c.get("inst") or c.get("callee")
            t = F.by_path.get(callee or "")
            args = ([c["recv"]] if k == "MethodCall" else []) + list(c.get("args", []))
            if t and len(t) == 1 and t[0].get("body") is not None and any(subj(a_) for a_ in args):
                # local predicate p(.., x, ..): evaluate its body with the corresponding parameter as subject
                g = t[0]
                phids = set()
                for pm, a_ in zip(g.get("params", []), args):
                    if subj(a_) and pm["pat"].get("k") == "Binding":
                        phids.add(pm["pat"]["hid"])
                if phids:
                    d2, s2, v2 = variant_case(F, g, phids, adt, variant)
                    tail = g["body"]
                    return v2(tail)
        return None

    # bool locals initialised from decidable tests
    changed = True
    while changed:
        changed = False
        for st in walk(fn["body"]):
            if st.get("k") == "Let" and st["pat"].get("k") == "Binding" and st["pat"].get("ty") == "bool" and "init" in st and st["pat"]["hid"] not in bool_locals:
                v = val(st["init"])
                if v is not None:
                    bool_locals[st["pat"]["hid"]] = v
                    changed = True

    def decide_if(n):
        return val(n["cond"])

    return decide_if, select_arms, val


def int_eq_case(subject_hids, value, holds):
    """decide_if callback that prunes path enumeration under the assumption that the integer locals in `subject_hids`
    are equal to `value` (holds=True) or different from it (holds=False).  Understood: `x == L`, `x != L`, `L == x`, `!c`,
    `a && b`, `a || b` (three-valued)."""
    from .facts import peel, lit_int

    def atom(c):
        a, b = peel(c["a"]), peel(c["b"])
        for x, y in ((a, b), (b, a)):
            if x.get("k") == "Path" and x.get("res", {}).get("hid") in subject_hids and y.get("k") == "Lit":
                v = lit_int(y.get("lit"))
                if v is None:
                    return None
                if v == value:
                    return holds
                return False if holds else None      # x == value ⇒ x != other literal; x != value says nothing about others
        return None

    def val(c):
        c = peel(c)
        k = c.get("k")
        if k == "Unary" and c.get("op") == "!":
            v = val(c["a"])
            return None if v is None else (not v)
        if k == "Binary" and c.get("op") == "&&":
            a, b = val(c["a"]), val(c["b"])
            if a is False or b is False:
                return False
            return True if (a is True and b is True) else None
        if k == "Binary" and c.get("op") == "||":
            a, b = val(c["a"]), val(c["b"])
            if a is True or b is True:
                return True
            return False if (a is False and b is False) else None
        if k == "Binary" and c.get("op") == "==":
            return atom(c)
        if k == "Binary" and c.get("op") == "!=":
            v = atom(c)
            return None if v is None else (not v)
        if k == "Block" and not c.get("stmts") and c.get("expr") is not None:
            return val(c["expr"])
        return None

    def decide_if(n):
        return val(n["cond"])
    return decide_if, val

