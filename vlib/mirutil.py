"""CFG / dominance / call-graph helpers over the MIR facts."""
from collections import defaultdict


def succs(block, include_unwind=False):
    t = block["term"]
    k = t["k"]
    out = []
    if k == "Goto":
        out.append(t["t"])
    elif k == "SwitchInt":
        out.extend(b for _, b in t["targets"])
        out.append(t["otherwise"])
    elif k in ("Drop", "Assert"):
        out.append(t["t"])
        if include_unwind and t.get("unwind") is not None:
            out.append(t["unwind"])
    elif k == "Call":
        if t.get("t") is not None:
            out.append(t["t"])
        if include_unwind and t.get("unwind") is not None:
            out.append(t["unwind"])
    return out


class Cfg:
    def __init__(self, mir, include_unwind=False):
        self.mir = mir
        self.blocks = mir["blocks"]
        self.n = len(self.blocks)
        self.succ = [succs(b, include_unwind) for b in self.blocks]
        self.pred = [[] for _ in range(self.n)]
        for i, ss in enumerate(self.succ):
            for s in ss:
                self.pred[s].append(i)
        self._dom = None
        self._pdom = None
        self._reach = None

    def reachable(self):
        if self._reach is None:
            seen = {0}
            st = [0]
            while st:
                b = st.pop()
                for s in self.succ[b]:
                    if s not in seen:
                        seen.add(s)
                        st.append(s)
            self._reach = seen
        return self._reach

    def _idom(self, entry_nodes, succ, pred):
        # iterative dataflow dominators (sets); graphs are small
        nodes = list(range(self.n))
        reach = set()
        st = list(entry_nodes)
        reach.update(st)
        while st:
            b = st.pop()
            for s in succ[b]:
                if s not in reach:
                    reach.add(s)
                    st.append(s)
        dom = {}
        allset = frozenset(reach)
        for b in reach:
            dom[b] = allset
        for e in entry_nodes:
            dom[e] = frozenset([e])
        changed = True
        order = sorted(reach)
        while changed:
            changed = False
            for b in order:
                if b in entry_nodes:
                    continue
                ps = [p for p in pred[b] if p in reach]
                if not ps:
                    new = frozenset([b])
                else:
                    it = iter(ps)
                    acc = set(dom[next(it)])
                    for p in it:
                        acc &= dom[p]
                    acc.add(b)
                    new = frozenset(acc)
                if new != dom[b]:
                    dom[b] = new
                    changed = True
        return dom

    def dominators(self):
        if self._dom is None:
            self._dom = self._idom([0], self.succ, self.pred)
        return self._dom

    def dominates(self, a, b):
        """block a dominates block b"""
        d = self.dominators()
        return b in d and a in d[b]

    def postdominators(self):
        """Post-dominators w.r.t. normal exits (Return blocks)."""
        if self._pdom is None:
            exits = [i for i, b in enumerate(self.blocks) if b["term"]["k"] == "Return"]
            self._pdom = self._idom(exits, self.pred, self.succ)
        return self._pdom

    def postdominates(self, a, b):
        d = self.postdominators()
        return b in d and a in d[b]

    def reaches(self, a, b, avoid=()):
        """Is there a path a ->+ b (at least one edge) not passing through `avoid` blocks?"""
        seen = set()
        st = list(self.succ[a])
        while st:
            x = st.pop()
            if x in seen or x in avoid:
                continue
            if x == b:
                return True
            seen.add(x)
            st.extend(self.succ[x])
        return False


def calls(mir):
    """Yield (block_index, terminator) for Call terminators."""
    for i, b in enumerate(mir["blocks"]):
        if b["term"]["k"] == "Call":
            yield i, b["term"]


def callee_name(t):
    return t.get("inst") or t.get("callee") or ""


def place_str(p):
    return "_%d%s" % (p["l"], "".join(p["p"]))


def operand_place(o):
    if "copy" in o:
        return o["copy"]
    if "move" in o:
        return o["move"]
    return None


def local_names(mir):
    m = {}
    for name, p in mir.get("names", []):
        if not p["p"]:
            m[p["l"]] = name
    return m


def build_callgraph(F):
    """path -> set(callee paths), resolved instance when available. Closures are
    attributed to themselves, plus an edge parent -> closure."""
    g = defaultdict(set)
    for f in getattr(F, "all_fns", F.fns):
        mir = f.get("mir")
        if not mir:
            continue
        for _, t in calls(mir):
            g[f["path"]].add(callee_name(t))
        if f["kind"] == "Closure":
            g[f["parent"]].add(f["path"])
        # closures referenced via aggregates are covered by the parent edge above
    return g


def reachable_fns(F, roots, graph=None):
    g = graph or build_callgraph(F)
    seen = set()
    parent = {}
    st = list(roots)
    for r in roots:
        parent[r] = None
    while st:
        x = st.pop()
        if x in seen:
            continue
        seen.add(x)
        for c in g.get(x, ()):
            if c not in seen and c in F.by_path:
                if c not in parent:
                    parent[c] = x
                st.append(c)
    return seen, parent


def call_path(parent, node):
    out = []
    while node is not None:
        out.append(node)
        node = parent.get(node)
    return list(reversed(out))
