#!/usr/bin/env python3
"""check.py <Cxx> [--tier quick|thorough] [--replay file]

Decides the structural clauses claimed for property Cxx (see DESIGN.md §4)
from /repo's current source.  Exit 0: clauses hold (known findings are printed
as KNOWN-FINDING lines).  Exit 1: an unlisted violation (VIOLATION line).
Exit 2: checker error (missing anchor, count below floor, extractor failure).
"""
import argparse
import importlib
import json
import os
import sys
import time
import traceback

VERIF = os.path.dirname(os.path.abspath(__file__))
sys.path.insert(0, VERIF)

from vlib import facts as factsmod  # noqa: E402
from vlib import report  # noqa: E402
from vlib.facts import CheckError  # noqa: E402
import props  # noqa: E402


def run_rules(prop, F, tier):
    spec = props.PROPS[prop]
    results = []
    cache = F.__dict__.setdefault("_rule_cache", {})      # several properties share rules: evaluate each once per fact set
    for modname, fn, kwargs in spec["rules"]:
        mod = importlib.import_module("rules." + modname)
        ck = (modname, fn, repr(sorted(kwargs.items())))
        if ck in cache:
            if isinstance(cache[ck], BaseException):
                raise cache[ck]
            r = cache[ck]
        else:
            try:
                r = getattr(mod, fn)(F, **kwargs)
            except CheckError as e:
                # this rule cannot judge the tree (anchor gone, shape it refuses to guess about): the other rules still run; the
                # property's verdict is VIOLATION if any of them found one, otherwise ERROR (fail closed)
                from vlib.report import RuleResult
                r = RuleResult("%s.%s" % (modname, fn), "rule could not be evaluated")
                r.error = str(e)
            except factsmod.AnchorInlined as e:
                # the function this rule is about was inlined into its caller: the clause is not decided (no alarm, no proof)
                from vlib.report import RuleResult
                r = RuleResult("%s.%s" % (modname, fn), "anchor function inlined away: clause not decided on this tree")
                r.undecided(str(e))
            except BaseException as e:
                cache[ck] = e
                raise
            cache[ck] = r
        if isinstance(r, list):
            results.extend(r)
        else:
            results.append(r)
    return results


def closed_failures(prop, results):
    """reasons to fail closed: rules that could not be evaluated, counts below their floors (a violation found by another
    rule takes precedence over these: see main)"""
    out = [("%s: %s" % (r.rule, r.error)) for r in results if getattr(r, "error", None)]
    fl = report.floors()
    for r in results:
        if getattr(r, "error", None):
            continue
        for name, n in r.counts.items():
            key = "%s:%s.%s" % (prop, r.rule, name)
            if key in fl and n < fl[key]:
                out.append("count below floor: %s = %d < %d" % (key, n, fl[key]))
        key = "%s:%s.#obligations" % (prop, r.rule)
        if key in fl and r.obligations < fl[key]:
            out.append("obligations below floor: %s = %d < %d" % (key, r.obligations, fl[key]))
    return out


def main():
    ap = argparse.ArgumentParser()
    ap.add_argument("prop")
    ap.add_argument("--tier", default=os.environ.get("VERIF_TIER", "quick"))
    ap.add_argument("--replay")
    ap.add_argument("--repo", default=None, help="analyse this tree instead of /repo (self-test only)")
    ap.add_argument("--no-evidence", action="store_true")
    args = ap.parse_args()
    prop = args.prop
    tier = args.tier if args.tier in ("quick", "thorough") else "quick"
    seed = int(os.environ.get("VERIF_SEED", "0") or 0)
    t0 = time.time()
    if prop not in props.PROPS:
        print("ERROR unknown or unclaimed property %s" % prop)
        return 2
    try:
        F = factsmod.load(args.repo)
        results = run_rules(prop, F, tier)
        extra_cov = {}
        if tier == "thorough":
            import selftest
            st = selftest.run_for_property(prop)
            extra_cov["selftest"] = st
            if st.get("failed"):
                raise CheckError("rule self-test failed: %s" % st["failed"][:5])
        deferred = closed_failures(prop, results)
    except CheckError as e:
        print("ERROR property=%s %s" % (prop, e))
        return 2
    except Exception:
        traceback.print_exc()
        print("ERROR property=%s internal checker error" % prop)
        return 2

    known = [k for k in report.known_findings() if k.get("status", "open") == "open"]
    known_keys = {}
    for k in known:
        known_keys[k["key"]] = k
    viols = []
    matched = []
    for r in results:
        for v in r.violations:
            kf = known_keys.get(v.full_key())
            if kf is not None and prop in kf.get("properties", [prop]):
                matched.append((v, kf))
            else:
                viols.append(v)
    if deferred and not viols:
        # nothing contradicts the property, but a rule could not be evaluated or saw fewer instances than confirmed by
        # hand: fail closed
        print("ERROR property=%s %s" % (prop, deferred[0]))
        return 2
    # replay: restrict to one key
    if args.replay:
        want = json.load(open(args.replay)).get("keys", [])
        viols = [v for v in viols if v.full_key() in want]

    for r in results:
        print("[%s] %s: analysed=%d obligations=%d discharged=%d %s" % (
            prop, r.rule, len(r.analysed), r.obligations, r.discharged,
            " ".join("%s=%s" % kv for kv in sorted(r.counts.items()))))
    seen_kf = set()
    for v, kf in matched:
        if v.full_key() in seen_kf:
            continue
        seen_kf.add(v.full_key())
        print("KNOWN-FINDING: property=%s %s — %s (%s)" % (prop, v.full_key(), kf.get("what", v.msg), v.where))
    # a known finding counts as a discharged obligation only in the sense that it is triaged
    wall = time.time() - t0
    level = props.PROPS[prop]["level"]
    if not args.no_evidence and not args.repo:
        report.write_evidence(prop, tier, seed, level, results, wall, len(viols), len(seen_kf),
                              extra_assumptions=props.PROPS[prop].get("assumptions", ()),
                              extra_cov=extra_cov if tier == "thorough" else None)
    if viols:
        replay = os.path.join(VERIF, "evidence", "%s.replay.json" % prop)
        if not args.repo:
            with open(replay, "w") as fh:
                json.dump({"property": prop, "keys": [v.full_key() for v in viols],
                           "violations": [v.to_json() for v in viols]}, fh, indent=1)
        for v in viols[:25]:
            print("  violation: %s @ %s: %s" % (v.full_key(), v.where, v.msg))
        if len(viols) > 25:
            print("  ... and %d more (see %s)" % (len(viols) - 25, replay))
        print("VIOLATION property=%s replay=%s" % (prop, replay))
        return 1
    stale = os.path.join(VERIF, "evidence", "%s.replay.json" % prop)
    if not args.repo and not args.no_evidence and not args.replay and os.path.exists(stale):
        os.remove(stale)  # a replay file describes violations of the last failing run only
    print("OK property=%s rules=%d obligations=%d known_findings=%d wall=%.1fs" % (
        prop, len(results), sum(r.obligations for r in results), len(seen_kf), wall))
    return 0


if __name__ == "__main__":
    sys.exit(main())
