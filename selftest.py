"""Rule self-test (thorough tier): apply each mutant patch under /verif/mutants/<Cxx>/ to a scratch
copy of /repo, re-extract facts, and require the property's check to report a violation that names the
mutated instance; neutral patches must produce no new report.  Source variants are analysed, never run."""
import json
import os
import shutil
import subprocess
import sys
import tempfile

VERIF = os.path.dirname(os.path.abspath(__file__))


def _mutants_for(prop):
    d = os.path.join(VERIF, "mutants")
    out = []
    if not os.path.isdir(d):
        return out
    for name in sorted(os.listdir(d)):
        meta = os.path.join(d, name, "meta.json")
        if os.path.exists(meta):
            m = json.load(open(meta))
            if prop in m.get("properties", []):
                out.append((name, m))
    return out


def _seeded_for(prop):
    """independently written, confirmed changes (see /verif/seeded/*/meta.json) that this property's check is recorded to catch"""
    d = os.path.join(VERIF, "seeded")
    out = []
    if not os.path.isdir(d):
        return out
    for name in sorted(os.listdir(d)):
        meta = os.path.join(d, name, "meta.json")
        if os.path.exists(meta):
            m = json.load(open(meta))
            fires = (m.get("detection") or {}).get("checks_that_fire") or {}
            if prop in fires:
                out.append((name, {"expect": "violation", "must_mention": [], "dir": os.path.join(d, name)}))
    return out


def run_mutant(prop, name, meta):
    """returns (ok, detail)"""
    src = os.environ.get("ORCA_REPO", "/repo")
    tmp = tempfile.mkdtemp(prefix="orca-verif-mut-")
    try:
        dst = os.path.join(tmp, "repo")
        shutil.copytree(src, dst, ignore=shutil.ignore_patterns("target", ".git", "output"))
        patch = os.path.join(meta.get("dir") or os.path.join(VERIF, "mutants", name), "patch.diff")
        p = subprocess.run(["patch", "-p1", "-s", "-i", patch], cwd=dst, stdout=subprocess.PIPE, stderr=subprocess.STDOUT, text=True)
        if p.returncode != 0:
            return False, "patch does not apply: " + p.stdout[-300:]
        env = dict(os.environ, ORCA_REPO=dst, ORCA_ANALYSED_REPO=dst)
        q = subprocess.run([sys.executable, os.path.join(VERIF, "check.py"), prop, "--repo", dst, "--no-evidence"],
                           env=env, stdout=subprocess.PIPE, stderr=subprocess.STDOUT, text=True)
        out = q.stdout
        expect = meta.get("expect", "violation")
        if expect == "violation":
            ok = q.returncode == 1 and all(s in out for s in meta.get("must_mention", []))
        else:
            ok = q.returncode == 0
        return ok, "rc=%d %s" % (q.returncode, [l for l in out.splitlines() if "violation:" in l][:2])
    finally:
        shutil.rmtree(tmp, ignore_errors=True)


def run_for_property(prop):
    import concurrent.futures
    res = {"mutants": 0, "caught": 0, "failed": [], "must_fire": 0, "must_stay_silent": 0}
    jobs = _mutants_for(prop) + _seeded_for(prop)
    workers = max(1, min(int(os.environ.get("VERIF_SELFTEST_JOBS", "8")), os.cpu_count() or 1))
    with concurrent.futures.ThreadPoolExecutor(workers) as ex:
        futs = {ex.submit(run_mutant, prop, name, meta): (name, meta) for name, meta in jobs}
        for fu in concurrent.futures.as_completed(futs):
            name, meta = futs[fu]
            res["mutants"] += 1
            res["must_fire" if meta.get("expect", "violation") == "violation" else "must_stay_silent"] += 1
            ok, detail = fu.result()
            if ok:
                res["caught"] += 1
            else:
                res["failed"].append("%s: %s" % (name, detail))
    res["failed"].sort()
    return res


if __name__ == "__main__":
    print(json.dumps(run_for_property(sys.argv[1]), indent=1))
