//! MIR (mir-opt-level=0) → JSON.

use crate::json::*;
use crate::{def_path, expn_j, span_j, ty_str};
use rustc_hir::def::DefKind;
use rustc_hir::def_id::LocalDefId;
use rustc_middle::mir::{
    AggregateKind, AssertKind, Body, Const, Operand, Place, PlaceElem, Rvalue, StatementKind,
    TerminatorKind, UnwindAction,
};
use rustc_middle::ty::{self, TyCtxt};

fn place_j<'tcx>(tcx: TyCtxt<'tcx>, body: &Body<'tcx>, p: &Place<'tcx>) -> J {
    let mut proj = vec![];
    let mut pty = rustc_middle::mir::PlaceTy::from_ty(body.local_decls[p.local].ty);
    for elem in p.projection.iter() {
        let st = match elem {
            PlaceElem::Deref => "*".to_string(),
            PlaceElem::Field(f, _) => {
                // resolve field name through the current place type
                let name = match pty.ty.kind() {
                    ty::Adt(adt, _) => {
                        let vidx = pty.variant_index.unwrap_or(rustc_abi::FIRST_VARIANT);
                        adt.variants()
                            .get(vidx)
                            .and_then(|v| v.fields.get(f))
                            .map(|fd| fd.name.to_string())
                    }
                    _ => None,
                };
                match name {
                    Some(n) => format!(".{}", n),
                    None => format!(".{}", f.as_u32()),
                }
            }
            PlaceElem::Index(l) => format!("[_{}]", l.as_u32()),
            PlaceElem::ConstantIndex { offset, from_end, .. } => {
                format!("[{}{}]", if from_end { "-" } else { "" }, offset)
            }
            PlaceElem::Subslice { from, to, .. } => format!("[{}..{}]", from, to),
            PlaceElem::Downcast(name, _) => {
                format!("as {}", name.map(|n| n.to_string()).unwrap_or_default())
            }
            PlaceElem::OpaqueCast(_) => "opaque".to_string(),
            PlaceElem::UnwrapUnsafeBinder(_) => "unwrap_binder".to_string(),
        };
        proj.push(s(st));
        pty = pty.projection_ty(tcx, elem);
    }
    J::Obj(vec![("l", i(p.local.as_u32())), ("p", arr(proj))])
}

fn const_j<'tcx>(tcx: TyCtxt<'tcx>, body: &Body<'tcx>, c: &Const<'tcx>) -> J {
    let t = c.ty();
    let mut v = vec![("ty", s(ty_str(t)))];
    if let ty::FnDef(did, _) = t.kind() {
        v.push(("fn", s(def_path(tcx, *did))));
    }
    // scalar value if cheaply available
    let mut have = false;
    if let Const::Val(rustc_middle::mir::ConstValue::Scalar(sc), _) = c {
        if let rustc_middle::mir::interpret::Scalar::Int(int) = sc {
            v.push(("val", s(format!("{}", int.to_bits_unchecked()))));
            have = true;
        }
    }
    if !have && (t.is_integral() || t.is_bool() || t.is_char()) {
        if let Const::Ty(..) = c {
            let env = ty::TypingEnv::post_analysis(tcx, body.source.def_id());
            if let Some(int) = c.try_eval_scalar_int(tcx, env) {
                v.push(("val", s(format!("{}", int.to_bits_unchecked()))));
            }
        }
    }
    if let Const::Unevaluated(u, _) = c {
        v.push(("uneval", s(def_path(tcx, u.def))));
    }
    J::Obj(v)
}

fn operand_j<'tcx>(tcx: TyCtxt<'tcx>, body: &Body<'tcx>, o: &Operand<'tcx>) -> J {
    match o {
        Operand::Copy(p) => J::Obj(vec![("copy", place_j(tcx, body, p))]),
        Operand::Move(p) => J::Obj(vec![("move", place_j(tcx, body, p))]),
        Operand::Constant(c) => J::Obj(vec![("const", const_j(tcx, body, &c.const_))]),
        _ => J::Obj(vec![("other", s("runtime_checks"))]),
    }
}

fn rvalue_j<'tcx>(tcx: TyCtxt<'tcx>, body: &Body<'tcx>, rv: &Rvalue<'tcx>) -> J {
    match rv {
        Rvalue::Use(o, _) => J::Obj(vec![("k", s("Use")), ("op", operand_j(tcx, body, o))]),
        Rvalue::Repeat(o, _) => J::Obj(vec![("k", s("Repeat")), ("op", operand_j(tcx, body, o))]),
        Rvalue::Ref(_, bk, p) => J::Obj(vec![
            ("k", s("Ref")),
            ("mut", J::Bool(matches!(bk, rustc_middle::mir::BorrowKind::Mut { .. }))),
            ("place", place_j(tcx, body, p)),
        ]),
        Rvalue::RawPtr(_, p) => J::Obj(vec![("k", s("RawPtr")), ("place", place_j(tcx, body, p))]),
        Rvalue::Cast(kind, o, t) => J::Obj(vec![
            ("k", s("Cast")),
            ("kind", s(format!("{:?}", kind))),
            ("op", operand_j(tcx, body, o)),
            ("ty", s(ty_str(*t))),
        ]),
        Rvalue::BinaryOp(op, ab) => J::Obj(vec![
            ("k", s("BinaryOp")),
            ("op", s(format!("{:?}", op))),
            ("a", operand_j(tcx, body, &ab.0)),
            ("b", operand_j(tcx, body, &ab.1)),
        ]),
        Rvalue::UnaryOp(op, a) => J::Obj(vec![
            ("k", s("UnaryOp")),
            ("op", s(format!("{:?}", op))),
            ("a", operand_j(tcx, body, a)),
        ]),
        Rvalue::Discriminant(p) => {
            J::Obj(vec![("k", s("Discriminant")), ("place", place_j(tcx, body, p))])
        }
        Rvalue::Aggregate(kind, ops) => {
            let mut v = vec![("k", s("Aggregate"))];
            match &**kind {
                AggregateKind::Array(_) => v.push(("agg", s("array"))),
                AggregateKind::Tuple => v.push(("agg", s("tuple"))),
                AggregateKind::Adt(did, vidx, _, _, _) => {
                    v.push(("agg", s("adt")));
                    v.push(("adt", s(def_path(tcx, *did))));
                    let adt = tcx.adt_def(*did);
                    let var = adt.variant(*vidx);
                    v.push(("variant", s(var.name.to_string())));
                    v.push((
                        "fields",
                        arr(var.fields.iter().map(|f| s(f.name.to_string()))),
                    ));
                }
                AggregateKind::Closure(did, _) => {
                    v.push(("agg", s("closure")));
                    v.push(("def", s(def_path(tcx, *did))));
                }
                _ => v.push(("agg", s("other"))),
            }
            v.push(("ops", arr(ops.iter().map(|o| operand_j(tcx, body, o)))));
            J::Obj(v)
        }
        Rvalue::CopyForDeref(p) => {
            J::Obj(vec![("k", s("CopyForDeref")), ("place", place_j(tcx, body, p))])
        }
        Rvalue::ThreadLocalRef(d) => {
            J::Obj(vec![("k", s("ThreadLocalRef")), ("def", s(def_path(tcx, *d)))])
        }
        _ => J::Obj(vec![("k", s("Other")), ("dbg", s(format!("{:?}", rv)))]),
    }
}

fn unwind_j(u: &UnwindAction) -> J {
    match u {
        UnwindAction::Cleanup(bb) => i(bb.as_u32()),
        _ => J::Null,
    }
}

pub fn mir_j<'tcx>(tcx: TyCtxt<'tcx>, ldid: LocalDefId) -> J {
    let did = ldid.to_def_id();
    if !tcx.is_mir_available(did) {
        return J::Null;
    }
    match tcx.def_kind(did) {
        DefKind::Fn | DefKind::AssocFn | DefKind::Closure => {}
        _ => return J::Null,
    }
    let body: &Body<'tcx> = tcx.optimized_mir(did);
    let env = ty::TypingEnv::post_analysis(tcx, did);

    let mut locals = vec![];
    for (_l, decl) in body.local_decls.iter_enumerated() {
        locals.push(s(ty_str(decl.ty)));
    }
    let mut names = vec![];
    for vdi in body.var_debug_info.iter() {
        if let rustc_middle::mir::VarDebugInfoContents::Place(p) = &vdi.value {
            names.push(arr([s(vdi.name.to_string()), place_j(tcx, body, p)]));
        }
    }

    let mut blocks = vec![];
    for (_bb, data) in body.basic_blocks.iter_enumerated() {
        let mut stmts = vec![];
        for st in data.statements.iter() {
            match &st.kind {
                StatementKind::Assign(b) => {
                    let (p, rv) = &**b;
                    let mut v = vec![
                        ("k", s("Assign")),
                        ("place", place_j(tcx, body, p)),
                        ("rv", rvalue_j(tcx, body, rv)),
                        ("sp", span_j(tcx, st.source_info.span)),
                    ];
                    if st.source_info.span.from_expansion() {
                        v.push(("exp", expn_j(st.source_info.span)));
                    }
                    stmts.push(J::Obj(v));
                }
                StatementKind::SetDiscriminant { place, variant_index } => {
                    stmts.push(J::Obj(vec![
                        ("k", s("SetDiscriminant")),
                        ("place", place_j(tcx, body, place)),
                        ("variant", i(variant_index.as_u32())),
                    ]));
                }
                _ => {}
            }
        }
        let term = data.terminator();
        let tsp = term.source_info.span;
        let mut tv: Vec<(&'static str, J)> = vec![];
        match &term.kind {
            TerminatorKind::Goto { target } => {
                tv.push(("k", s("Goto")));
                tv.push(("t", i(target.as_u32())));
            }
            TerminatorKind::SwitchInt { discr, targets } => {
                tv.push(("k", s("SwitchInt")));
                tv.push(("discr", operand_j(tcx, body, discr)));
                let mut ts = vec![];
                for (val, bb) in targets.iter() {
                    ts.push(arr([s(val.to_string()), i(bb.as_u32())]));
                }
                tv.push(("targets", arr(ts)));
                tv.push(("otherwise", i(targets.otherwise().as_u32())));
            }
            TerminatorKind::UnwindResume => tv.push(("k", s("UnwindResume"))),
            TerminatorKind::UnwindTerminate(_) => tv.push(("k", s("UnwindTerminate"))),
            TerminatorKind::Return => tv.push(("k", s("Return"))),
            TerminatorKind::Unreachable => tv.push(("k", s("Unreachable"))),
            TerminatorKind::Drop { place, target, unwind, .. } => {
                tv.push(("k", s("Drop")));
                tv.push(("place", place_j(tcx, body, place)));
                tv.push(("t", i(target.as_u32())));
                tv.push(("unwind", unwind_j(unwind)));
            }
            TerminatorKind::Call { func, args, destination, target, unwind, fn_span, .. } => {
                tv.push(("k", s("Call")));
                tv.push(("func", operand_j(tcx, body, func)));
                // resolve the callee
                let fty = func.ty(&body.local_decls, tcx);
                if let ty::FnDef(cdid, cargs) = fty.kind() {
                    tv.push(("callee", s(def_path(tcx, *cdid))));
                    tv.push(("callee_args", s(format!("{:?}", cargs))));
                    let r = std::panic::catch_unwind(std::panic::AssertUnwindSafe(|| {
                        ty::Instance::try_resolve(tcx, env, *cdid, cargs)
                    }));
                    if let Ok(Ok(Some(inst))) = r {
                        tv.push(("inst", s(def_path(tcx, inst.def_id()))));
                        if let ty::InstanceKind::Virtual(..) = inst.def {
                            tv.push(("virtual", J::Bool(true)));
                        }
                    }
                } else {
                    tv.push(("callee_ty", s(ty_str(fty))));
                }
                tv.push(("args", arr(args.iter().map(|a| operand_j(tcx, body, &a.node)))));
                tv.push(("dest", place_j(tcx, body, destination)));
                tv.push(("t", opt(target.map(|t| i(t.as_u32())))));
                tv.push(("unwind", unwind_j(unwind)));
                tv.push(("fn_sp", span_j(tcx, *fn_span)));
            }
            TerminatorKind::TailCall { .. } => tv.push(("k", s("TailCall"))),
            TerminatorKind::Assert { cond, expected, msg, target, unwind } => {
                tv.push(("k", s("Assert")));
                tv.push(("cond", operand_j(tcx, body, cond)));
                tv.push(("expected", J::Bool(*expected)));
                let (mk, ops): (&str, Vec<J>) = match &**msg {
                    AssertKind::BoundsCheck { len, index } => (
                        "BoundsCheck",
                        vec![operand_j(tcx, body, len), operand_j(tcx, body, index)],
                    ),
                    AssertKind::Overflow(op, a, b) => (
                        match op {
                            rustc_middle::mir::BinOp::Add => "Overflow(Add)",
                            rustc_middle::mir::BinOp::Sub => "Overflow(Sub)",
                            rustc_middle::mir::BinOp::Mul => "Overflow(Mul)",
                            rustc_middle::mir::BinOp::Shl => "Overflow(Shl)",
                            rustc_middle::mir::BinOp::Shr => "Overflow(Shr)",
                            _ => "Overflow(Other)",
                        },
                        vec![operand_j(tcx, body, a), operand_j(tcx, body, b)],
                    ),
                    AssertKind::OverflowNeg(a) => ("OverflowNeg", vec![operand_j(tcx, body, a)]),
                    AssertKind::DivisionByZero(a) => {
                        ("DivisionByZero", vec![operand_j(tcx, body, a)])
                    }
                    AssertKind::RemainderByZero(a) => {
                        ("RemainderByZero", vec![operand_j(tcx, body, a)])
                    }
                    AssertKind::MisalignedPointerDereference { .. } => ("Misaligned", vec![]),
                    AssertKind::NullPointerDereference => ("NullDeref", vec![]),
                    _ => ("Other", vec![]),
                };
                tv.push(("msg", s(mk)));
                tv.push(("ops", arr(ops)));
                tv.push(("t", i(target.as_u32())));
                tv.push(("unwind", unwind_j(unwind)));
            }
            TerminatorKind::FalseEdge { real_target, .. } => {
                tv.push(("k", s("Goto")));
                tv.push(("t", i(real_target.as_u32())));
            }
            TerminatorKind::FalseUnwind { real_target, .. } => {
                tv.push(("k", s("Goto")));
                tv.push(("t", i(real_target.as_u32())));
            }
            other => {
                tv.push(("k", s("Other")));
                tv.push(("dbg", s(format!("{:?}", other))));
            }
        }
        tv.push(("sp", span_j(tcx, tsp)));
        if tsp.from_expansion() {
            tv.push(("exp", expn_j(tsp)));
            tv.push(("csp", span_j(tcx, crate::callsite_span(tsp))));
        }
        blocks.push(J::Obj(vec![
            ("stmts", arr(stmts)),
            ("term", J::Obj(tv)),
            ("cleanup", J::Bool(data.is_cleanup)),
        ]));
    }
    J::Obj(vec![
        ("argc", i(body.arg_count)),
        ("locals", arr(locals)),
        ("names", arr(names)),
        ("blocks", arr(blocks)),
    ])
}
