//! orca-facts: a rustc_private driver that dumps the type-checked HIR, the MIR
//! (mir-opt-level=0) and the ADT definitions of the crate under analysis as
//! one JSON fact file.  It emits facts only; every verdict lives in
//! /verif/rules/*.py.
//!
//! Invocation: used as RUSTC_WORKSPACE_WRAPPER (argv[1] is the real rustc and
//! is dropped).  Env:
//!   ORCA_FACTS_CRATE  crate name to dump (default "wirm")
//!   ORCA_FACTS_OUT    output path (required for dumping; otherwise no dump)
#![feature(rustc_private)]
#![allow(clippy::all)]

extern crate rustc_abi;
extern crate rustc_driver;
extern crate rustc_hir;
extern crate rustc_interface;
extern crate rustc_middle;
extern crate rustc_span;

mod hir_facts;
mod json;
mod mir_facts;

use json::*;
use rustc_driver::Compilation;
use rustc_hir::def::DefKind;
use rustc_hir::def_id::{DefId, LOCAL_CRATE};
use rustc_interface::interface::Compiler;
use rustc_middle::ty::{self, TyCtxt};
use rustc_span::Span;

struct Cb;

pub fn span_j(tcx: TyCtxt<'_>, sp: Span) -> J {
    let sm = tcx.sess.source_map();
    let lo = sm.lookup_char_pos(sp.lo());
    let hi = sm.lookup_char_pos(sp.hi());
    arr([
        i(lo.line),
        i(lo.col.0 + 1),
        i(hi.line),
        i(hi.col.0 + 1),
    ])
}

pub fn span_file(tcx: TyCtxt<'_>, sp: Span) -> String {
    let sm = tcx.sess.source_map();
    let lo = sm.lookup_char_pos(sp.lo());
    format!("{}", lo.file.name.prefer_local_unconditionally())
}

/// Name of the outermost macro / desugaring a span comes from, if any.
pub fn expn_j(sp: Span) -> J {
    if !sp.from_expansion() {
        return J::Null;
    }
    let mut names = vec![];
    let mut cur = sp;
    let mut guard = 0;
    while cur.from_expansion() && guard < 16 {
        let data = cur.ctxt().outer_expn_data();
        names.push(s(match data.kind {
            rustc_span::ExpnKind::Macro(_, name) => format!("{}", name),
            rustc_span::ExpnKind::Desugaring(k) => format!("desugar:{:?}", k),
            rustc_span::ExpnKind::AstPass(k) => format!("astpass:{:?}", k),
            rustc_span::ExpnKind::Root => "root".to_string(),
        }));
        cur = data.call_site;
        guard += 1;
    }
    arr(names)
}

/// The span of the outermost call site (where the user wrote the macro).
pub fn callsite_span(sp: Span) -> Span {
    let mut cur = sp;
    let mut guard = 0;
    while cur.from_expansion() && guard < 16 {
        cur = cur.ctxt().outer_expn_data().call_site;
        guard += 1;
    }
    cur
}

pub fn def_path(tcx: TyCtxt<'_>, did: DefId) -> String {
    ty::print::with_no_trimmed_paths!(tcx.def_path_str(did))
}

pub fn ty_str<'tcx>(t: ty::Ty<'tcx>) -> String {
    ty::print::with_no_trimmed_paths!(format!("{}", t))
}

fn adt_j<'tcx>(tcx: TyCtxt<'tcx>, did: DefId) -> J {
    let adt = tcx.adt_def(did);
    let kind = if adt.is_enum() {
        "enum"
    } else if adt.is_union() {
        "union"
    } else {
        "struct"
    };
    let mut variants = vec![];
    for v in adt.variants().iter() {
        let mut fields = vec![];
        for f in v.fields.iter() {
            let fty = tcx.type_of(f.did).instantiate_identity().skip_norm_wip();
            fields.push(J::Obj(vec![
                ("name", s(f.name.as_str())),
                ("ty", s(ty_str(fty))),
            ]));
        }
        variants.push(J::Obj(vec![
            ("name", s(v.name.as_str())),
            ("ctor", s(format!("{:?}", v.ctor_kind()))),
            ("fields", arr(fields)),
        ]));
    }
    J::Obj(vec![
        ("path", s(def_path(tcx, did))),
        ("krate", s(tcx.crate_name(did.krate).as_str())),
        ("kind", s(kind)),
        ("variants", arr(variants)),
    ])
}

fn collect_foreign_adts<'tcx>(tcx: TyCtxt<'tcx>, root: DefId, out: &mut Vec<J>, depth: usize, seen: &mut std::collections::HashSet<DefId>) {
    if depth > 6 {
        return;
    }
    for child in tcx.module_children(root) {
        if let Some(did) = child.res.opt_def_id() {
            if did.krate != root.krate {
                continue;
            }
            match tcx.def_kind(did) {
                DefKind::Enum | DefKind::Struct => {
                    if seen.insert(did) {
                        out.push(adt_j(tcx, did));
                    }
                }
                DefKind::Mod => {
                    if seen.insert(did) {
                        collect_foreign_adts(tcx, did, out, depth + 1, seen);
                    }
                }
                _ => {}
            }
        }
    }
}

impl rustc_driver::Callbacks for Cb {
    fn after_analysis<'tcx>(&mut self, _c: &Compiler, tcx: TyCtxt<'tcx>) -> Compilation {
        let want = std::env::var("ORCA_FACTS_CRATE").unwrap_or_else(|_| "wirm".to_string());
        let out_path = match std::env::var("ORCA_FACTS_OUT") {
            Ok(p) => p,
            Err(_) => return Compilation::Continue,
        };
        let name = tcx.crate_name(LOCAL_CRATE);
        if name.as_str() != want {
            return Compilation::Continue;
        }
        // Only dump for the library target (crate type rlib/lib), not for
        // integration tests of the same package.
        let mut adts = vec![];
        let mut seen = std::collections::HashSet::new();
        // local ADTs
        for id in tcx.hir_free_items() {
            let did = id.owner_id.to_def_id();
            match tcx.def_kind(did) {
                DefKind::Enum | DefKind::Struct => {
                    if seen.insert(did) {
                        adts.push(adt_j(tcx, did));
                    }
                }
                _ => {}
            }
        }
        // foreign ADTs of the crates the rules quantify over
        for &cnum in tcx.crates(()).iter() {
            let cname = tcx.crate_name(cnum);
            if matches!(cname.as_str(), "wasmparser" | "wasm_encoder") {
                collect_foreign_adts(tcx, cnum.as_def_id(), &mut adts, 0, &mut seen);
            }
        }

        let mut fns = vec![];
        for ldid in tcx.hir_body_owners() {
            let did = ldid.to_def_id();
            let kind = tcx.def_kind(did);
            match kind {
                DefKind::Fn | DefKind::AssocFn | DefKind::Closure => {}
                _ => continue,
            }
            fns.push(hir_facts::fn_j(tcx, ldid));
        }

        // impls: trait ↔ self type ↔ methods (for sibling rules)
        let mut impls = vec![];
        for id in tcx.hir_free_items() {
            let did = id.owner_id.to_def_id();
            if let DefKind::Impl { .. } = tcx.def_kind(did) {
                let self_ty = tcx.type_of(did).instantiate_identity().skip_norm_wip();
                let tr = tcx.impl_opt_trait_ref(did).map(|t| {
                    let t = t.instantiate_identity().skip_norm_wip();
                    def_path(tcx, t.def_id)
                });
                let items: Vec<J> = tcx
                    .associated_item_def_ids(did)
                    .iter()
                    .map(|d| s(def_path(tcx, *d)))
                    .collect();
                impls.push(J::Obj(vec![
                    ("self_ty", s(ty_str(self_ty))),
                    ("trait", opt(tr.map(s))),
                    ("items", arr(items)),
                    ("file", s(span_file(tcx, tcx.def_span(did)))),
                    ("sp", span_j(tcx, tcx.def_span(did))),
                ]));
            }
        }

        let doc = J::Obj(vec![
            ("crate", s(name.as_str())),
            ("nonce", s(std::env::var("ORCA_FACTS_NONCE").unwrap_or_default())),
            ("rustc", s(option_env!("CFG_VERSION").unwrap_or("nightly"))),
            ("adts", arr(adts)),
            ("impls", arr(impls)),
            ("fns", arr(fns)),
        ]);
        let mut text = String::with_capacity(64 << 20);
        doc.write(&mut text);
        let tmp = format!("{}.tmp.{}", out_path, std::process::id());
        std::fs::write(&tmp, text).expect("write facts");
        std::fs::rename(&tmp, &out_path).expect("rename facts");
        Compilation::Continue
    }
}

fn main() {
    let mut args: Vec<String> = std::env::args().collect();
    // RUSTC_WORKSPACE_WRAPPER passes the real rustc as argv[1]
    if args.len() > 1 && (args[1].ends_with("rustc") || args[1].contains("/rustc")) {
        args.remove(1);
    }
    rustc_driver::run_compiler(&args, &mut Cb);
}
