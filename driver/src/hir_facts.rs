//! Type-checked HIR → JSON.  Generic, rule-agnostic.

use crate::json::*;
use crate::{callsite_span, def_path, expn_j, span_file, span_j, ty_str};
use rustc_hir as hir;
use rustc_hir::def::{DefKind, Res};
use rustc_hir::def_id::{DefId, LocalDefId};
use rustc_hir::{ExprKind, PatExprKind, PatKind, QPath, StmtKind};
use rustc_middle::ty::{self, TyCtxt, TypeckResults};

pub struct Cx<'tcx> {
    pub tcx: TyCtxt<'tcx>,
    pub tr: &'tcx TypeckResults<'tcx>,
    pub owner: LocalDefId,
}

pub fn fn_j<'tcx>(tcx: TyCtxt<'tcx>, ldid: LocalDefId) -> J {
    let did = ldid.to_def_id();
    let kind = tcx.def_kind(did);
    let sp = tcx.def_span(did);
    let body = tcx.hir_body_owned_by(ldid);
    let tr = tcx.typeck(ldid);
    let cx = Cx { tcx, tr, owner: ldid };
    let is_closure = matches!(kind, DefKind::Closure);

    let mut fields: Vec<(&'static str, J)> = vec![
        ("path", s(def_path(tcx, did))),
        ("name", s(tcx.opt_item_name(did).map(|n| n.to_string()).unwrap_or_default())),
        ("kind", s(format!("{:?}", kind))),
        ("file", s(span_file(tcx, sp))),
        ("sp", span_j(tcx, tcx.hir_span(tcx.local_def_id_to_hir_id(ldid)))),
    ];
    if !is_closure {
        let vis = tcx.visibility(did);
        fields.push((
            "vis",
            s(match vis {
                ty::Visibility::Public => "pub".to_string(),
                ty::Visibility::Restricted(m) => {
                    if m.is_crate_root() {
                        "crate".to_string()
                    } else {
                        format!("in:{}", def_path(tcx, m))
                    }
                }
            }),
        ));
        // container: impl self type / trait
        if let Some(parent) = tcx.opt_parent(did) {
            match tcx.def_kind(parent) {
                DefKind::Impl { .. } => {
                    let st = tcx.type_of(parent).instantiate_identity().skip_norm_wip();
                    fields.push(("self_ty", s(ty_str(st))));
                    if let ty::Adt(adt, _) = st.kind() {
                        fields.push(("self_adt", s(def_path(tcx, adt.did()))));
                    }
                    if let Some(t) = tcx.impl_opt_trait_ref(parent) {
                        let t = t.instantiate_identity().skip_norm_wip();
                        fields.push(("impl_trait", s(def_path(tcx, t.def_id))));
                    }
                }
                DefKind::Trait => {
                    fields.push(("in_trait", s(def_path(tcx, parent))));
                }
                _ => {}
            }
        }
        let sig = tcx.fn_sig(did).instantiate_identity().skip_norm_wip().skip_binder();
        fields.push(("ret", s(ty_str(sig.output()))));
        let mut params = vec![];
        for (k, p) in body.params.iter().enumerate() {
            let pty = sig.inputs().get(k).map(|t| ty_str(*t)).unwrap_or_default();
            params.push(J::Obj(vec![("pat", cx.pat(p.pat)), ("ty", s(pty))]));
        }
        fields.push(("params", arr(params)));
        fields.push(("body", cx.expr(body.value)));
    } else {
        let parent = tcx.typeck_root_def_id(did);
        fields.push(("parent", s(def_path(tcx, parent))));
    }
    fields.push(("mir", crate::mir_facts::mir_j(tcx, ldid)));
    J::Obj(fields)
}

impl<'tcx> Cx<'tcx> {
    fn res_j(&self, res: Res) -> J {
        let tcx = self.tcx;
        match res {
            Res::Local(hid) => J::Obj(vec![
                ("r", s("local")),
                ("name", s(tcx.hir_name(hid).to_string())),
                ("hid", i(hid.local_id.as_u32())),
            ]),
            Res::Def(kind, did) => {
                let mut v = vec![
                    ("r", s("def")),
                    ("dk", s(format!("{:?}", kind))),
                    ("path", s(def_path(tcx, did))),
                ];
                // variant / ctor: give adt + variant name
                let vdid = match kind {
                    DefKind::Ctor(..) => tcx.opt_parent(did),
                    DefKind::Variant => Some(did),
                    _ => None,
                };
                if let Some(vd) = vdid {
                    if matches!(tcx.def_kind(vd), DefKind::Variant) {
                        if let Some(ad) = tcx.opt_parent(vd) {
                            v.push(("adt", s(def_path(tcx, ad))));
                            v.push(("variant", s(tcx.item_name(vd).to_string())));
                        }
                    } else if matches!(tcx.def_kind(vd), DefKind::Struct) {
                        v.push(("adt", s(def_path(tcx, vd))));
                    }
                }
                if matches!(kind, DefKind::Struct) {
                    v.push(("adt", s(def_path(tcx, did))));
                }
                J::Obj(v)
            }
            Res::SelfCtor(did) | Res::SelfTyAlias { alias_to: did, .. } => {
                let st = tcx.type_of(did).instantiate_identity().skip_norm_wip();
                let mut v = vec![("r", s("self")), ("ty", s(ty_str(st)))];
                if let ty::Adt(adt, _) = st.kind() {
                    v.push(("adt", s(def_path(tcx, adt.did()))));
                }
                J::Obj(v)
            }
            Res::SelfTyParam { .. } => J::Obj(vec![("r", s("selfparam"))]),
            Res::PrimTy(p) => J::Obj(vec![("r", s("prim")), ("name", s(p.name_str()))]),
            other => J::Obj(vec![("r", s("other")), ("dbg", s(format!("{:?}", other)))]),
        }
    }

    fn qpath_j(&self, qp: &QPath<'tcx>, hid: hir::HirId) -> J {
        let res = self.tr.qpath_res(qp, hid);
        self.res_j(res)
    }

    /// Variant info of a struct-like pattern/expr through its type when the
    /// path is `Self { .. }` or a type alias.
    fn adt_variant_of(&self, res: Res, t: ty::Ty<'tcx>) -> (Option<String>, Option<String>) {
        let tcx = self.tcx;
        if let ty::Adt(adt, _) = t.peel_refs().kind() {
            let ap = def_path(tcx, adt.did());
            if adt.is_enum() {
                if let Res::Def(DefKind::Variant, vd) | Res::Def(DefKind::Ctor(..), vd) = res {
                    let vd = if matches!(tcx.def_kind(vd), DefKind::Ctor(..)) {
                        tcx.parent(vd)
                    } else {
                        vd
                    };
                    return (Some(ap), Some(tcx.item_name(vd).to_string()));
                }
                return (Some(ap), None);
            }
            return (Some(ap), None);
        }
        (None, None)
    }

    pub fn pat(&self, p: &'tcx hir::Pat<'tcx>) -> J {
        let tcx = self.tcx;
        let pty = self.tr.pat_ty(p);
        let mut v: Vec<(&'static str, J)> = vec![];
        match p.kind {
            PatKind::Wild => v.push(("k", s("Wild"))),
            PatKind::Missing => v.push(("k", s("Missing"))),
            PatKind::Never => v.push(("k", s("Never"))),
            PatKind::Binding(mode, hid, ident, sub) => {
                v.push(("k", s("Binding")));
                v.push(("name", s(ident.name.to_string())));
                v.push(("hid", i(hid.local_id.as_u32())));
                v.push(("mode", s(format!("{:?}", mode))));
                if let Some(sub) = sub {
                    v.push(("sub", self.pat(sub)));
                }
            }
            PatKind::Struct(ref qp, fields, rest) => {
                v.push(("k", s("Struct")));
                let res = self.tr.qpath_res(qp, p.hir_id);
                let (a, var) = self.adt_variant_of(res, pty);
                v.push(("adt", opt(a.map(s))));
                v.push(("variant", opt(var.map(s))));
                let fs: Vec<J> = fields
                    .iter()
                    .map(|f| arr([s(f.ident.name.to_string()), self.pat(f.pat)]))
                    .collect();
                v.push(("fields", arr(fs)));
                v.push(("rest", J::Bool(rest.is_some())));
            }
            PatKind::TupleStruct(ref qp, pats, ddpos) => {
                v.push(("k", s("TupleStruct")));
                let res = self.tr.qpath_res(qp, p.hir_id);
                let (a, var) = self.adt_variant_of(res, pty);
                v.push(("adt", opt(a.map(s))));
                v.push(("variant", opt(var.map(s))));
                v.push(("pats", arr(pats.iter().map(|x| self.pat(x)))));
                v.push(("rest", J::Bool(ddpos.as_opt_usize().is_some())));
            }
            PatKind::Or(pats) => {
                v.push(("k", s("Or")));
                v.push(("pats", arr(pats.iter().map(|x| self.pat(x)))));
            }
            PatKind::Tuple(pats, ddpos) => {
                v.push(("k", s("Tuple")));
                v.push(("pats", arr(pats.iter().map(|x| self.pat(x)))));
                v.push(("rest", J::Bool(ddpos.as_opt_usize().is_some())));
            }
            PatKind::Box(x) => {
                v.push(("k", s("Box")));
                v.push(("sub", self.pat(x)));
            }
            PatKind::Deref(x) => {
                v.push(("k", s("Deref")));
                v.push(("sub", self.pat(x)));
            }
            PatKind::Ref(x, _, m) => {
                v.push(("k", s("Ref")));
                v.push(("mut", J::Bool(m.is_mut())));
                v.push(("sub", self.pat(x)));
            }
            PatKind::Expr(pe) => match pe.kind {
                PatExprKind::Lit { lit, negated } => {
                    v.push(("k", s("Lit")));
                    v.push(("lit", s(format!("{}{:?}", if negated { "-" } else { "" }, lit.node))));
                }
                PatExprKind::Path(ref qp) => {
                    v.push(("k", s("Path")));
                    let res = self.tr.qpath_res(qp, pe.hir_id);
                    let (a, var) = self.adt_variant_of(res, pty);
                    v.push(("adt", opt(a.map(s))));
                    v.push(("variant", opt(var.map(s))));
                    v.push(("res", self.res_j(res)));
                }
            },
            PatKind::Guard(x, g) => {
                v.push(("k", s("Guard")));
                v.push(("sub", self.pat(x)));
                v.push(("guard", self.expr(g)));
            }
            PatKind::Range(..) => v.push(("k", s("Range"))),
            PatKind::Slice(a, m, b) => {
                v.push(("k", s("Slice")));
                v.push(("before", arr(a.iter().map(|x| self.pat(x)))));
                if let Some(m) = m {
                    v.push(("mid", self.pat(m)));
                }
                v.push(("after", arr(b.iter().map(|x| self.pat(x)))));
            }
            PatKind::Err(_) => v.push(("k", s("Err"))),
        }
        v.push(("ty", s(ty_str(pty))));
        v.push(("sp", span_j(tcx, p.span)));
        J::Obj(v)
    }

    fn block(&self, b: &'tcx hir::Block<'tcx>) -> J {
        self.block_ty(b, None)
    }

    fn block_ty(&self, b: &'tcx hir::Block<'tcx>, ty: Option<String>) -> J {
        let mut stmts = vec![];
        for st in b.stmts {
            match st.kind {
                StmtKind::Let(l) => {
                    let mut v = vec![("k", s("Let")), ("pat", self.pat(l.pat))];
                    if let Some(init) = l.init {
                        v.push(("init", self.expr(init)));
                    }
                    if let Some(els) = l.els {
                        v.push(("else", self.block(els)));
                    }
                    v.push(("sp", span_j(self.tcx, st.span)));
                    stmts.push(J::Obj(v));
                }
                StmtKind::Item(_) => {}
                StmtKind::Expr(e) => stmts.push(J::Obj(vec![("k", s("Expr")), ("e", self.expr(e))])),
                StmtKind::Semi(e) => stmts.push(J::Obj(vec![("k", s("Semi")), ("e", self.expr(e))])),
            }
        }
        let mut v = vec![("k", s("Block")), ("stmts", arr(stmts))];
        if let Some(e) = b.expr {
            v.push(("expr", self.expr(e)));
        }
        if let Some(t) = ty {
            v.push(("ty", s(t)));
        }
        v.push(("sp", span_j(self.tcx, b.span)));
        if b.span.from_expansion() {
            v.push(("exp", expn_j(b.span)));
        }
        J::Obj(v)
    }

    /// Resolve a callee def + generic args to the concrete instance if possible.
    fn resolve(&self, did: DefId, args: ty::GenericArgsRef<'tcx>) -> Option<String> {
        let tcx = self.tcx;
        match tcx.def_kind(did) {
            DefKind::Fn | DefKind::AssocFn => {}
            _ => return None,
        }
        if args.len() != tcx.generics_of(did).count() {
            return None;
        }
        let env = ty::TypingEnv::post_analysis(tcx, self.owner.to_def_id());
        // args may still mention inference-free but generic params of the owner: fine.
        let r = std::panic::catch_unwind(std::panic::AssertUnwindSafe(|| {
            ty::Instance::try_resolve(tcx, env, did, args)
        }));
        match r {
            Ok(Ok(Some(inst))) => Some(def_path(tcx, inst.def_id())),
            _ => None,
        }
    }

    pub fn expr(&self, e: &'tcx hir::Expr<'tcx>) -> J {
        let tcx = self.tcx;
        let tr = self.tr;
        let mut v: Vec<(&'static str, J)> = vec![];
        match e.kind {
            ExprKind::ConstBlock(_) => v.push(("k", s("ConstBlock"))),
            ExprKind::Array(xs) => {
                v.push(("k", s("Array")));
                v.push(("elems", arr(xs.iter().map(|x| self.expr(x)))));
            }
            ExprKind::Call(f, args) => {
                v.push(("k", s("Call")));
                // resolved callee when the function is a path
                if let ExprKind::Path(ref qp) = f.kind {
                    let res = tr.qpath_res(qp, f.hir_id);
                    v.push(("fres", self.res_j(res)));
                    if let Res::Def(DefKind::Fn | DefKind::AssocFn, did) = res {
                        let ga = tr.node_args(f.hir_id);
                        v.push(("callee", s(def_path(tcx, did))));
                        if !did.is_local() {
                            v.push(("pnames", foreign_param_names(tcx, did)));
                        }
                        if let Some(r) = self.resolve(did, ga) {
                            v.push(("inst", s(r)));
                        }
                    }
                }
                v.push(("f", self.expr(f)));
                v.push(("args", arr(args.iter().map(|x| self.expr(x)))));
            }
            ExprKind::MethodCall(seg, recv, args, _) => {
                v.push(("k", s("MethodCall")));
                v.push(("method", s(seg.ident.name.to_string())));
                if let Some(did) = tr.type_dependent_def_id(e.hir_id) {
                    v.push(("callee", s(def_path(tcx, did))));
                    if !did.is_local() {
                        v.push(("pnames", foreign_param_names(tcx, did)));
                    }
                    let ga = tr.node_args(e.hir_id);
                    if let Some(r) = self.resolve(did, ga) {
                        v.push(("inst", s(r)));
                    }
                }
                v.push(("recv", self.expr(recv)));
                v.push(("recv_ty", s(ty_str(tr.expr_ty_adjusted(recv)))));
                v.push(("args", arr(args.iter().map(|x| self.expr(x)))));
            }
            ExprKind::Use(x, _) => {
                v.push(("k", s("Use")));
                v.push(("e", self.expr(x)));
            }
            ExprKind::Tup(xs) => {
                v.push(("k", s("Tup")));
                v.push(("elems", arr(xs.iter().map(|x| self.expr(x)))));
            }
            ExprKind::Binary(op, a, b) => {
                v.push(("k", s("Binary")));
                v.push(("op", s(op.node.as_str())));
                v.push(("a", self.expr(a)));
                v.push(("b", self.expr(b)));
            }
            ExprKind::Unary(op, a) => {
                v.push(("k", s("Unary")));
                v.push(("op", s(op.as_str())));
                if let Some(did) = tr.type_dependent_def_id(e.hir_id) {
                    v.push(("callee", s(def_path(tcx, did))));
                }
                v.push(("a", self.expr(a)));
            }
            ExprKind::Lit(l) => {
                v.push(("k", s("Lit")));
                v.push(("lit", s(format!("{:?}", l.node))));
            }
            ExprKind::Cast(a, _) => {
                v.push(("k", s("Cast")));
                v.push(("a", self.expr(a)));
            }
            ExprKind::Type(a, _) => {
                v.push(("k", s("Type")));
                v.push(("a", self.expr(a)));
            }
            ExprKind::DropTemps(a) => {
                // transparent
                return self.expr(a);
            }
            ExprKind::Let(l) => {
                v.push(("k", s("LetExpr")));
                v.push(("pat", self.pat(l.pat)));
                v.push(("init", self.expr(l.init)));
            }
            ExprKind::If(c, t, el) => {
                v.push(("k", s("If")));
                v.push(("cond", self.expr(c)));
                v.push(("then", self.expr(t)));
                if let Some(el) = el {
                    v.push(("else", self.expr(el)));
                }
            }
            ExprKind::Loop(b, _, src, _) => {
                v.push(("k", s("Loop")));
                v.push(("src", s(format!("{:?}", src))));
                v.push(("body", self.block(b)));
            }
            ExprKind::Match(scrut, arms, src) => {
                v.push(("k", s("Match")));
                v.push(("src", s(format!("{:?}", src))));
                v.push(("scrut", self.expr(scrut)));
                v.push(("scrut_ty", s(ty_str(tr.expr_ty(scrut)))));
                let mut aj = vec![];
                for a in arms {
                    let mut av = vec![("pat", self.pat(a.pat))];
                    if let Some(g) = a.guard {
                        av.push(("guard", self.expr(g)));
                    }
                    av.push(("body", self.expr(a.body)));
                    av.push(("sp", span_j(tcx, a.span)));
                    aj.push(J::Obj(av));
                }
                v.push(("arms", arr(aj)));
            }
            ExprKind::Closure(c) => {
                v.push(("k", s("Closure")));
                v.push(("def", s(def_path(tcx, c.def_id.to_def_id()))));
                let body = tcx.hir_body(c.body);
                v.push(("params", arr(body.params.iter().map(|p| self.pat(p.pat)))));
                v.push(("body", self.expr(body.value)));
            }
            ExprKind::Block(b, _) => {
                return self.block_ty(b, Some(ty_str(tr.expr_ty(e))));
            }
            ExprKind::Assign(l, r, _) => {
                v.push(("k", s("Assign")));
                v.push(("lhs", self.expr(l)));
                v.push(("rhs", self.expr(r)));
            }
            ExprKind::AssignOp(op, l, r) => {
                v.push(("k", s("AssignOp")));
                v.push(("op", s(op.node.as_str())));
                v.push(("lhs", self.expr(l)));
                v.push(("rhs", self.expr(r)));
            }
            ExprKind::Field(b, ident) => {
                v.push(("k", s("Field")));
                v.push(("name", s(ident.name.to_string())));
                v.push(("base", self.expr(b)));
                v.push(("base_ty", s(ty_str(tr.expr_ty_adjusted(b)))));
            }
            ExprKind::Index(b, idx, _) => {
                v.push(("k", s("Index")));
                if let Some(did) = tr.type_dependent_def_id(e.hir_id) {
                    v.push(("callee", s(def_path(tcx, did))));
                }
                v.push(("base", self.expr(b)));
                v.push(("base_ty", s(ty_str(tr.expr_ty_adjusted(b)))));
                v.push(("index", self.expr(idx)));
            }
            ExprKind::Path(ref qp) => {
                v.push(("k", s("Path")));
                let res = tr.qpath_res(qp, e.hir_id);
                v.push(("res", self.res_j(res)));
            }
            ExprKind::AddrOf(_, m, a) => {
                v.push(("k", s("AddrOf")));
                v.push(("mut", J::Bool(m.is_mut())));
                v.push(("a", self.expr(a)));
            }
            ExprKind::Break(_, x) => {
                v.push(("k", s("Break")));
                if let Some(x) = x {
                    v.push(("e", self.expr(x)));
                }
            }
            ExprKind::Continue(_) => v.push(("k", s("Continue"))),
            ExprKind::Ret(x) => {
                v.push(("k", s("Ret")));
                if let Some(x) = x {
                    v.push(("e", self.expr(x)));
                }
            }
            ExprKind::Become(x) => {
                v.push(("k", s("Become")));
                v.push(("e", self.expr(x)));
            }
            ExprKind::InlineAsm(_) => v.push(("k", s("InlineAsm"))),
            ExprKind::OffsetOf(..) => v.push(("k", s("OffsetOf"))),
            ExprKind::Struct(qp, fields, tail) => {
                v.push(("k", s("Struct")));
                let res = tr.qpath_res(qp, e.hir_id);
                let (a, var) = self.adt_variant_of(res, tr.expr_ty(e));
                v.push(("adt", opt(a.map(s))));
                v.push(("variant", opt(var.map(s))));
                let fs: Vec<J> = fields
                    .iter()
                    .map(|f| arr([s(f.ident.name.to_string()), self.expr(f.expr)]))
                    .collect();
                v.push(("fields", arr(fs)));
                match tail {
                    hir::StructTailExpr::Base(b) => v.push(("base", self.expr(b))),
                    hir::StructTailExpr::DefaultFields(_) => v.push(("defaults", J::Bool(true))),
                    _ => {}
                }
            }
            ExprKind::Repeat(x, _) => {
                v.push(("k", s("Repeat")));
                v.push(("e", self.expr(x)));
            }
            ExprKind::Yield(x, _) => {
                v.push(("k", s("Yield")));
                v.push(("e", self.expr(x)));
            }
            ExprKind::UnsafeBinderCast(_, x, _) => {
                v.push(("k", s("UnsafeBinderCast")));
                v.push(("e", self.expr(x)));
            }
            ExprKind::Err(_) => v.push(("k", s("Err"))),
        }
        v.push(("ty", s(ty_str(tr.expr_ty(e)))));
        // overloaded-deref / autoref adjustments that change the type
        let adj = tr.expr_adjustments(e);
        if !adj.is_empty() {
            let mut aj = vec![];
            for a in adj {
                let kind = match &a.kind {
                    ty::adjustment::Adjust::Deref(d) => match d {
                        ty::adjustment::DerefAdjustKind::Overloaded(_) => "deref_overloaded",
                        _ => "deref",
                    },
                    ty::adjustment::Adjust::Borrow(_) => "borrow",
                    ty::adjustment::Adjust::Pointer(_) => "pointer",
                    ty::adjustment::Adjust::NeverToAny => "never_to_any",
                    _ => "other",
                };
                aj.push(arr([s(kind), s(ty_str(a.target))]));
            }
            v.push(("adj", arr(aj)));
        }
        v.push(("sp", span_j(tcx, e.span)));
        if e.span.from_expansion() {
            v.push(("exp", expn_j(e.span)));
            v.push(("csp", span_j(tcx, callsite_span(e.span))));
        }
        J::Obj(v)
    }
}

/// names of the parameters of a function defined in another crate (from its metadata); "" for `_`/pattern parameters
fn foreign_param_names(tcx: TyCtxt<'_>, did: DefId) -> J {
    arr(tcx
        .fn_arg_idents(did)
        .iter()
        .map(|i| s(i.map(|i| i.name.to_string()).unwrap_or_default())))
}
