//! Minimal JSON value + writer (the driver has zero crates.io dependencies).

pub enum J {
    Null,
    Bool(bool),
    Int(i128),
    Str(String),
    Arr(Vec<J>),
    Obj(Vec<(&'static str, J)>),
}

pub fn s<T: Into<String>>(x: T) -> J {
    J::Str(x.into())
}
pub fn i<T: TryInto<i128>>(x: T) -> J {
    J::Int(x.try_into().ok().unwrap_or(-1))
}
pub fn arr<I: IntoIterator<Item = J>>(x: I) -> J {
    J::Arr(x.into_iter().collect())
}
pub fn opt(x: Option<J>) -> J {
    x.unwrap_or(J::Null)
}

impl J {
    pub fn write(&self, out: &mut String) {
        match self {
            J::Null => out.push_str("null"),
            J::Bool(b) => out.push_str(if *b { "true" } else { "false" }),
            J::Int(n) => out.push_str(&n.to_string()),
            J::Str(st) => write_str(st, out),
            J::Arr(v) => {
                out.push('[');
                for (k, x) in v.iter().enumerate() {
                    if k > 0 {
                        out.push(',');
                    }
                    x.write(out);
                }
                out.push(']');
            }
            J::Obj(v) => {
                out.push('{');
                let mut first = true;
                for (k, x) in v.iter() {
                    if let J::Null = x {
                        continue;
                    }
                    if !first {
                        out.push(',');
                    }
                    first = false;
                    write_str(k, out);
                    out.push(':');
                    x.write(out);
                }
                out.push('}');
            }
        }
    }
}

fn write_str(st: &str, out: &mut String) {
    out.push('"');
    for c in st.chars() {
        match c {
            '"' => out.push_str("\\\""),
            '\\' => out.push_str("\\\\"),
            '\n' => out.push_str("\\n"),
            '\r' => out.push_str("\\r"),
            '\t' => out.push_str("\\t"),
            c if (c as u32) < 0x20 => out.push_str(&format!("\\u{:04x}", c as u32)),
            c => out.push(c),
        }
    }
    out.push('"');
}
