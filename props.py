"""Property → rules registry (see DESIGN.md §4)."""

PROPS = {
    "C01": {
        "level": "other",
        "rules": [
            ("typetable", "type_table", {}),
            ("typetable", "storage_block_heap_tables", {}),
        ],
    },
    "C08": {
        "level": "other",
        "rules": [
            ("reindex", "refers_exh", {"kind": "memory"}),
            ("reindex", "fix_op_dispatch", {}),
        ],
    },
}
PROPS["C30"] = {"level": "other", "rules": [("constexpr", "constexpr_table", {})]}
