"""Property → rules registry (see DESIGN.md §4)."""

PROPS = {
    "C01": {
        "level": "other",
        "rules": [
            ("typetable", "type_table", {}),
            ("typetable", "storage_block_heap_tables", {}),
        ],
    },
    "C08": {
        "level": "other",
        "rules": [
            ("reindex", "refers_exh", {"kind": "memory"}),
            ("reindex", "fix_op_dispatch", {}),
        ],
    },
}
PROPS["C30"] = {"level": "other", "rules": [("constexpr", "constexpr_table", {})]}
PROPS["C15"] = {"level": "other", "rules": [("modes", "mode_field", {}), ("modes", "has_instr_cover", {}), ("modes", "emit_order", {})]}
PROPS["C26"] = {"level": "other", "rules": [("siblings", "instrumenter_siblings", {})]}
PROPS["C22"] = {"level": "other", "rules": [("special", "special_flag", {}), ("special", "resolve_clears", {}), ("special", "entry_preserve", {}), ("special", "block_tables", {})]}
PROPS["C24"] = {"level": "proof", "rules": [("opcode", "opcode_table", {})]}
