"""Property → rules registry (see DESIGN.md §4).  Single source for MANIFEST.json."""

# "fix:" commits made in /repo for genuine defects the checks found (see known_findings.json)
FIX_COMMITS = [
    "02a02b1", "c32131a", "324bd77", "876de36", "e2492f3", "e522aa8", "02b45be", "2a6ea78", "7fbeea5", "b9a009d",
    "caa585b", "a0bae72", "49c1276", "a9a220e", "3b6199f", "d3ca28d", "e11250e", "3ac0c81", "b80de6a", "773425f",
    "a468da5", "3e9bf5d", "abf25e6", "2859361", "650ac10", "2493939", "3e31ca3", "64111f6", "3e81fe2", "0648151", "661c1df", "a5e88fa",
]

NOT_APPLICABLE = {
    "C16": "observational equivalence of original and instrumented programs under execution (results, traps, memory/global state, event timing) for every generated program and argument vector: no clause is a fact about the shape of wirm's code beyond what C15/C17-C22 already claim; deciding it needs an interpreter or a semantics-level proof of the lowering, i.e. a different technique family",
}

TB = ("Trusted base: rustc nightly typeck/HIR/MIR and Instance::try_resolve; nightly and stable agree on this crate; "
      "wasmparser/wasm_encoder behave as their types say; reviewed tables under /verif/tables. ")


def P(rules, text, decided, not_decided, technique, level="other"):
    uniq = []
    for r_ in rules:
        if r_ not in uniq:
            uniq.append(r_)
    rules = uniq
    return {
        "level": level,
        "rules": rules,
        "text": text,
        "note": TB + "Decided: " + decided + " NOT decided (behavioural remainder, not claimed): " + not_decided,
        "technique": technique,
    }


TT_WE = ("typetable", "type_table", {"writers": ("wasm_encoder",), "agreement": False})
TT_BOTH = ("typetable", "type_table", {})
TT_AUX = ("typetable", "storage_block_heap_tables", {})
CONSTEXPR = ("constexpr", "constexpr_table", {})
SIB = ("siblings", "instrumenter_siblings", {})
REIMPL = ("siblings", "reindexable_impls", {})
TAGU = ("siblings", "tag_utils_siblings", {})
ARGN = ("fields", "call_arg_names", {})
FFC = ("fields", "foreign_fields_cover", {})
MODEF = ("modes", "mode_field", {})
BLOCKT = ("special", "block_tables", {})
CLEARS = ("special", "resolve_clears", {})
CLEARCOH = ("modes", "clear_coherent", {})
DETAILS = ("misc", "resolver_details", {})
RECALC = ("mutators", "recalc_set", {})
REORG = ("mutators", "reorg_inv", {})
MISS = ("emit", "miss_loud", {})
MAPARGS = ("emit", "map_args", {})
FRESH = ("mutators", "fresh_ids", {})
IMPORD = ("mutators", "import_ordinal", {})
SCRATCH = ("emit", "loop_scratch", {})
INJAT = ("modes", "inject_at_protocol", {})
TFLOW = ("fields", "type_field_flow", {})
LCG = ("mutators", "local_count_guard", {})
WALK = ("special", "walk_bounds", {})
SPFLAG = ("special", "special_flag", {})
SAVESIB = ("misc", "save_siblings", {})
FULLIT = ("emit", "full_iter", {})
MAPUNC = ("emit", "mapper_uncond", {})
ITCFG = ("iters", "config_immutable", {})
ENCW = ("emit", "encode_writes", {})
MODESET = ("modes", "mode_setters", {})
MODEHELP = ("modes", "mode_helpers", {})
FINISH = ("modes", "finish_resets_priority_mode", {})
SKIPPASS = ("iters", "skip_passthrough", {})
SKIPMEM = ("iters", "skip_membership", {})
PARM = ("fields", "parse_arm_faithful", {})
FLF = ("special", "func_level_first", {})
MODRESET = ("special", "modifier_reset", {})
KMIX = ("mutators", "kind_mix", {})
SECORD = ("emit", "section_order", {})
NEST = ("component", "nest_track", {})
RECD = ("component", "rec_dispatch", {})
SCOPED = ("misc", "scoped_pending", {})
DELP = ("misc", "delete_pairing", {})
REIDX = [("reindex", "refers_exh", {"kind": k}) for k in ("func", "global", "memory")]
IDSPACE = ("mutators", "idspace", {})
HASH = ("hashorder", "hashorder", {})
EMITORD = ("modes", "emit_order", {})
ADDFLOW = ("misc", "additions", {})
CONVSIB = ("component", "converter_siblings", {})
COUPCNT = ("component", "coupled_counts", {})
LOCADDR = ("iters", "location_addressing", {})
EMITALL = ("emit", "emit_all", {})
WCOPY = ("mutators", "write_to_copy", {})
EXPKIND = ("misc", "export_kind_tests", {})


def EM(kinds, names=False):
    return ("emit", "emit_mapped", {"kinds": kinds, "names": names})


PROPS = {
    "C01": P([ARGN, PARM, KMIX, MAPARGS, IDSPACE, FRESH, ("fields", "struct_copy_pairing", {}), RECD, FULLIT, TT_WE, TT_AUX, CONSTEXPR, ("emit", "section_order", {}), ("nopanic", "payload_exh_rule", {}), SCRATCH] + REIDX,
             "necessary-condition lint: every value type of the stated profile survives the reader→writer tables; constant-expression operators are re-emitted as themselves; sections are emitted in binary-format order; every payload kind has a handler",
             "R-TYPE-TABLE (wasm_encoder writer), aux tables, R-CONSTEXPR-TABLE, R-SECTION-ORDER, R-PAYLOAD-EXH, R-PARSE-ARM, R-LOOP-SCRATCH, R-REFERS-EXH (the updaters run on every encode, with identity maps on an unmodified module: each must write a looked-up index back to the operand it was looked up for).",
             "that the whole output validates for every module.",
             "abstract interpretation of match tables over a finite type domain; call-order check"),
    "C02": P([ARGN, PARM, ("fields", "namemap_copy_complete", {}), FRESH, EMITALL, RECD, FULLIT, TT_WE, TT_AUX, CONSTEXPR, ("fields", "types_cover", {}), ("fields", "name_pairing", {}), ("fields", "struct_copy_pairing", {}), ("fields", "custom_sections", {}), IMPORD, SCRATCH, TFLOW] + REIDX,
             "necessary conditions of content preservation: no type/const table changes a value, no Types field is dropped by the encoder, every name subsection and custom section is re-emitted from where it was stored, struct→struct copies pair like-named fields",
             "R-TYPE-TABLE, R-CONSTEXPR-TABLE, R-FIELDS-COVER(Types), R-NAME-PAIRING, R-COPY-PAIRING, R-CUSTOM-SECTIONS, R-IMPORT-ORDINAL, R-LOOP-SCRATCH, R-REFERS-EXH, R-TYPE-FIELD-FLOW, R-PARSE-ARM.",
             "equality of decoded forms on every input.",
             "table extraction + field-provenance pairing"),
    "C03": P([("nopanic", "nopanic", {}), ("nopanic", "untrusted_alloc", {}), ("nopanic", "parse_recursion", {})],
             "sound over-approximation: every MIR panic edge on a resolved local call path from the four parse roots is enumerated; guard idioms discharge; the rest are reported; allocations sized by the input and recursion without a depth guard (the two abort sources that are not panic edges) are enumerated on the same call graph",
             "R-NOPANIC over the local call graph, R-PAYLOAD-EXH, R-UNTRUSTED-ALLOC, R-PARSE-RECURSION.",
             "panics inside dependencies (trusted to honour Result contracts); whether the constant depth bound fits the caller's stack; debug-only overflow checks are counted, not judged.",
             "MIR panic-edge enumeration + call-graph reachability"),
    "C04": P([("hashorder", "hashorder", {}), ("fields", "types_cover", {})],
             "every hash-order source in the crate is enumerated by resolved receiver type and its consumer classified; no time/env/thread/random call is reachable from encode; the hand-written Hash and PartialEq of the type-dedup key agree field for field (a key whose hash covers more or less than its equality is found or missed depending on the per-process SipHash keys)",
             "R-HASHORDER + zero-expected nondeterminism sources on the encode call graph; R-FIELDS-COVER(Types) hash/eq coherence.",
             "nothing of note for safe single-threaded Rust beyond the enumerated sources.",
             "resolved-callee enumeration + loop-body effect classification"),
    "C05": P([MODRESET, REORG, HASH, ENCW, SECORD, ("emit", "idempotent_encode", {}), CLEARS, CLEARCOH],
             "necessary: in-place remapping requires renormalising the ID sources; lowered special lists are cleared",
             "R-IDEMPOTENT-ENCODE, R-RESOLVE-CLEARS, R-CLEAR-COHERENT.",
             "byte equality of two encodings.",
             "effect analysis of the encode call graph"),
    "C06": P([REIMPL, EXPKIND, WCOPY, DELP, LCG, FULLIT, KMIX, MAPUNC, ("reindex", "refers_exh", {"kind": "func"}), ("reindex", "fix_op_dispatch", {}), EM(("func",)), MAPARGS, MISS, RECALC, REORG,
              ("mutators", "coupled_import_order", {}), IDSPACE, FRESH, IMPORD],
             "necessary conditions for function references to stay bound: operator coverage, every function-index sink mapped, maps not swapped, loud failure on dangling references, re-indexing armed by every order-changing mutation, reorganise's position bookkeeping, import order coupling, no cross-space id casts",
             "R-REFERS-EXH(func), R-FIXOP-DISPATCH, R-EMIT-MAPPED(func), R-MAP-ARGS, R-MISS-LOUD, R-RECALC-SET, R-REORG-INV, R-COUPLED-IMPORT-ORDER, R-IDSPACE, R-FRESH-ID, R-IMPORT-ORDINAL.",
             "that reorganise computes the right permutation for every history (only its per-branch invariant preservation is checked); validity of the output.",
             "ADT-driven exhaustiveness + sink provenance + path rules"),
    "C07": P([REIMPL, FULLIT, EMITALL, WCOPY, IDSPACE, KMIX, MAPUNC, ("reindex", "refers_exh", {"kind": "global"}), EM(("global",)), MAPARGS, MISS, RECALC, REORG, ("mutators", "who_may_call", {}), FRESH],
             "necessary conditions for global references to stay bound, incl. who may add to the globals collection",
             "R-REFERS-EXH(global), R-EMIT-MAPPED(global), R-MAP-ARGS, R-MISS-LOUD, R-RECALC-SET, R-REORG-INV, R-WHOMAYCALL, R-FRESH-ID.",
             "as C06.",
             "ADT-driven exhaustiveness + sink provenance + who-may-call"),
    "C08": P([REIMPL, FULLIT, EMITALL, IDSPACE, KMIX, MAPUNC, ("reindex", "refers_exh", {"kind": "memory"}), ("reindex", "fix_op_dispatch", {}), EM(("memory",)), MAPARGS, MISS, RECALC, REORG, FRESH],
             "exhaustiveness of the memory re-index predicate/updater against the Operator ADT of the build; memory sinks mapped",
             "R-REFERS-EXH(memory), R-FIXOP-DISPATCH, R-EMIT-MAPPED(memory), R-MAP-ARGS, R-MISS-LOUD, R-RECALC-SET, R-REORG-INV, R-FRESH-ID.",
             "as C06.",
             "ADT-driven match exhaustiveness"),
    "C09": P([REIMPL, EXPKIND, WCOPY, MAPUNC, EM(("func", "global", "memory")), EMITALL, MAPARGS, LCG, FULLIT, IDSPACE, KMIX, ("misc", "delete_pairing", {}), ("emit", "del_guard", {}), MISS, RECALC, REORG] + REIDX,
             "necessary: deletes address the right element and its import, emitters skip deleted, dangling references fail loudly, re-indexing armed, reorganise bookkeeping",
             "R-DELETE-PAIRING, R-DEL-GUARD, R-MISS-LOUD, R-RECALC-SET, R-REORG-INV.",
             "that every other entity keeps its identity over all histories.",
             "field-provenance pairing + guarded-sink analysis"),
    "C10": P([("misc", "builder_flow", {}), FRESH, WCOPY, EM(("func",)), MAPUNC, FULLIT, ("reindex", "refers_exh", {"kind": "func"}), WALK, IDSPACE, ("misc", "convert_flows", {}), RECALC, IMPORD, REORG, DELP, LCG],
             "necessary: the slot flipped to Local is addressed in the function index space, under the signature guard, after the import was deleted",
             "R-IDSPACE, R-CONVERT-FLOW, R-RECALC-SET, R-IMPORT-ORDINAL, R-REORG-INV, R-DELETE-PAIRING (delete_func, which the conversion reuses, touches only the function and its import), R-LOCAL-COUNT-GUARD.",
             "that every former use executes the new body.",
             "newtype cross-space lint + path order"),
    "C11": P([FRESH, WCOPY, LCG, EM(("func",)), MAPUNC, DELP, ("reindex", "refers_exh", {"kind": "func"}), ("mutators", "coupled_import_order", {}), ("mutators", "counter_inv", {}), ("misc", "convert_flows", {}), RECALC, REORG],
             "necessary: import order coupling, counter invariant, provenance of the new ImportedFunction",
             "R-COUPLED-IMPORT-ORDER, R-COUNTER-INV, R-CONVERT-FLOW, R-RECALC-SET, R-REORG-INV.",
             "redirect semantics over histories.",
             "abstract counter deltas per path + provenance"),
    "C12": P([REORG, TT_AUX, ("opcode", "opcode_table", {}), ("emit", "name_index", {}), WALK, ("misc", "builder_flow", {}), ("mutators", "counter_inv", {}), ("mutators", "swap_flows", {}), TT_WE, ("mutators", "locals_owner", {}), LCG] + REIDX,
             "necessary: builder hand-over order and arguments, sibling agreement of the finish variants, counter invariant, no same-typed parameter swaps, type table",
             "R-BUILDER-FLOW, R-COUNTER-INV, R-SWAP, R-TYPE-TABLE, R-LOCALS (declared locals), R-LOCAL-COUNT-GUARD.",
             "decoded equality.",
             "path enumeration + name-aligned flow lint"),
    "C13": P([TT_AUX, SCRATCH, RECD, TFLOW, ("fields", "types_cover", {}), ("misc", "type_dedup", {}), ("hashorder", "hashorder", {}), ("mutators", "swap_flows", {}), TT_WE],
             "necessary: Hash/Eq/encode agree on Types fields, the type store has one writer and dedups before inserting, the dedup winner does not depend on hash order",
             "R-TYPE-FIELD-FLOW, R-FIELDS-COVER(Types), R-TYPE-DEDUP, R-HASHORDER, R-SWAP, R-TYPE-TABLE.",
             "index stability with explicit rec groups (iso-recursive identity).",
             "who-may-write + guarded-insert analysis"),
    "C14": P([FULLIT, ("mutators", "locals_owner", {}), TT_WE, IDSPACE],
             "the local-adding machinery has one writer with the right shape and every entry point reaches it with the parameter count of the same function",
             "R-LOCALS (owner, shape on every path, caller arguments), R-TYPE-TABLE, R-IDSPACE (the function id an entry point hands to the owner is not re-derived from a cursor position).",
             "nothing beyond the trusted base for the index formula; the encoded declaration relies on C01's tables.",
             "who-may-write + path enumeration"),
    "C15": P([MODRESET, CLEARCOH, LOCADDR, FINISH, MODEHELP, MODESET, FULLIT, MODEF, ("modes", "has_instr_cover", {}), ("modes", "emit_order", {}), SIB, INJAT],
             "structural whole of the plain-mode lowering: mode→list dispatch, has_instr coverage, emission order on every path, sibling agreement of the injection APIs",
             "R-MODE-FIELD, R-HAS-INSTR, R-EMIT-ORDER, R-SIBLING(instrumenter), R-INJECT-AT.",
             "textual equality on concrete programs (a consequence).",
             "path enumeration over structured HIR + sibling effect summaries"),
    "C17": P([INJAT, MODRESET, SIB, SECORD, EMITORD, ENCW, FINISH, MODEHELP, FLF, ("misc", "type_dedup", {}), LCG, WALK, SPFLAG, CLEARCOH, MODEF, BLOCKT, DETAILS, CLEARS, ("special", "entry_preserve", {})],
             "necessary: exit probes cover every return/throw/trap operator, wrapper opened/closed once, entry at idx 0, entry body preserved",
             "R-BLOCK-TABLES(4), R-RESOLVER-DETAILS, R-RESOLVE-CLEARS, R-ENTRY-PRESERVE.",
             "firing counts at run time.",
             "ADT-driven table checks + path enumeration"),
    "C18": P([INJAT, LOCADDR, EMITORD, ENCW, FINISH, SIB, MODEHELP, LCG, WALK, SPFLAG, CLEARCOH, MODEF, BLOCKT, DETAILS, CLEARS],
             "necessary: accepting predicate, resolver and driver agree on {Block,Loop,If,Else}; body placed After the opener; list cleared",
             "R-BLOCK-TABLES(2), R-RESOLVER-DETAILS, R-RESOLVE-CLEARS.",
             "firing semantics.",
             "table agreement"),
    "C19": P([ENCW, INJAT, EMITORD, FINISH, SIB, MODEHELP, LCG, SAVESIB, WALK, SPFLAG, CLEARCOH, MODEF, BLOCKT, DETAILS, ("misc", "scoped_pending", {}), CLEARS],
             "necessary: every opener pushed, exit bodies scoped to their block and resolved Before the closing else/end",
             "R-BLOCK-TABLES(1,2), R-RESOLVER-DETAILS, R-SCOPED-PENDING, R-RESOLVE-CLEARS.",
             "firing semantics.",
             "table agreement + container scoping analysis"),
    "C20": P([ENCW, INJAT, LOCADDR, ("special", "per_function_state", {}), ("mutators", "locals_owner", {}), EMITORD, FINISH, MODEHELP, ("misc", "if_chain", {}), LCG, SAVESIB, SCOPED, WALK, SPFLAG, CLEARCOH, MODEF, BLOCKT, DETAILS, ("misc", "flag_reset", {}), ("misc", "dead_after_sink", {}), CLEARS],
             "necessary: branch tables agree, target id arithmetic, flag protocol (set/reset), flag reset inside guard, no After code on the final end",
             "R-BLOCK-TABLES(1,3), R-RESOLVER-DETAILS, R-FLAG-RESET, R-DEAD-AFTER-SINK, R-RESOLVE-CLEARS, R-LOC-ADDRESS, R-PER-FUNCTION-STATE.",
             "exactly-once at run time.",
             "table agreement + path enumeration"),
    "C21": P([ENCW, INJAT, EMITORD, FLF, SCOPED, FINISH, MODESET, SIB, MODEHELP, LCG, WALK, SPFLAG, CLEARCOH, MODEF, BLOCKT, DETAILS, CLEARS, CLEARCOH],
             "necessary: opener stack, delete_block bookkeeping, retain_end, every visited instruction emptied while deleting",
             "R-BLOCK-TABLES(1,2), R-RESOLVER-DETAILS, R-RESOLVE-CLEARS, R-CLEAR-COHERENT.",
             "textual result.",
             "table agreement + guarded-write analysis"),
    "C22": P([ENCW, MODRESET, EMITORD, FLF, FINISH, MODEHELP, MODESET, ("special", "block_tables", {"openers_clause": False}), LCG, WALK, SAVESIB, SCOPED, ("special", "special_flag", {}), CLEARS, ("special", "entry_preserve", {}), MODEF, SIB, ("misc", "dead_after_sink", {}), ("modes", "has_instr_cover", {}), CLEARCOH, INJAT],
             "necessary set: the is-special result is never dropped, lowered lists are cleared with the matching mode, the saved entry body is never overwritten, mode→list dispatch, no dead After sink",
             "R-SPECIAL-FLAG, R-RESOLVE-CLEARS, R-ENTRY-PRESERVE, R-MODE-FIELD, R-SIBLING(instrumenter), R-DEAD-AFTER-SINK, R-HAS-INSTR, R-CLEAR-COHERENT, R-INJECT-AT.",
             "that every accepted special injection appears in the bytes for every body.",
             "result-use analysis + guarded-write analysis"),
    "C23": P([LOCADDR, TAGU, SIB, MODESET, TT_BOTH, ADDFLOW, SCRATCH, MAPUNC, FULLIT, ("emit", "tag_emit", {}), MODEF, ("misc", "type_dedup", {})],
             "necessary: InjectType↔Injection pairing, guards, parse-path tags are None, probe bodies collected after remapping",
             "R-TAG-EMIT (incl. R-PARSE-TAG-NONE), R-MODE-FIELD, R-TYPE-DEDUP (a parsed type is never overwritten by a tagged request for the same signature).",
             "record multiset over histories.",
             "pairing table + dominance by statement order"),
    "C24": P([("misc", "builder_flow", {}), ("reindex", "refers_exh", {"kind": "memory"}), ("reindex", "refers_exh", {"kind": "func"}), ("reindex", "refers_exh", {"kind": "global"}), MAPARGS, ("opcode", "opcode_table", {}), TT_AUX, TT_BOTH],
             "finite obligations: 200 helpers × {one inject on self, variant = reviewed table, each immediate from one parameter through bit-preserving conversions}; the conversion tables the helpers rely on are decided by R-TYPE-TABLE",
             "R-OPCODE-TABLE for all helpers, R-TYPE-TABLE(aux) for BlockType/HeapType conversions, writer agreement for DataType.",
             "Inject::inject implementations (C15/C12) and dependency From impls (trusted).",
             "abstract interpretation of each helper body; frozen reviewed name→variant table", level="proof"),
    "C25": P([KMIX, ("misc", "builder_flow", {}), FRESH, IDSPACE, SKIPPASS, ITCFG, FULLIT, ("iters", "skip_loop", {}), ("iters", "coupled_state", {}), ("iters", "index_sites", {})],
             "necessary: the skip loop can only stop on an unskipped function or past the end; cursor and instruction bound move together; no unguarded index in the sub-iterators",
             "R-SKIP-LOOP, R-COUPLED-STATE, R-ITER-INDEX.",
             "exactly-once visiting over all skip lists.",
             "loop-exit condition analysis + path enumeration + MIR index sites"),
    "C26": P([("iters", "skip_loop", {}), SKIPMEM, LOCADDR, IDSPACE, COUPCNT, SKIPPASS, ("iters", "comp_next_fallthrough", {}), ("component", "section_pairing", {}), ITCFG, FULLIT, SIB, ("iters", "coupled_state", {}), ("mutators", "who_may_call", {})],
             "ModuleIterator and ComponentIterator perform the same operation on the same LocalFunction API for every trait method; module cursor changes rebuild the module sub-iterator from metadata and skip list",
             "R-SIBLING(instrumenter), R-COUPLED-STATE, R-WHOMAYCALL, R-SKIP-LOOP, R-SKIP-MEMBERSHIP, R-LOC-ADDRESS.",
             "visit-sequence equality over all components and skip maps.",
             "sibling effect summaries"),
    "C27": P([FFC, ARGN, CONVSIB, COUPCNT, ("component", "name_section_guard", {}), NEST, RECD, FULLIT, ("component", "variant_method_tables", {}), ("component", "section_pairing", {}), SCRATCH],
             "necessary: each defined-type / canonical-function variant is re-encoded through its own builder method; each section tag replays the vector it recorded with its own cursor",
             "R-VARIANT-METHOD (2 + 1 tables, 67 arms), R-SECTION-PAIRING (12 tags), R-LOOP-SCRATCH.",
             "equality of the decoded component for every input (R-NEST-TRACK decides the push/pop discipline of the nesting stack structurally: one level opened per nested-section payload on every path, one closed per End).",
             "variant→method correspondence + tag↔vector pairing"),
    "C28": P([("component", "section_pairing", {}), ENCW, EMITALL, FULLIT, ("fields", "custom_sections", {})],
             "necessary: one owner of the custom-section list, order-preserving API, name/data copied to name/data, forward emission",
             "R-CUSTOM-SECTIONS.",
             "byte equality of the emitted sections over edit sequences.",
             "who-may-write + field pairing"),
    "C29": P([IDSPACE, SCRATCH, FULLIT, EM((), names=True), ("misc", "name_dispatch", {}), ("fields", "name_pairing", {}), ("fields", "name_index_selects", {}), ("fields", "namemap_copy_complete", {}), IMPORD],
             "necessary: index-keyed name maps must not be emitted with pre-edit indices; naming dispatches on kind; each name kind re-emitted from where it was stored",
             "R-EMIT-MAPPED(names), R-NAME-DISPATCH, R-NAME-PAIRING, R-NAME-INDEX, R-NAMEMAP-COPY, R-IMPORT-ORDINAL.",
             "name equality over histories.",
             "sink provenance"),
    "C30": P([("misc", "delete_pairing", {}), WCOPY, EMITALL, RECALC, EM(("memory",)), MAPARGS, ("fields", "struct_copy_pairing", {}), CONSTEXPR, TT_BOTH, ("misc", "additions", {}), ("mutators", "swap_flows", {}), ("mutators", "who_may_call", {}), FRESH],
             "bit-exact constant expressions, exact types, parameter→field flows of the module-level adders",
             "R-CONSTEXPR-TABLE, R-TYPE-TABLE incl. the wasmparser writer used by add_global, R-ADD-FLOW, R-SWAP, R-WHOMAYCALL, R-FRESH-ID.",
             "decoded equality of whole modules.",
             "abstract interpretation of match tables + name-aligned flow lint"),
}
