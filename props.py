"""Property → rules registry (see DESIGN.md §4).  Single source for MANIFEST.json."""

FIX_COMMITS = []

NOT_APPLICABLE = {
    "C16": "observational equivalence of original and instrumented programs under execution (results, traps, memory/global state, event timing) for every generated program and argument vector: no clause is a fact about the shape of wirm's code beyond what C15/C17-C22 already claim; deciding it needs an interpreter or a semantics-level proof of the lowering, i.e. a different technique family",
}

TB = ("trusted base: rustc nightly typeck/HIR/MIR and Instance::try_resolve; nightly and stable agree on this crate; "
      "wasmparser/wasm_encoder behave as their types say; reviewed tables under /verif/tables. ")


def P(rules, text, decided, not_decided, technique, level="other"):
    return {
        "level": level,
        "rules": rules,
        "text": text,
        "note": TB + "Decided: " + decided + " NOT decided (behavioural remainder, not claimed): " + not_decided,
        "technique": technique,
    }


TT_WE = ("typetable", "type_table", {"writers": ("wasm_encoder",), "agreement": False})
TT_BOTH = ("typetable", "type_table", {})
TT_AUX = ("typetable", "storage_block_heap_tables", {})
CONSTEXPR = ("constexpr", "constexpr_table", {})

PROPS = {
    "C01": P([TT_WE, TT_AUX, CONSTEXPR],
             "necessary-condition lint: every value type of the stated profile survives the reader→writer tables; constant-expression operators are re-emitted as themselves",
             "R-TYPE-TABLE (wasm_encoder writer), aux tables, R-CONSTEXPR-TABLE.",
             "that the whole output validates for every module.",
             "abstract interpretation of match tables over a finite type domain"),
    "C03": P([("nopanic", "nopanic", {})],
             "sound over-approximation: every MIR panic edge on a resolved local call path from the four parse roots is enumerated; guard idioms discharge; the rest are reported",
             "R-NOPANIC over the local call graph (65 functions today), R-PAYLOAD-EXH.",
             "panics inside dependencies (trusted to honour Result contracts); aborts (OOM/stack).",
             "MIR panic-edge enumeration + call-graph reachability"),
    "C04": P([("hashorder", "hashorder", {})],
             "every hash-order source in the crate is enumerated by resolved receiver type and its consumer classified; no time/env/thread/random call is reachable from encode",
             "R-HASHORDER (6 sites today) + zero-expected nondeterminism sources on the encode call graph.",
             "nothing of note for safe single-threaded Rust beyond the enumerated sources.",
             "resolved-callee enumeration + loop-body effect classification"),
    "C08": P([("reindex", "refers_exh", {"kind": "memory"}), ("reindex", "fix_op_dispatch", {})],
             "exhaustiveness of the memory re-index predicate/updater against the Operator ADT of the build",
             "R-REFERS-EXH(memory), R-FIXOP-DISPATCH.",
             "that reorganise computes the right permutation for every history; validity of the output.",
             "ADT-driven match exhaustiveness"),
    "C15": P([("modes", "mode_field", {}), ("modes", "has_instr_cover", {}), ("modes", "emit_order", {}),
              ("siblings", "instrumenter_siblings", {})],
             "structural whole of the plain-mode lowering: mode→list dispatch, has_instr coverage, emission order on every path, sibling agreement of the injection APIs",
             "R-MODE-FIELD, R-HAS-INSTR, R-EMIT-ORDER, R-SIBLING(instrumenter).",
             "textual equality on concrete programs (a consequence).",
             "path enumeration over structured HIR + sibling effect summaries"),
    "C22": P([("special", "special_flag", {}), ("special", "resolve_clears", {}), ("special", "entry_preserve", {}),
              ("modes", "mode_field", {}), ("siblings", "instrumenter_siblings", {})],
             "necessary set: the is-special result is never dropped, lowered lists are cleared with the matching mode, the saved entry body is never overwritten, mode→list dispatch",
             "R-SPECIAL-FLAG, R-RESOLVE-CLEARS, R-ENTRY-PRESERVE, R-MODE-FIELD, R-SIBLING(instrumenter).",
             "that every accepted special injection appears in the bytes for every body.",
             "result-use analysis + guarded-write analysis"),
    "C24": P([("opcode", "opcode_table", {}), TT_AUX, TT_BOTH],
             "finite obligations: 200 helpers × {one inject on self, variant = reviewed table, each immediate from one parameter through bit-preserving conversions}; the conversion tables the helpers rely on are decided by R-TYPE-TABLE",
             "R-OPCODE-TABLE for all helpers, R-TYPE-TABLE(aux) for BlockType/HeapType conversions, writer agreement for DataType.",
             "Inject::inject implementations (C15/C12) and dependency From impls (trusted).",
             "abstract interpretation of each helper body; frozen reviewed name→variant table", level="proof"),
    "C26": P([("siblings", "instrumenter_siblings", {})],
             "ModuleIterator and ComponentIterator perform the same operation on the same LocalFunction API for every trait method",
             "R-SIBLING(instrumenter).",
             "visit-sequence equality over all components and skip maps.",
             "sibling effect summaries"),
    "C30": P([CONSTEXPR, TT_BOTH],
             "bit-exact constant expressions and exact types for module-level additions",
             "R-CONSTEXPR-TABLE, R-TYPE-TABLE incl. the wasmparser writer used by add_global.",
             "decoded equality of whole modules.",
             "abstract interpretation of match tables"),
}
