#!/usr/bin/env python3
"""Regenerate MANIFEST.json from props.py (single source of truth for claimed checks)."""
import json
import os
import sys

VERIF = os.path.dirname(os.path.abspath(__file__))
sys.path.insert(0, VERIF)
import props  # noqa: E402

ALL = ["C%02d" % i for i in range(1, 31)]

manifest = {
    "version": 1,
    "setup_cmd": "cd /verif && ./setup.sh",
    "hooks": {
        "guard": "wirm_verif",
        "enable": "none needed: the checks analyse the compiler's typed HIR/MIR of the unmodified build (cargo +nightly check --lib with RUSTC_WORKSPACE_WRAPPER=/verif/driver/target/release/orca-facts); no hook code exists in /repo",
        "baseline_off_cmd": "cd /repo && cargo test --workspace --no-fail-fast --offline",
        "source_commits": props.FIX_COMMITS,
        "add_only": True,
    },
    "engines": [
        {
            "name": "orca-facts + rules",
            "path": "/verif/driver, /verif/check.py, /verif/rules, /verif/vlib, /verif/tables",
            "serves_properties": sorted(props.PROPS),
            "kind_free_text": "static analysis: rustc_private driver dumps type-checked HIR + MIR(opt-level 0) + ADT definitions of crate wirm and of wasmparser/wasm_encoder; repository-specific rules in Python (table extraction + abstract interpretation of match tables, path enumeration over the structured HIR, MIR call-graph reachability and panic-edge enumeration, sibling effect summaries, who-may-call / who-may-write)",
        }
    ],
    "checks": [],
    "not_applicable": [],
    "notes": "Every check decides *structural necessary conditions* of its property from /repo's current source (see DESIGN.md §4 for the clause list per property and what is explicitly not decided). Exit 2 / ERROR = checker fails closed (missing anchor, count below floor, extractor failure).",
}
# the rule names actually evaluated per property (so that level_note cannot drift from props.py)
from vlib import facts as _facts  # noqa: E402
import check as _check  # noqa: E402
_F = _facts.load(None)
RULES_OF = {}
for pid in props.PROPS:
    RULES_OF[pid] = []
    for r_ in _check.run_rules(pid, _F, "quick"):
        if r_.rule not in RULES_OF[pid]:
            RULES_OF[pid].append(r_.rule)

for pid in ALL:
    if pid in props.PROPS:
        sp = props.PROPS[pid]
        manifest["checks"].append({
            "property_id": pid,
            "quick_cmd": "python3 /verif/check.py %s --tier quick" % pid,
            "thorough_cmd": "python3 /verif/check.py %s --tier thorough" % pid,
            "evidence_file": "/verif/evidence/%s.json" % pid,
            "replay_cmd_template": "python3 /verif/check.py %s --replay {path}" % pid,
            "engine": "orca-facts + rules",
            "level_claimed": {
                "category": sp["level"],
                "text": sp["text"],
                "design_ref": "DESIGN.md §4 " + pid,
            },
            "level_note": sp["note"] + " Rules evaluated by this check (DESIGN.md §3): " + ", ".join(RULES_OF[pid]) + ".",
            "technique": sp["technique"],
        })
    else:
        manifest["not_applicable"].append({"property_id": pid, "reason": props.NOT_APPLICABLE.get(pid, "no sound static rule built yet for this property (see DESIGN.md)")})

with open(os.path.join(VERIF, "MANIFEST.json"), "w") as fh:
    json.dump(manifest, fh, indent=1)
print("MANIFEST.json: %d checks, %d not applicable" % (len(manifest["checks"]), len(manifest["not_applicable"])))

# DESIGN.md §4: generated property → rules table
import re  # noqa: E402
dp = os.path.join(VERIF, "DESIGN.md")
ds = open(dp).read()
rows = ["| property | level | rules evaluated by its check | obligations today |", "|---|---|---|---|"]
for pid in ALL:
    if pid in props.PROPS:
        n_ob = sum(r_.obligations for r_ in _check.run_rules(pid, _F, "quick"))
        rows.append("| %s | %s | %s | %d |" % (pid, props.PROPS[pid]["level"], ", ".join(RULES_OF[pid]), n_ob))
    else:
        rows.append("| %s | not applicable | — | — |" % pid)
ds = re.sub(r"<!-- PROP-TABLE-BEGIN -->.*<!-- PROP-TABLE-END -->", "<!-- PROP-TABLE-BEGIN -->\n" + "\n".join(rows) + "\n<!-- PROP-TABLE-END -->", ds, flags=re.S)
open(dp, "w").write(ds)
