#!/usr/bin/env python3
"""Build the rule self-test corpus /verif/mutants/<name>/{patch.diff,meta.json} from textual edit specs,
in a scratch worktree of /repo (default /tmp/mutwt).  Each mutant must still compile (cargo check).
Not part of any registered check; the corpus it writes is what selftest.py replays."""
import json
import os
import subprocess
import sys

WT = os.environ.get("MUTWT", "/tmp/mutwt")
OUT = "/verif/mutants"
ENV = dict(os.environ, CARGO_TARGET_DIR="/tmp/mutwt_target", CARGO_NET_OFFLINE="true")

M = []


def mut(name, props, file, old, new, mention=(), expect="violation", count=1, why=""):
    M.append(dict(name=name, props=props, file=file, old=old, new=new, mention=list(mention), expect=expect, count=count, why=why))


W = "src/ir/wrappers.rs"
MOD = "src/ir/module/mod.rs"
TY = "src/ir/types.rs"
OPC = "src/opcode.rs"
FUN = "src/ir/function.rs"
MF = "src/ir/module/module_functions.rs"

mut("refers-memory-drop-memoryfill", ["C08"], W, "        Operator::MemoryFill { .. } |\n", "", ["MemoryFill"], why="predicate misses an operator")
mut("update-global-silent-miss", ["C07", "C09"], W, '                None => panic!("Deleted global!"),\n            }\n        }\n        _ => panic!("Operation doesn\'t need to be checked for global IDs!"),',
    '                None => {}\n            }\n        }\n        _ => panic!("Operation doesn\'t need to be checked for global IDs!"),', ["R-MISS-LOUD"], why="dangling global reference no longer fails loudly")
mut("memories-delete-no-recalc", ["C08", "C09"], "src/ir/module/module_memories.rs", "    pub(crate) fn delete(&mut self, mem_id: MemoryID) {\n        self.recalculate_ids = true;\n", "    pub(crate) fn delete(&mut self, mem_id: MemoryID) {\n", ["R-RECALC-SET", "Memories"], why="delete does not arm re-indexing")
mut("export-func-raw-index", ["C06"], MOD, "                                *func_mapping.get(&(export.index)).unwrap(),\n", "                                export.index,\n", ["export Func"], why="exported function index not remapped")
mut("memory-copy-swapped-immediates", ["C24"], OPC, "            dst_mem,\n            src_mem,\n        });", "            dst_mem: src_mem,\n            src_mem: dst_mem,\n        });", ["memory_copy"], why="helper swaps immediates")
mut("i32-lte-signed-wrong-opcode", ["C24"], OPC, "self.inject(Operator::I32LeS);", "self.inject(Operator::I32LtS);", ["i32_lte_signed"], why="helper emits a different operator")
mut("local-tee-emits-local-set", ["C24"], OPC, "self.inject(Operator::LocalTee { local_index: *idx });", "self.inject(Operator::LocalSet { local_index: *idx });", ["local_tee"])
mut("clear-instr-wrong-list", ["C15", "C22"], TY, "            InstrumentationMode::After => self.after.instrs.clear(),", "            InstrumentationMode::After => self.before.instrs.clear(),", ["R-MODE-FIELD", "clear_instr"], why="mode dispatch touches the wrong list")
mut("drop-clear-of-block-exit", ["C19", "C05"], MOD, "                                BlockExit,\n                            );\n", "                                BlockEntry,\n                            );\n", ["R-RESOLVE-CLEARS"], why="lowered block-exit list not cleared")
mut("finish-module-results-as-params", ["C12"], FUN, "        let id = module.add_local_func_with_tag(\n            self.name,\n            &self.params,\n            &self.results,", "        let id = module.add_local_func_with_tag(\n            self.name,\n            &self.results,\n            &self.results,", ["R-BUILDER-FLOW"], why="builder passes results as params")
mut("block-entry-drops-loop", ["C18"], MOD, "        Operator::Block { .. }\n        | Operator::Loop { .. }\n        | Operator::If { .. }\n        | Operator::Else { .. } => {\n            // just inject immediately after the start of the block",
    "        Operator::Block { .. }\n        | Operator::If { .. }\n        | Operator::Else { .. } => {\n            // just inject immediately after the start of the block", ["resolve_block_entry"], why="resolver handles fewer block ops than the accepting predicate")
mut("new-raw-global-adder", ["C07"], MOD, "    /// Add a new global to the module.\n    pub(crate) fn add_global_internal",
    "    /// Add a prepared global.\n    pub fn add_prepared_global(&mut self, global: Global) -> GlobalID {\n        self.globals.add(global)\n    }\n\n    /// Add a new global to the module.\n    pub(crate) fn add_global_internal", ["R-WHOMAYCALL", "add_prepared_global"], why="new caller bypasses the counter")
mut("parse-unwrap-payload", ["C03"], MOD, "        for payload in parser.parse_all(wasm) {\n            let payload = payload?;\n            match payload {\n                Payload::ImportSection", "        for payload in parser.parse_all(wasm) {\n            let payload = payload.unwrap();\n            match payload {\n                Payload::ImportSection", ["R-NOPANIC", "payload.unwrap()"], why="? replaced by unwrap in parse")
mut("section-order-export-before-global", ["C01"], MOD, "        if !self.globals.is_empty() {\n            let mut globals = wasm_encoder::GlobalSection::new();", "        if !self.exports.is_empty() {\n            let mut early = wasm_encoder::ExportSection::new();\n            early.export(\"x\", wasm_encoder::ExportKind::Func, 0);\n            module.section(&early);\n        }\n        if !self.globals.is_empty() {\n            let mut globals = wasm_encoder::GlobalSection::new();", ["R-SECTION-ORDER"], why="sections out of binary-format order")
mut("anynull-encoded-non-nullable", ["C01", "C02"], TY, "            DataType::AnyNull => wasm_encoder::ValType::Ref(wasm_encoder::RefType {\n                nullable: true,", "            DataType::AnyNull => wasm_encoder::ValType::Ref(wasm_encoder::RefType {\n                nullable: false,", ["R-TYPE-TABLE", "(ref null any)"], why="writer table loses nullability")
mut("array-new-fixed-swapped", ["C30", "C02"], TY, "                    wasm_encoder::Instruction::ArrayNewFixed {\n                        array_size: *array_size,\n                        array_type_index: *array_type_index,", "                    wasm_encoder::Instruction::ArrayNewFixed {\n                        array_size: *array_type_index,\n                        array_type_index: *array_size,", ["R-CONSTEXPR-TABLE", "ArrayNewFixed"], why="const-expr immediates swapped")
mut("f32-const-lossy", ["C30"], TY, "wasm_encoder::Instruction::F32Const(Ieee32::from(*v)).encode(&mut bytes)", "wasm_encoder::Instruction::F32Const(Ieee32::from(*v + 0.0)).encode(&mut bytes)", ["F32Const"], why="constant no longer bit-preserving")
mut("delete-func-wrong-import", ["C09"], MOD, "        self.functions.delete(function_id);\n        if let FuncKind::Import(ImportedFunction { import_id, .. }) =\n            self.functions.get_kind(function_id)\n        {\n            self.imports.delete(*import_id);", "        self.functions.delete(function_id);\n        if let FuncKind::Import(ImportedFunction { .. }) =\n            self.functions.get_kind(function_id)\n        {\n            self.imports.delete(ImportsID(*function_id));", ["R-DELETE-PAIRING"], why="deletes the import at the function's index")
mut("after-before-op", ["C15"], MOD, "                        // If there are any alternate, encode the alternate\n", "                        if !at_end {\n                            update_ids_and_encode(\n                                &mut after.instrs,\n                                &func_mapping,\n                                &global_mapping,\n                                &memory_mapping,\n                                &mut function,\n                                &mut reencode,\n                            );\n                        }\n                        // If there are any alternate, encode the alternate\n", ["R-EMIT-ORDER"], why="after-list emitted before the instruction")
mut("custom-sections-sorted", ["C28"], TY, "    pub fn add(&mut self, section: CustomSection<'a>) -> CustomSectionID {\n        let id = CustomSectionID(self.custom_sections.len() as u32);\n        self.custom_sections.push(section);", "    pub fn add(&mut self, section: CustomSection<'a>) -> CustomSectionID {\n        let id = CustomSectionID(self.custom_sections.len() as u32);\n        self.custom_sections.push(section);\n        self.custom_sections.sort_by(|a, b| a.name.cmp(b.name));", ["R-CUSTOM-SECTIONS"], why="adding reorders existing custom sections")
mut("names-globals-from-memory-names", ["C02", "C29"], MOD, "        names.globals(&self.global_names);", "        names.globals(&self.memory_names);", ["R-NAME-PAIRING"], why="name subsection emitted from the wrong store")
mut("side-effect-wrong-kind", ["C23"], MOD, "                                InjectType::Memory,\n                                Injection::Memory {", "                                InjectType::Global,\n                                Injection::Memory {", ["R-TAG-EMIT"], why="record filed under the wrong InjectType")
mut("canon-stream-read-as-write", ["C27"], "src/ir/component.rs", "                                canon_sec.stream_read(", "                                canon_sec.stream_write(", ["StreamRead"], why="canonical function re-encoded through a sibling method")
mut("has-instr-ignores-block-entry", ["C22", "C15"], TY, "            || !block_entry.instrs.is_empty()\n            || !block_exit.instrs.is_empty()\n            || !block_alt.is_none() // Some(vec![]) means block removal!", "            || !block_exit.instrs.is_empty()\n            || !block_alt.is_none() // Some(vec![]) means block removal!", ["R-HAS-INSTR", "block_entry"], why="has_instr skips a list (compiles with an unused-variable warning)")
mut("local-function-drops-special-flag", ["C22"], MF, "            let is_special = self.body.instructions[instr_idx].add_instr(instr);\n            // remember if we injected a special instrumentation (to be resolved before encoding)\n            self.instr_flag.has_special_instr |= is_special;", "            self.body.instructions[instr_idx].add_instr(instr);", ["R-SPECIAL-FLAG"], why="iterator path drops the is-special result")
mut("next-function-keeps-old-bound", ["C25"], "src/subiterator/module_subiterator.rs", "        if self.curr_idx < self.metadata.len() {\n            self.func_iterator = FuncSubIterator::new(self.get_curr_func().1);\n            true", "        if self.curr_idx < self.metadata.len() {\n            self.func_iterator.curr_instr = 0;\n            true", ["R-COUPLED-STATE", "next_function"], why="cursor moves without resizing the function sub-iterator")
mut("add-type-always-inserts", ["C13"], "src/ir/module/module_types.rs", "        if !already_exists {\n            // add in this type if it's not already been added!\n            self.types.insert(ty_id, ty.clone());", "        {\n            let _ = already_exists;\n            self.types.insert(ty_id, ty.clone());", ["R-TYPE-DEDUP"], why="dedup guard removed")
mut("hash-ignores-shared", ["C13", "C02"], "src/ir/module/module_types.rs", "                params.hash(state);\n                results.hash(state);\n                super_type.hash(state);\n                is_final.hash(state);\n                shared.hash(state);", "                params.hash(state);\n                results.hash(state);\n                super_type.hash(state);\n                is_final.hash(state);\n                let _ = shared;", ["R-FIELDS-COVER"], why="Hash and Eq disagree")
mut("add-local-func-no-counter", ["C12"], MOD, "        self.num_local_functions += 1;\n        self.functions.add_local_func(local_func, name.clone())", "        self.functions.add_local_func(local_func, name.clone())", ["add_local_func_with_tag"], why="function count invariant broken")
mut("global-init-maps-swapped", ["C06", "C07"], MOD, "                        for expr in init_expr.exprs.iter_mut() {\n                            expr.fix_id_mapping(&func_mapping, &global_mapping);", "                        for expr in init_expr.exprs.iter_mut() {\n                            expr.fix_id_mapping(&global_mapping, &func_mapping);", ["R-MAP-ARGS"], why="maps passed in the wrong order (same type)")
mut("add-data-returns-len-after-push", ["C30"], MOD, "        let index = self.data.len();\n        self.data.push(data);\n        DataSegmentID(index as u32)", "        self.data.push(data);\n        let index = self.data.len();\n        DataSegmentID(index as u32)", ["R-ADD-FLOW"], why="returned id is off by one")
mut("hash-order-type-emission", ["C04"], MOD, "                for ty_id in types.iter() {\n                    let ty = self.types.types.get(ty_id).unwrap();", "                for ty_id in types.iter() {\n                    for t in self.types.types.values() {\n                        let _ = self.encode_type(t);\n                        break;\n                    }\n                    let ty = self.types.types.get(ty_id).unwrap();", ["R-HASHORDER"], why="hash-ordered iteration feeds the encoder")
mut("convert-without-delete", ["C10", "C11"], MOD, "        // Delete the associated function\n        self.delete_func(function_id);\n", "", ["flip"], why="kind flipped without deleting / arming re-indexing")
mut("exit-probe-misses-return-call", ["C17"], MOD, "            Operator::ReturnCall {..} |\n", "", ["ReturnCall"], why="exit probe table misses an operator")
mut("func-entry-at-wrong-index", ["C17"], MOD, "    if idx == 0 {\n        // we're at the function entry!", "    if idx == 1 {\n        // we're at the function entry!", ["R-RESOLVER-DETAILS"], why="entry body placed at instruction 1")
mut("flag-set-to-zero-before", ["C20"], MOD, "        .i32_const(1)\n        .local_set(bool_flag_id);", "        .i32_const(0)\n        .local_set(bool_flag_id);", ["create_bool_flag"], why="branch flag protocol broken")
mut("delete-block-from-wrong-source", ["C21"], MOD, "                                    // we've got a match, which injected the alt body. continue to the next instruction\n                                    delete_block = Some(*block_stack.last().unwrap());\n                                    continue;\n                                }\n                            }\n\n                            if delete_block.is_some() {\n                                // delete this block and skip all instrumentation handling (like below)\n                                builder.empty_alternate_at(Location::Module {\n                                    func_idx: FunctionID(0), // not used\n                                    instr_idx: idx,\n                                });\n                                continue;\n                            }\n                        }\n                        Operator::Else => {",
    "                                    // we've got a match, which injected the alt body. continue to the next instruction\n                                    delete_block = Some(block_stack.len() as u32);\n                                    continue;\n                                }\n                            }\n\n                            if delete_block.is_some() {\n                                // delete this block and skip all instrumentation handling (like below)\n                                builder.empty_alternate_at(Location::Module {\n                                    func_idx: FunctionID(0), // not used\n                                    instr_idx: idx,\n                                });\n                                continue;\n                            }\n                        }\n                        Operator::Else => {", ["delete_block"], why="delete_block not taken from the stack top")
# --- neutral edits: must stay silent ------------------------------------------------------
mut("neutral-rename-mapping-local", ["C06", "C07", "C08", "C09"], MOD, None, None, expect="ok", why="rename func_mapping → fmap inside encode_internal only")
mut("neutral-matches-to-match", ["C06"], W, "pub(crate) fn refers_to_func(op: &Operator) -> bool {\n    matches!(\n        op,\n        Operator::Call { .. } | Operator::RefFunc { .. } | Operator::ReturnCall { .. }\n    )\n}",
    "pub(crate) fn refers_to_func(op: &Operator) -> bool {\n    match op {\n        Operator::ReturnCall { .. } => true,\n        Operator::Call { .. } | Operator::RefFunc { .. } => true,\n        _ => false,\n    }\n}", expect="ok", why="matches! rewritten as match, arms reordered")
mut("neutral-extract-helper-delete-func", ["C09", "C06"], MOD, "    pub fn delete_func(&mut self, function_id: FunctionID) {\n        self.functions.delete(function_id);", "    pub fn delete_func(&mut self, function_id: FunctionID) {\n        // (comment added)\n        self.functions.delete(function_id);", expect="ok", why="comment-only change shifts every later line")
mut("neutral-reorder-mode-arms", ["C15", "C22", "C23"], TY, "            InstrumentationMode::Before => {\n                self.before.instrs.clear();\n            }\n            InstrumentationMode::After => self.after.instrs.clear(),", "            InstrumentationMode::After => self.after.instrs.clear(),\n            InstrumentationMode::Before => {\n                self.before.instrs.clear();\n            }", expect="ok", why="arms reordered")


def sh(cmd, **kw):
    return subprocess.run(cmd, cwd=WT, env=ENV, stdout=subprocess.PIPE, stderr=subprocess.STDOUT, text=True, **kw)


def main():
    only = set(sys.argv[1:])
    sh(["git", "checkout", "--", "."])
    for m in M:
        if only and m["name"] not in only:
            continue
        d = os.path.join(OUT, m["name"])
        if m["name"] == "neutral-rename-mapping-local":
            p = os.path.join(WT, MOD)
            t = open(p).read()
            a = t.index("    pub(crate) fn encode_internal(")
            b = t.index("    // ==============================\n    // ==== Module Manipulations ====")
            seg = t[a:b].replace("func_mapping", "fmap")
            # keep the nested fn's parameter name (it is a different function's signature)
            open(p, "w").write(t[:a] + seg + t[b:])
        else:
            p = os.path.join(WT, m["file"])
            t = open(p).read()
            if t.count(m["old"]) < 1:
                print("!! %s: anchor text not found" % m["name"])
                continue
            t = t.replace(m["old"], m["new"], m["count"])
            open(p, "w").write(t)
        c = sh(["cargo", "check", "--offline", "--lib", "--quiet"])
        if c.returncode != 0:
            print("!! %s: does not compile\n%s" % (m["name"], c.stdout[-1500:]))
            sh(["git", "checkout", "--", "."])
            continue
        diff = sh(["git", "diff", "--", "src"]).stdout
        os.makedirs(d, exist_ok=True)
        open(os.path.join(d, "patch.diff"), "w").write(diff)
        json.dump({"properties": m["props"], "expect": m["expect"], "must_mention": m["mention"], "why": m["why"]}, open(os.path.join(d, "meta.json"), "w"), indent=1)
        sh(["git", "checkout", "--", "."])
        print("ok  %s" % m["name"])


main()
