#!/usr/bin/env python3
"""Regenerate tables/floors.json from the counts the rules report on the *reviewed* tree (run only after reading the
counts: floors are 'numbers I counted').  ADT-/API-determined counts are exact; site counts are floored at 70 %
(call-graph sizes and sink counts at 50 %)."""
import json, os, sys
VERIF = os.path.dirname(os.path.dirname(os.path.abspath(__file__)))
sys.path.insert(0, VERIF)
from vlib import facts
import props, check
F = facts.load(None)
EXACT = ("adt_variants", "helpers", "payload_variants", "types_variants", "initinstr_variants", "domain_points", "datatype_points", "id_newtypes", "abstract_heap_variants",
         "adt_openers", "adt_branch_ops", "adt_exit_ops", "roots", "name_kinds",
         "ComponentDefinedType@encode_comp", "ComponentDefinedType@convert_component_type", "CanonicalFunction@encode_comp", "const_operators", "section_calls",
         "dispatch_sites", "compared_methods", "inject_at_impls", "function_walks", "add_import_arms", "guards")
SKIP = ("dispatches", "debug_only_overflow_checks", "panic_sites", "in_place_flippers", "inplace_remap_sites", "index_sites", "pending_containers", "predicate_variants", "updater_variants",
        "kind_filtered_enumerations", "scratch_buffers", "to_local_flippers")
HALF = ("encode_reachable_fns", "reachable_fns", "encode_calls_scanned", "sinks", "iterator_calls_scanned", "loops", "import_loops", "config_reads")
fl = {"_comment": "Lower bounds, per property, on what each rule must have seen (fail closed: a count below its floor is a checker ERROR, exit 2, never a pass). ADT-/API-determined counts are the numbers confirmed by reading the pinned tree; site counts, which a harmless refactoring may shrink (helpers extracted, arms merged), are only required to be non-zero (a rule that sees no instance at all fails closed). Regenerate with tools/gen_floors.py after reviewing the counts."}
for p in sorted(props.PROPS):
    for r in check.run_rules(p, F, "quick"):
        for name, v in list(r.counts.items()) + [("#obligations", r.obligations)]:
            k = "%s:%s.%s" % (p, r.rule, name)
            if name in EXACT:
                fl[k] = v
            elif name in SKIP:
                continue
            elif name == "#obligations" and v >= 1:
                # site counts shrink or vanish under harmless refactoring (helpers extracted, arms merged, a literal replaced by
                # a constructor call): only a rule that discharges no obligation at all fails closed
                fl[k] = 1
json.dump(fl, open(os.path.join(VERIF, "tables", "floors.json"), "w"), indent=1)
print(len(fl), "floors")
