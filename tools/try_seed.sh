#!/bin/bash
# try_seed.sh <dir-with-patch.diff-and-seed_demo.rs> <property> [more properties...]
# 1. in a scratch worktree of /repo HEAD: demo passes without the patch, fails with it, baseline stays green
# 2. on /repo itself: apply the patch, run the property's check(s), undo
# (tooling for building /verif/seeded; not part of any registered check)
set -u
D=$1; shift
PROPS="$@"
WT=$(mktemp -d /tmp/seedwt-XXXXXX)
git -C /repo worktree add -q --detach "$WT/wt" HEAD || exit 2
cd "$WT/wt"
cp "$D/seed_demo.rs" tests/seed_demo.rs
export CARGO_TARGET_DIR="$WT/target" CARGO_NET_OFFLINE=true
echo "--- demo WITHOUT patch (expect ok)"
cargo test --offline --test seed_demo 2>&1 | grep -E "^test result|^error" | head -3
git apply "$D/patch.diff" || { echo "PATCH DOES NOT APPLY"; }
echo "--- demo WITH patch (expect FAILED)"
cargo test --offline --test seed_demo 2>&1 | grep -E "^test result|^error" | head -3
echo "--- baseline WITH patch (expect 111/111)"
rm -f tests/seed_demo.rs
python3 /verif/tools/run_baseline.py "$WT/wt" --target-dir "$WT/target" | head -5
cd /
git -C /repo worktree remove --force "$WT/wt"
rm -rf "$WT"
echo "--- checks on /repo with the patch applied"
git -C /repo apply "$D/patch.diff" || exit 2
for p in $PROPS; do
  python3 /verif/check.py $p --no-evidence 2>&1 | grep -E "violation:|^OK|^VIOLATION|^ERROR" | cut -c1-400
done
git -C /repo checkout -- .
git -C /repo status --short | head -3
