#!/usr/bin/env python3
"""Regenerate DESIGN.md §11 (between the SEED-TABLE markers) from /verif/seeded/*/meta.json."""
import json, os, glob, re
VERIF = os.path.dirname(os.path.dirname(os.path.abspath(__file__)))
rows = []
for m in sorted(glob.glob(os.path.join(VERIF, "seeded", "*", "meta.json"))):
    d = json.load(open(m))
    name = os.path.basename(os.path.dirname(m))
    det = d.get("detection", {})
    fires = det.get("checks_that_fire", {})
    fs = det.get("first_sight")
    rules = sorted({k.split(" | ")[0] for v in fires.values() for k in v})
    rows.append((name, d["property"], d.get("round", 1), (d.get("summary") or "").replace("|", "/").replace("\n", " ")[:150], det.get("target_property_check_fires"), sorted(fires), rules,
                 None if fs is None else fs.get("target_property_check_fired"), None if fs is None else fs.get("checks_that_fired")))
r1 = [r for r in rows if r[2] == 1]
r2 = [r for r in rows if r[2] == 2]
out = []
out.append("Every change below was written by a fresh sub-agent that saw only the property text and a scratch worktree of")
out.append("`/repo` (nothing from `/verif`), and was kept only after I confirmed in a scratch worktree that its demonstration")
out.append("passes without the patch, fails with it, and that the 111 baseline tests stay green with it")
out.append("(`tools/validate_seeds.py`; results in each `seeded/<id>/meta.json`). Detection was then measured the prescribed way:")
out.append("`git -C /repo apply`, all checks on `/repo` itself, `git -C /repo checkout -- .` (`tools/build_seeded.py`).")
out.append("")
out.append("* **Round 1** (%d changes, 3 per claimed property; C27-1 was dropped when fix 3e31ca3 removed the code it edited):" % len(r1))
out.append("  the rule set of the first session caught 13 of the first 24 by the target property's check; every miss was read and")
out.append("  turned into a rule about the repository's invariant (§3 \"Rules added in round 2\"), not about the patch. Today all")
out.append("  %d are caught by the target property's own check." % sum(1 for r in r1 if r[4]))
n2 = len(r2)
fs_t = sum(1 for r in r2 if r[7])
fs_a = sum(1 for r in r2 if r[8])
out.append("* **Round 2** (%d further changes from new agents that were told which sites round 1 had used and asked for different" % n2)
out.append("  mechanisms): evaluated *before* any rule was touched in response — the honest generalisation estimate of this kind of")
out.append("  machinery — **%d/%d (%d%%) were caught at first sight by the target property's check and %d/%d (%d%%) by some claimed" % (fs_t, n2, round(100.0 * fs_t / n2), fs_a, n2, round(100.0 * fs_a / n2)))
out.append("  property's check** (the batches were evaluated in sequence, so later batches already benefited from rules added for")
out.append("  earlier ones; two further changes made a rule fail closed with ERROR instead of a violation, which was repaired).")
out.append("  After strengthening, %d/%d are caught by the target property's check and %d/%d by some check." % (sum(1 for r in r2 if r[4]), n2, sum(1 for r in r2 if r[5]), n2))
out.append("  What this says: a repository-specific lint set catches the classes of mistakes it has rules for, and roughly every")
out.append("  second *new* kind of realistic breakage needs a new (small) rule; the value of the corpus is that each such rule is")
out.append("  now in place, floored and self-tested.")
r3 = [r for r in rows if r[2] == 3]
if r3:
    n3 = len(r3)
    f3t = sum(1 for r in r3 if r[7])
    f3a = sum(1 for r in r3 if r[8])
    out.append("* **Round 3** (%d changes; the agents were shown the six sites already used per property and asked for other mechanisms," % n3)
    out.append("  less central helpers and history- or input-dependent breakage).  Evaluated all at once with the rules frozen at commit")
    out.append("  82e06b2, before anything was changed: **%d/%d (%d%%) caught at first sight by the target property's check, %d/%d (%d%%)" % (f3t, n3, round(100.0 * f3t / n3), f3a, n3, round(100.0 * f3a / n3)))
    out.append("  by some claimed property's check** — this is the clean generalisation number (no batch benefited from an earlier one).")
    out.append("  Response: where the rule that fired for another property states a condition the target property also needs, it was")
    out.append("  added to the target's rule list; six new rules (§3 \"Rules added in round 3\"); now %d/%d are caught by the target" % (sum(1 for r in r3 if r[4]), n3))
    out.append("  property's check and %d/%d by some check.  The rest are listed in §11b with the reason no structural clause was found." % (sum(1 for r in r3 if r[5]), n3))
r4 = [r for r in rows if r[2] == 4]
if r4:
    n4 = len(r4)
    f4t = sum(1 for r in r4 if r[7])
    f4a = sum(1 for r in r4 if r[8])
    out.append("* **Round 4** (%d changes for the ten properties whose checks had missed most in round 3; the agents were shown nine used" % n4)
    out.append("  sites per property).  First sight with the rules frozen at commit 09eacd6: **%d/%d (%d%%) by the target property's check," % (f4t, n4, round(100.0 * f4t / n4)))
    out.append("  %d/%d (%d%%) by some check**.  After the response (rule assignments; R-WRITE-TO-COPY, R-EXPORT-KIND, the GetID clause of" % (f4a, n4, round(100.0 * f4a / n4)))
    out.append("  R-IDSPACE): %d/%d by the target check, %d/%d by some check." % (sum(1 for r in r4 if r[4]), n4, sum(1 for r in r4 if r[5]), n4))
r5 = [r for r in rows if r[2] == 5]
if r5:
    n5 = len(r5)
    f5t = sum(1 for r in r5 if r[7])
    f5a = sum(1 for r in r5 if r[8])
    out.append("* **Round 5** (%d changes for ten properties not revisited in round 4: C03–C05, C07, C08, C10, C12, C13, C15, C17; nine used" % n5)
    out.append("  sites shown per property).  First sight with the rules frozen at commit f5fe050: **%d/%d (%d%%) by the target property's check," % (f5t, n5, round(100.0 * f5t / n5)))
    out.append("  %d/%d (%d%%) by some check**.  After the response (R-MODIFIER-RESET, R-REINDEXABLE-IMPL, R-PARSE-RECURSION, new clauses of" % (f5a, n5, round(100.0 * f5a / n5)))
    out.append("  R-FRESH-ID, R-TYPE-DEDUP, R-BUILDER-FLOW, R-ENCODE-WRITES, R-REORG-INV; rule assignments): %d/%d by the target check, %d/%d by" % (sum(1 for r in r5 if r[4]), n5, sum(1 for r in r5 if r[5]), n5))
    out.append("  some check.  Two sub-agents of this round also reported defects of the *unmodified* tree, both confirmed and repaired")
    out.append("  (3e81fe2, 0648151; §5b) — eight older seeds and nine neutral patches that edit the repaired functions were ported to the")
    out.append("  new tree by hand and re-validated.")
r6 = [r for r in rows if r[2] == 6]
if r6:
    n6 = len(r6)
    f6t = sum(1 for r in r6 if r[7])
    f6a = sum(1 for r in r6 if r[8])
    out.append("* **Round 6** (%d changes for the nine claimed properties not revisited in rounds 4–5: C18, C19, C21–C24, C27, C28, C30)." % n6)
    out.append("  First sight with the rules frozen at commit f245dee: **%d/%d (%d%%) by the target property's check, %d/%d (%d%%) by some" % (f6t, n6, round(100.0 * f6t / n6), f6a, n6, round(100.0 * f6a / n6)))
    out.append("  check** — the lowest first-sight rate of all rounds: these properties (side-effect report, component round trip,")
    out.append("  custom sections, block modes) had the thinnest rule sets.  After the response (§3 \"Rules added in round 6\"): %d/%d by" % (sum(1 for r in r6 if r[4]), n6))
    out.append("  the target check, %d/%d by some check.  A note in one agent's report led to the third defect of the unmodified tree" % (sum(1 for r in r6 if r[5]), n6))
    out.append("  found this way (661c1df; §5b).")
r7 = [r for r in rows if r[2] == 7]
if r7:
    n7 = len(r7)
    f7t = sum(1 for r in r7 if r[7])
    f7a = sum(1 for r in r7 if r[8])
    out.append("* **Round 7** (%d changes for the six properties with the lowest first-sight rates so far: C21, C23, C24, C27, C28, C30;" % n7)
    out.append("  twelve used sites shown per property).  First sight with the rules frozen at commit db8c0ba: **%d/%d (%d%%) by the target" % (f7t, n7, round(100.0 * f7t / n7)))
    out.append("  property's check, %d/%d (%d%%) by some check**; after the response %d/%d and %d/%d.  One new clause written for a seed" % (f7a, n7, round(100.0 * f7a / n7), sum(1 for r in r7 if r[4]), n7, sum(1 for r in r7 if r[5]), n7))
    out.append("  (records share the emission's `deleted` test) reported the *unmodified* import loop — the fourth defect found with the")
    out.append("  sub-agents' help (a5e88fa; §5b).")
r8 = [r for r in rows if r[2] == 8]
if r8:
    n8 = len(r8)
    f8t = sum(1 for r in r8 if r[7])
    f8a = sum(1 for r in r8 if r[8])
    out.append("* **Round 8** (%d changes for the ten properties last seeded in round 4: C01, C02, C06, C09, C11, C14, C20, C25, C26, C29;" % n8)
    out.append("  twelve used sites shown per property).  First sight with the rules frozen at commit bada76b: **%d/%d (%d%%) by the target" % (f8t, n8, round(100.0 * f8t / n8)))
    out.append("  property's check, %d/%d (%d%%) by some check**; after the response (made in the last half hour of the last session, so" % (f8a, n8, round(100.0 * f8a / n8)))
    out.append("  shorter than for the other rounds) %d/%d and %d/%d; the rest are listed in §11b.  Two agents independently made the same" % (sum(1 for r in r8 if r[4]), n8, sum(1 for r in r8 if r[5]), n8))
    out.append("  change (`ModuleImports::new` counting a tag import as a function import) for C01 and C25; R-KIND-MIX reported it under")
    out.append("  C06–C09 at first sight and is now assigned to C01 and C25 as well.  Three agents again reported, unprompted, histories in")
    out.append("  which the *unmodified* tree breaks C06/C11/C20 (import added before a lower-index conversion; a second `encode`; branch")
    out.append("  flags never reset): these are the known findings F7, F13 and F16 of §5 — found again by readers who had never seen them.")
out.append("")
out.append("The thorough tier re-applies, for each property, every change listed here as caught by it and requires the check to fire.")
out.append("")
out.append("| id | what the change does | target check fires | fires under | deciding rules | first sight (rounds 2–8) |")
out.append("|---|---|---|---|---|---|")
for name, prop, rnd, summ, tgt, fires, rules, fst, fsa in rows:
    out.append("| %s | %s | %s | %s | %s | %s |" % (name, summ, "yes" if tgt else "no", ",".join(fires) or "—", ", ".join(rules)[:110] or "—",
                                              "" if fst is None else ("target" if fst else ("other: " + ",".join(fsa) if fsa else "missed"))))
p = os.path.join(VERIF, "DESIGN.md")
s = open(p).read()
s = re.sub(r"<!-- SEED-TABLE-BEGIN -->.*<!-- SEED-TABLE-END -->", "<!-- SEED-TABLE-BEGIN -->\n" + "\n".join(out) + "\n<!-- SEED-TABLE-END -->", s, flags=re.S)
open(p, "w").write(s)
print("rows", len(rows), "round2 first sight target/any", fs_t, fs_a, "of", n2)
