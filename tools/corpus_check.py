#!/usr/bin/env python3
"""Re-evaluate a corpus of patches against scratch copies of /repo, in parallel.

  corpus_check.py [-j N] --seeded           every /verif/seeded/*/patch.diff must be caught by its target property
  corpus_check.py [-j N] --neutral DIR...   every DIR/patch.diff must be silent on every property

Prints one line per patch and a summary; exit 1 when an expectation is not met.  (Development tool: the registered
thorough tier runs tools/selftest.py, which applies the same expectation through check.py.)"""
import concurrent.futures
import json
import os
import subprocess
import sys

HERE = os.path.dirname(os.path.abspath(__file__))
VERIF = os.path.dirname(HERE)


def run(patch, props):
    out = subprocess.run([sys.executable, os.path.join(HERE, "seed_matrix.py"), patch] + props, capture_output=True, text=True)
    last = [l for l in out.stdout.splitlines() if l.startswith("SUMMARY")]
    hits = [l for l in out.stdout.splitlines() if l.startswith(("HIT", "ERR"))]
    return (last[-1] if last else "SUMMARY ? " + out.stderr[-200:]), hits


def main():
    args = sys.argv[1:]
    j = 8
    if args and args[0] == "-j":
        j = int(args[1])
        args = args[2:]
    jobs = []
    if args and args[0] == "--seeded":
        root = os.path.join(VERIF, "seeded")
        for d in sorted(os.listdir(root)):
            meta = json.load(open(os.path.join(root, d, "meta.json")))
            jobs.append((d, os.path.join(root, d, "patch.diff"), [meta["property"]], "hit"))
    elif args and args[0] == "--neutral":
        for d in args[1:]:
            jobs.append((d, os.path.join(d, "patch.diff"), [], "silent"))
    bad = 0
    with concurrent.futures.ThreadPoolExecutor(j) as ex:
        futs = {ex.submit(run, p, props): (name, props, want) for name, p, props, want in jobs}
        for f in concurrent.futures.as_completed(futs):
            name, props, want = futs[f]
            summ, hits = f.result()
            hit = summ.split("hit=")[1].split()[0] if "hit=" in summ else "?"
            err = summ.split("err=")[1].split()[0] if "err=" in summ else "?"
            ok = (want == "hit" and props[0] in hit.split(",") and err == "-") or (want == "silent" and hit == "-" and err == "-")
            print("%s %s %s" % ("ok  " if ok else "BAD ", name, summ), flush=True)
            if not ok:
                bad += 1
                for h in hits[:6]:
                    print("      " + h[:300])
    print("TOTAL %d  bad %d" % (len(jobs), bad))
    sys.exit(1 if bad else 0)


if __name__ == "__main__":
    main()
