#!/usr/bin/env python3
"""Evaluate every claimed property's rules on /repo's current working tree (one fact extraction) and print one JSON line:
{"hits": {prop: [violation keys]}, "errors": {prop: msg}}.  Same rule evaluation, floors and known-findings filter as check.py."""
import json, os, sys
VERIF = os.path.dirname(os.path.dirname(os.path.abspath(__file__)))
sys.path.insert(0, VERIF)
from vlib import facts as factsmod, report
from vlib.facts import CheckError
import props, check
try:
    F = factsmod.load(None)
except CheckError as e:
    print(json.dumps({"hits": {}, "errors": {"*": str(e)[:400]}}))
    sys.exit(0)
known = {k["key"]: k for k in report.known_findings() if k.get("status", "open") == "open"}
fl = report.floors()
hits, errs = {}, {}
for prop in sorted(props.PROPS):
    try:
        results = check.run_rules(prop, F, "quick")
        deferred = check.closed_failures(prop, results)
    except CheckError as e:
        errs[prop] = str(e)[:300]
        continue
    except Exception as e:
        errs[prop] = "CRASH %r" % (e,)
        continue
    vs = []
    for r in results:
        for v in r.violations:
            kf = known.get(v.full_key())
            if kf is not None and prop in kf.get("properties", [prop]):
                continue
            vs.append(v.full_key())
    if vs:
        hits[prop] = sorted(set(vs))[:6]
    elif deferred:
        errs[prop] = deferred[0][:300]
print(json.dumps({"hits": hits, "errors": errs}))
