#!/usr/bin/env python3
"""validate_seeds.py [-j N] <seed-dir>...   — independent confirmation of seeded changes (tooling, not a check).
For each dir (patch.diff + seed_demo.rs): in a scratch worktree of /repo HEAD
  1. demo passes without the patch   2. with the patch the crate builds and the demo fails
  3. with the patch the 111 baseline tests still pass.
Writes <dir>/validation.json.  Worktrees live under /tmp/seedval and are removed at the end."""
import json
import os
import re
import subprocess
import sys
import threading
import queue

BASE = set(json.load(open("/root/.vp/BASELINE.json"))["stable_pass"])


def sh(cmd, cwd, env=None, timeout=3600):
    p = subprocess.run(cmd, cwd=cwd, env=env, stdout=subprocess.PIPE, stderr=subprocess.STDOUT, text=True, shell=isinstance(cmd, str), timeout=timeout)
    return p.returncode, p.stdout


def baseline(wt, env):
    rc, out = sh(["cargo", "test", "--workspace", "--no-fail-fast", "--offline"], wt, env)
    cur = None
    passed = set()
    for line in out.splitlines():
        m = re.match(r"\s*Running (unittests )?(\S+) \(", line)
        if m:
            f = m.group(2)
            cur = None if f.endswith("src/lib.rs") else os.path.splitext(os.path.basename(f))[0]
            if f.endswith("src/main.rs"):
                cur = "__main__"
            continue
        if re.match(r"\s*Doc-tests", line):
            cur = "__doc__"
        m = re.match(r"test (\S+)(?: - should panic)? \.\.\. (ok|FAILED|ignored)", line)
        if m and cur not in ("__doc__", "__main__") and m.group(2) == "ok":
            passed.add("wirm::" + (cur + "::" if cur else "") + m.group(1))
    build_err = "error: could not compile" in out
    return len(BASE & passed), sorted(BASE - passed)[:10], build_err


def demo(wt, env):
    rc, out = sh(["cargo", "test", "--offline", "--test", "seed_demo"], wt, env)
    if "error: could not compile" in out or re.search(r"^error(\[E\d+\])?:", out, re.M) and "test result" not in out:
        return "build-error", out[-1500:]
    m = re.findall(r"^test result: (\w+)\. (\d+) passed; (\d+) failed", out, re.M)
    if not m:
        return "no-result", out[-1500:]
    return ("pass" if all(x[0] == "ok" for x in m) else "fail"), " ".join("%s/%s" % (x[1], x[2]) for x in m)


def worker(slot, q):
    root = "/tmp/seedval/slot%d" % slot
    wt = root + "/wt"
    os.makedirs(root, exist_ok=True)
    sh("git -C /repo worktree remove --force %s 2>/dev/null; rm -rf %s; git -C /repo worktree add -q --detach %s HEAD" % (wt, wt, wt), "/")
    env = dict(os.environ, CARGO_TARGET_DIR=root + "/target", CARGO_NET_OFFLINE="true")
    while True:
        try:
            d = q.get_nowait()
        except queue.Empty:
            break
        res = {"dir": d}
        try:
            sh("git checkout -q -- . && git clean -fdq", wt)
            sh(["cp", os.path.join(d, "seed_demo.rs"), os.path.join(wt, "tests", "seed_demo.rs")], "/")
            res["demo_without_patch"] = demo(wt, env)
            rc, out = sh(["git", "apply", os.path.join(d, "patch.diff")], wt)
            res["patch_applies"] = rc == 0
            if rc == 0:
                rc2, files = sh("git diff --name-only", wt)
                res["files"] = files.split()
                res["demo_with_patch"] = demo(wt, env)
                os.remove(os.path.join(wt, "tests", "seed_demo.rs"))
                n, missing, berr = baseline(wt, env)
                res["baseline_with_patch"] = "%d/%d" % (n, len(BASE))
                res["baseline_missing"] = missing
            res["ok"] = bool(res.get("patch_applies") and res["demo_without_patch"][0] == "pass" and res.get("demo_with_patch", ("",))[0] == "fail"
                             and res.get("baseline_with_patch") == "%d/%d" % (len(BASE), len(BASE)) and all(f.startswith("src/") for f in res.get("files", [])))
        except Exception as e:
            res["error"] = repr(e)
            res["ok"] = False
        json.dump(res, open(os.path.join(d, "validation.json"), "w"), indent=1)
        print("%s ok=%s without=%s with=%s baseline=%s" % (d, res["ok"], res.get("demo_without_patch", ("?",))[0], res.get("demo_with_patch", ("?",))[0], res.get("baseline_with_patch")), flush=True)
    sh("git -C /repo worktree remove --force %s; rm -rf %s" % (wt, root), "/")


def main():
    args = sys.argv[1:]
    j = 4
    if args and args[0] == "-j":
        j = int(args[1])
        args = args[2:]
    q = queue.Queue()
    for d in args:
        q.put(os.path.abspath(d))
    ts = [threading.Thread(target=worker, args=(i, q)) for i in range(min(j, len(args)))]
    for t in ts:
        t.start()
    for t in ts:
        t.join()


if __name__ == "__main__":
    main()
