#!/usr/bin/env python3
"""meta_diff.py [-j N]: which /verif/seeded/*/meta.json record a detection (property → violation keys) that differs from what
the current rules report on a scratch copy?  Prints the names (feed them to refresh_detection.py, which re-measures on /repo)."""
import concurrent.futures, json, os, subprocess, sys
HERE = os.path.dirname(os.path.abspath(__file__))
VERIF = os.path.dirname(HERE)


def run(patch):
    out = subprocess.run([sys.executable, os.path.join(HERE, "seed_matrix.py"), patch], capture_output=True, text=True).stdout
    hits = {}
    for l in out.splitlines():
        if l.startswith("HIT "):
            prop = l[4:].split(":")[0]
            key = l.split(": ", 1)[1].rsplit(" @ ", 1)[0] if " @ " in l else l
            hits.setdefault(prop, set()).add(key)
    return hits, [l for l in out.splitlines() if l.startswith("ERR")]


def main():
    j = int(sys.argv[2]) if len(sys.argv) > 2 and sys.argv[1] == "-j" else 10
    root = os.path.join(VERIF, "seeded")
    names = sorted(os.listdir(root))
    diff = []
    with concurrent.futures.ThreadPoolExecutor(j) as ex:
        futs = {ex.submit(run, os.path.join(root, n, "patch.diff")): n for n in names}
        for f in concurrent.futures.as_completed(futs):
            n = futs[f]
            hits, errs = f.result()
            meta = json.load(open(os.path.join(root, n, "meta.json")))
            rec = {k: set(v) for k, v in (meta.get("detection", {}).get("checks_that_fire") or {}).items()}
            if set(rec) != set(hits) or errs:
                diff.append(n)
                print("DIFF %s recorded=%s now=%s %s" % (n, ",".join(sorted(rec)), ",".join(sorted(hits)), errs[:1]), flush=True)
    print("NAMES " + " ".join(sorted(diff)))


if __name__ == "__main__":
    main()
