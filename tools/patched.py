"""helper for interactive rule development: F = patched.load('/path/patch.diff') → facts of /repo + patch (scratch copy removed)"""
import os, shutil, subprocess, sys, tempfile
VERIF = os.path.dirname(os.path.dirname(os.path.abspath(__file__)))
sys.path.insert(0, VERIF)


def load(patch):
    from vlib import facts as factsmod
    tmp = tempfile.mkdtemp(prefix="orca-verif-dev-")
    try:
        dst = os.path.join(tmp, "repo")
        shutil.copytree("/repo", dst, ignore=shutil.ignore_patterns("target", ".git", "output"))
        p = subprocess.run(["patch", "-p1", "-s", "-i", os.path.abspath(patch)], cwd=dst, stdout=subprocess.PIPE, stderr=subprocess.STDOUT, text=True)
        assert p.returncode == 0, p.stdout
        os.environ["ORCA_ANALYSED_REPO"] = dst
        return factsmod.load(dst)
    finally:
        shutil.rmtree(tmp, ignore_errors=True)
