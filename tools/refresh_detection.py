#!/usr/bin/env python3
"""refresh_detection.py [names...]: re-evaluate which checks catch each /verif/seeded/<name>/ with the current rules, the
way the brief prescribes (git -C /repo apply; evaluate on /repo's working tree; git -C /repo checkout -- .), and rewrite the
`detection` block of its meta.json (first_sight is kept).  Tooling; not part of any registered check."""
import json
import os
import sys

HERE = os.path.dirname(os.path.abspath(__file__))
sys.path.insert(0, HERE)
from build_seeded import detect, VERIF  # noqa: E402


def main():
    root = os.path.join(VERIF, "seeded")
    names = sys.argv[1:] or sorted(os.listdir(root))
    bad = 0
    for name in names:
        d = os.path.join(root, name)
        mp = os.path.join(d, "meta.json")
        if not os.path.exists(mp):
            continue
        m = json.load(open(mp))
        res = detect(os.path.join(d, "patch.diff"))
        if res is None:
            print("DOES-NOT-APPLY", name, flush=True)
            bad += 1
            continue
        hits = res["hits"]
        det = m.setdefault("detection", {})
        det["target_property_check_fires"] = m["property"] in hits
        det["checks_that_fire"] = {k: v for k, v in sorted(hits.items())}
        det["checker_errors"] = res.get("errors", {})
        json.dump(m, open(mp, "w"), indent=1, ensure_ascii=False)
        if m["property"] not in hits or res.get("errors"):
            bad += 1
        print("%s target=%s fires=%s err=%s" % (name, m["property"] in hits, ",".join(sorted(hits)) or "-", ",".join(sorted(res.get("errors", {}))) or "-"), flush=True)
    print("bad", bad)


if __name__ == "__main__":
    main()
