#!/usr/bin/env python3
"""seed_matrix.py <patch.diff> [props...]  — apply a patch to a scratch copy of /repo, extract facts once and
evaluate every claimed property's rules on it; print which properties report a (non-known) violation.
Tooling for building /verif/seeded and /verif/mutants; not part of any registered check."""
import json
import os
import shutil
import subprocess
import sys
import tempfile

VERIF = os.path.dirname(os.path.dirname(os.path.abspath(__file__)))
sys.path.insert(0, VERIF)


def main():
    patch = os.path.abspath(sys.argv[1])
    want = sys.argv[2:]
    tmp = tempfile.mkdtemp(prefix="orca-verif-seed-")
    try:
        dst = os.path.join(tmp, "repo")
        shutil.copytree("/repo", dst, ignore=shutil.ignore_patterns("target", ".git", "output"))
        p = subprocess.run(["patch", "-p1", "-s", "-i", patch], cwd=dst, stdout=subprocess.PIPE, stderr=subprocess.STDOUT, text=True)
        if p.returncode != 0:
            print("PATCH DOES NOT APPLY", p.stdout[-300:])
            return 2
        os.environ["ORCA_ANALYSED_REPO"] = dst
        from vlib import facts as factsmod, report
        from vlib.facts import CheckError
        import props
        import check
        F = factsmod.load(dst)
        known = {k["key"]: k for k in report.known_findings() if k.get("status", "open") == "open"}
        hit = {}
        errs = {}
        for prop in (want or sorted(props.PROPS)):
            try:
                results = check.run_rules(prop, F, "quick")
                deferred = check.closed_failures(prop, results)
            except CheckError as e:
                errs[prop] = str(e)[:300]
                continue
            except Exception as e:  # checker crash on the variant
                errs[prop] = "CRASH %r" % (e,)
                continue
            vs = []
            for r in results:
                for v in r.violations:
                    kf = known.get(v.full_key())
                    if kf is not None and prop in kf.get("properties", [prop]):
                        continue
                    vs.append(v)
            if vs:
                hit[prop] = vs
            elif deferred:
                errs[prop] = deferred[0][:300]
        for prop, vs in hit.items():
            for v in vs[:4]:
                print("HIT %s: %s @ %s: %s" % (prop, v.full_key(), v.where, v.msg[:200]))
        for prop, e in errs.items():
            print("ERR %s: %s" % (prop, e))
        print("SUMMARY hit=%s err=%s" % (",".join(sorted(hit)) or "-", ",".join(sorted(errs)) or "-"))
        return 0
    finally:
        shutil.rmtree(tmp, ignore_errors=True)


if __name__ == "__main__":
    sys.exit(main())
