#!/usr/bin/env python3
"""Run the repository's test suite in DIR (default /repo) and compare with the
111 stable baseline tests.  Exit 0 iff every baseline test passes.
usage: run_baseline.py [DIR] [--target-dir T]
(Used when making fix: commits and when verifying seeded changes; not part of any check.)"""
import json
import os
import re
import subprocess
import sys

d = "/repo"
target = None
args = sys.argv[1:]
while args:
    a = args.pop(0)
    if a == "--target-dir":
        target = args.pop(0)
    else:
        d = a
base = set(json.load(open("/root/.vp/BASELINE.json"))["stable_pass"])
env = dict(os.environ, CARGO_NET_OFFLINE="true")
if target:
    env["CARGO_TARGET_DIR"] = target
p = subprocess.run(["cargo", "test", "--workspace", "--no-fail-fast", "--offline"], cwd=d, env=env,
                   stdout=subprocess.PIPE, stderr=subprocess.STDOUT, text=True)
cur = None
passed = set()
failed = set()
for line in p.stdout.splitlines():
    m = re.match(r"\s*Running (unittests )?(\S+) \(", line)
    if m:
        f = m.group(2)
        cur = None if f.endswith("src/lib.rs") else os.path.splitext(os.path.basename(f))[0]
        if f.endswith("src/main.rs"):
            cur = "__main__"
        continue
    if re.match(r"\s*Doc-tests", line):
        cur = "__doc__"
    m = re.match(r"test (\S+)(?: - should panic)? \.\.\. (ok|FAILED|ignored)", line)
    if m and cur not in ("__doc__", "__main__"):
        name = "wirm::" + (cur + "::" if cur else "") + m.group(1)
        (passed if m.group(2) == "ok" else failed).add(name)
missing = sorted(base - passed)
print("baseline: %d/%d pass; other passing: %d; failing (incl. the known wasm-tools ones): %d" % (len(base & passed), len(base), len(passed - base), len(failed)))
if "error: could not compile" in p.stdout or "error[E" in p.stdout:
    print("BUILD ERROR")
    print("\n".join(l for l in p.stdout.splitlines() if l.startswith("error"))[:3000])
    sys.exit(2)
for mname in missing[:40]:
    print("  NOT PASSING:", mname)
sys.exit(1 if missing else 0)
