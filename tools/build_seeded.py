#!/usr/bin/env python3
"""build_seeded.py <seed-out-dir>... : copy confirmed seeded changes into /verif/seeded/<Cxx>-<n>/ and record which checks
catch them.  Detection is run the way the brief prescribes: `git -C /repo apply <patch>`, run the checks on /repo itself,
`git -C /repo checkout -- .` straight afterwards.  (Tooling; not part of any registered check.)"""
import json
import os
import shutil
import subprocess
import sys

VERIF = os.path.dirname(os.path.dirname(os.path.abspath(__file__)))
sys.path.insert(0, VERIF)


def detect(patch):
    """apply to /repo, evaluate every claimed property's rules on /repo's working tree, revert"""
    assert subprocess.run(["git", "-C", "/repo", "status", "--porcelain", "--untracked-files=no"], capture_output=True, text=True).stdout.strip() == "", "/repo not clean"
    p = subprocess.run(["git", "-C", "/repo", "apply", patch], capture_output=True, text=True)
    if p.returncode != 0:
        return None
    try:
        q = subprocess.run([sys.executable, os.path.join(VERIF, "tools", "matrix_inplace.py")], capture_output=True, text=True)
        return json.loads(q.stdout.strip().splitlines()[-1])
    finally:
        subprocess.run(["git", "-C", "/repo", "checkout", "--", "."])


def main():
    out_root = os.path.join(VERIF, "seeded")
    args = sys.argv[1:]
    rnd = None
    first = {}
    while args and args[0].startswith("--"):
        if args[0] == "--round":
            rnd = args[1]
            args = args[2:]
        elif args[0] == "--first-sight":
            # matrix log written when the seed was first evaluated, before any rule was changed in response to it
            cur = None
            for line in open(args[1]):
                if line.startswith("=== "):
                    cur = line.split()[1].rstrip(":")
                elif line.startswith("SUMMARY") and cur:
                    h = line.split("hit=")[1].split()[0]
                    e = line.split("err=")[1].strip()
                    first[os.path.abspath(cur)] = {"checks_that_fired": [] if h == "-" else h.split(","), "checker_errors": [] if e == "-" else e.split(",")}
            args = args[2:]
    for d in args:
        d = os.path.abspath(d)
        if not os.path.exists(os.path.join(d, "patch.diff")):
            continue
        val = json.load(open(os.path.join(d, "validation.json"))) if os.path.exists(os.path.join(d, "validation.json")) else None
        if not val or not val.get("ok"):
            print("SKIP (not validated):", d)
            continue
        meta = json.load(open(os.path.join(d, "meta.json")))
        prop = meta["property"]
        n = os.path.basename(d)
        name = "%s-%s" % (prop, n) if not rnd else "%s-r%s-%s" % (prop, rnd, n)
        res = detect(os.path.join(d, "patch.diff"))
        if res is None:
            print("SKIP (does not apply to current /repo):", d)
            continue
        dst = os.path.join(out_root, name)
        os.makedirs(dst, exist_ok=True)
        shutil.copy(os.path.join(d, "patch.diff"), dst)
        shutil.copy(os.path.join(d, "seed_demo.rs"), dst)
        hits = res["hits"]
        m = {
            "property": prop,
            "summary": meta.get("summary"),
            "site": meta.get("site"),
            "needs_to_manifest": meta.get("needs_to_manifest"),
            "why_tests_miss": meta.get("why_tests_miss"),
            "origin": "written by an independent sub-agent that saw only the property text and a scratch worktree of /repo",
            "confirmed_by_me": {
                "how": "tools/validate_seeds.py in a scratch worktree of /repo HEAD: tests/seed_demo.rs passes without the patch; with the patch the crate builds and the demo fails; with the patch and without the demo the 111 baseline tests pass",
                "demo_without_patch": val["demo_without_patch"],
                "demo_with_patch": val["demo_with_patch"],
                "baseline_with_patch": val["baseline_with_patch"],
            },
            "detection": {
                "how": "git -C /repo apply patch.diff; every claimed property's rules evaluated on /repo's working tree (tools/matrix_inplace.py = check.py's rule evaluation for all properties on one fact extraction); git -C /repo checkout -- .",
                "target_property_check_fires": prop in hits,
                "checks_that_fire": {k: v for k, v in sorted(hits.items())},
                "checker_errors": res.get("errors", {}),
            },
        }
        if d in first:
            m["detection"]["first_sight"] = dict(first[d], note="which checks fired when this change was first evaluated, before any rule was changed in response to it", target_property_check_fired=prop in first[d]["checks_that_fired"])
        if rnd:
            m["round"] = int(rnd)
        json.dump(m, open(os.path.join(dst, "meta.json"), "w"), indent=1, ensure_ascii=False)
        print("%s target=%s fires=%s" % (name, prop in hits, ",".join(sorted(hits)) or "-"), flush=True)


if __name__ == "__main__":
    main()
