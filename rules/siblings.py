"""R-SIBLING: implementations of one interface agree on their effect summary."""
from vlib.facts import walk, CheckError, place_path
from vlib.report import RuleResult

LF = "ir::module::module_functions::LocalFunction"
FMOD = "ir::function::FunctionModifier"

TRAITS = ("opcode::Instrumenter", "opcode::Inject", "opcode::InjectAt", "module_builder::AddLocal",
          "iterator::iterator_trait::IteratingInstrumenter")
SIBLINGS = {
    "ModuleIterator": "iterator::module_iterator::ModuleIterator",
    "ComponentIterator": "iterator::component_iterator::ComponentIterator",
    "FunctionModifier": FMOD,
}


def _base_ty(ty):
    ty = ty.strip()
    changed = True
    while changed:
        changed = False
        for pre in ("&mut ", "&", "std::boxed::Box<", "mut "):
            if ty.startswith(pre):
                ty = ty[len(pre):]
                changed = True
        if ty.startswith("'"):
            ty = ty.split(" ", 1)[1] if " " in ty else ty
            changed = True
    return ty.split("<")[0]


def rooted(e):
    """(hid, name, suffix) if e denotes a place reached from a local variable."""
    parts = []
    while isinstance(e, dict):
        k = e.get("k")
        if k == "Field":
            parts.append("." + e["name"])
            e = e["base"]
        elif k == "Index":
            parts.append("[]")
            e = e["base"]
        elif k in ("AddrOf",):
            e = e["a"]
        elif k == "Unary" and e.get("op") == "*":
            e = e["a"]
        elif k in ("Use", "Type"):
            e = e.get("e") or e.get("a")
        elif k == "MethodCall" and e.get("method") in ("as_mut", "as_ref", "borrow_mut", "borrow", "deref_mut", "deref"):
            e = e["recv"]
        elif k in ("MethodCall", "Call") and isinstance(e.get("inlined"), dict):
            from vlib.facts import _inlined_place
            t = _inlined_place(e["inlined"])
            if t is None:
                return None
            e = t
        elif k == "Path":
            r = e.get("res", {})
            if r.get("r") == "local":
                return r.get("hid"), r["name"], "".join(reversed(parts))
            return None
        else:
            return None
    return None


def render(e, depth=0):
    if not isinstance(e, dict) or depth > 6:
        return "…"
    k = e.get("k")
    if k == "Path":
        r = e.get("res", {})
        if r.get("r") == "local":
            return "<%s>" % _base_ty(e.get("ty", "?")).split("::")[-1]
        if r.get("r") == "def":
            return "::".join(r["path"].split("::")[-2:])
        return "?"
    if k == "Lit":
        return e["lit"]
    if k == "Call":
        f = e.get("callee") or (e.get("fres") or {}).get("path") or "?"
        return "%s(%s)" % ("::".join(f.split("::")[-2:]), ", ".join(render(a, depth + 1) for a in e["args"]))
    if k == "MethodCall":
        return "%s.%s(%s)" % (render(e["recv"], depth + 1), e["method"], ", ".join(render(a, depth + 1) for a in e["args"]))
    if k == "Field":
        return "%s.%s" % (render(e["base"], depth + 1), e["name"])
    if k == "Index":
        return "%s[]" % render(e["base"], depth + 1)
    if k in ("AddrOf", "Use", "Type", "Cast"):
        return render(e.get("a") or e.get("e"), depth + 1)
    if k == "Unary":
        return ("" if e["op"] == "*" else e["op"]) + render(e["a"], depth + 1)
    if k == "Struct":
        return "%s{%s}" % ((e.get("adt") or "?").split("::")[-1] + ("::" + e["variant"] if e.get("variant") else ""),
                           ", ".join("%s: %s" % (n, render(x, depth + 1)) for n, x in e["fields"]))
    if k == "Binary":
        return "(%s %s %s)" % (render(e["a"], depth + 1), e["op"], render(e["b"], depth + 1))
    return k or "?"


class Summ:
    def __init__(self, F):
        self.F = F

    def effects(self, fn, depth=0, self_is_root=False, sib_adt=None):
        """set of effect tuples on the function object (LocalFunction / FunctionModifier view)"""
        out = set()
        roots = set()
        body = fn.get("body")
        if body is None:
            return out
        # root bindings: locals (pattern bindings, params) of type LocalFunction; `self` when asked
        for p in fn.get("params", []):
            for b in walk(p["pat"]):
                if b.get("k") == "Binding":
                    if b["name"] == "self" and self_is_root:
                        roots.add(b["hid"])
                    elif _base_ty(b.get("ty", "")) == LF:
                        roots.add(b["hid"])
        for b in walk(body):
            if b.get("k") == "Binding" and _base_ty(b.get("ty", "")) == LF:
                roots.add(b["hid"])
        for n in walk(body):
            k = n.get("k")
            if k in ("Assign", "AssignOp"):
                rp = rooted(n["lhs"])
                if rp and rp[0] in roots and rp[2].startswith((".body", ".instr_flag", ".args")):
                    op = "=" if k == "Assign" else n["op"]
                    rhs_ = self._rhs(n["rhs"], fn, roots)
                    if op in ("|=", "|") and rhs_ == "Bool(true)":
                        op = "="      # x |= true ≡ x = true
                    out.add(("write", rp[2], op, rhs_))
            elif k in ("MethodCall", "Call"):
                callee = n.get("inst") or n.get("callee")
                if not callee:
                    continue
                recv = n.get("recv") if k == "MethodCall" else (n["args"][0] if n["args"] else None)
                rp = rooted(recv) if recv is not None else None
                target = self.F.by_path.get(callee)
                # a sibling calling another of its own trait methods on `self`: look through
                if rp and rp[1] == "self" and rp[2] == "" and target and len(target) == 1 and sib_adt \
                        and (target[0].get("self_adt") or "") == sib_adt and depth < 3:
                    out |= self.effects(target[0], depth + 1, self_is_root=self_is_root, sib_adt=sib_adt)
                    continue
                if not rp or rp[0] not in roots:
                    continue
                if not target:
                    continue  # std / dependency call: not part of the summary
                if target and len(target) == 1 and target[0].get("self_adt") == LF and depth < 2 and rp[2] == "":
                    # adapter layer: look through LocalFunction's own methods
                    out |= self.effects(target[0], depth + 1, self_is_root=True, sib_adt=None)
                else:
                    short = "::".join(callee.replace("<'a>", "").replace("<'_>", "").split("::")[-2:])
                    out.add(("call", rp[2], short))
        return out

    def _rhs(self, e, fn, roots):
        # result of a call on the function object is summarised by the callee
        if e.get("k") in ("MethodCall", "Call"):
            callee = e.get("inst") or e.get("callee") or "?"
            return "result-of " + "::".join(callee.replace("<'a>", "").split("::")[-2:])
        if e.get("k") == "Path" and e.get("res", {}).get("r") == "local":
            # a local bound to a call result?
            hid = e["res"]["hid"]
            for st in walk(fn["body"]):
                if st.get("k") == "Let" and st["pat"].get("k") == "Binding" and st["pat"]["hid"] == hid and "init" in st:
                    return self._rhs(st["init"], fn, roots)
        return render(e)


# methods for which FunctionModifier is expected to behave exactly like the iterators (the others
# differ by design: FunctionModifier's cursor/mode are function-level, see DESIGN §3 R-SIBLING)
FMOD_METHODS = ("inject", "inject_at", "add_instr_at", "clear_instr_at", "empty_alternate_at",
                "empty_block_alt_at", "set_instrument_mode_at", "append_tag_at", "add_local")


def instrumenter_siblings(F, pairs=(("ModuleIterator", "ComponentIterator"), ("ModuleIterator", "FunctionModifier"))):
    r = RuleResult("R-SIBLING(instrumenter)",
                   "ModuleIterator, ComponentIterator and FunctionModifier implement Instrumenter/Inject/InjectAt/AddLocal with the same effect summary on the function object (field writes and calls, after looking through LocalFunction's adapter methods)")
    S = Summ(F)
    import json
    import os
    from vlib.report import VERIF
    try:
        reviewed = json.load(open(os.path.join(VERIF, "tables", "sibling_reviewed.json")))["rows"]
    except FileNotFoundError:
        reviewed = []
    table = {}
    for sib, adt in SIBLINGS.items():
        for fn in F.find_fns(self_adt=adt.split("::")[-1]):
            tr = fn.get("impl_trait") or ""
            if not any(tr.endswith(t) for t in TRAITS):
                continue
            table.setdefault(fn["name"], {})[sib] = (fn, S.effects(fn, self_is_root=(sib == "FunctionModifier"), sib_adt=adt))
    n = 0
    for m, impls in sorted(table.items()):
        for a, b in pairs:
            if a in impls and b in impls:
                if "FunctionModifier" in (a, b) and m not in FMOD_METHODS:
                    continue
                n += 1
                fa, ea = impls[a]
                fb, eb = impls[b]
                # reviewed, intended differences (exact effect tuples only)
                for row in reviewed:
                    if row["method"] == m and row["pair"] == [a, b]:
                        eff = tuple(row["effect"])
                        side = row["only_in"]
                        if side == a and eff in ea and eff not in eb:
                            ea = ea - {eff}
                        if side == b and eff in eb and eff not in ea:
                            eb = eb - {eff}
                ok = ea == eb
                r.analysed.append("%s: %s vs %s" % (m, a, b))
                r.ob(ok, {"method": m, a: sorted(map(list, ea))[:4], b: sorted(map(list, eb))[:4]})
                if not ok:
                    only_a = sorted(ea - eb)
                    only_b = sorted(eb - ea)
                    r.violate("%s | %s vs %s" % (m, a, b), F.loc(fb),
                              "`%s` differs between %s and %s: only in %s: %s; only in %s: %s" % (m, a, b, a, only_a, b, only_b),
                              {"only_" + a: only_a, "only_" + b: only_b})
    r.count("compared_methods", n)
    return r


def reindexable_impls(F):
    """R-REINDEXABLE-IMPL: Module::reorganise_generic is written against the ReIndexable vocabulary (len / remove / insert /
    push) and its bookkeeping (R-REORG-INV) assumes Vec semantics for each word: remove(i) shifts the tail down by one and
    keeps the order, insert(i, x) shifts it up, push appends.  Every `impl ReIndexable for X` must therefore forward each
    method to the std method *of the same name* on its backing vector and do nothing else to it — the three sibling
    implementations agree because each agrees with Vec (a `swap_remove` is O(1) and reorders the survivors)."""
    r = RuleResult("R-REINDEXABLE-IMPL",
                   "each method of every `impl ReIndexable` forwards to the std method of the same name on a field of self (remove→Vec::remove, not swap_remove; insert→Vec::insert; push→Vec::push; len→len) and calls no other std method on that field")
    n = 0
    owners = set()
    for f in F.fns:
        if not (f.get("impl_trait") or "").endswith("ReIndexable") or f.get("body") is None:
            continue
        n += 1
        owners.add(f.get("self_adt"))
        r.analysed.append(f["path"])
        called = set()
        for c in walk(f["body"]):
            if c.get("k") == "MethodCall" and (c.get("callee") or "").startswith(("std::", "alloc::", "core::")):
                pp = place_path(c["recv"]) or ""
                if pp.startswith("self."):
                    called.add(c["method"])
        if not called:
            r.undecided("%s: no std call on a field of self (the backing store is reached some other way)" % f["path"])
            continue
        ok = called == {f["name"]}
        r.ob(ok, {"impl": f["path"], "forwards to": sorted(called)})
        if not ok:
            r.violate("%s | forwards to %s" % (f["path"], "+".join(sorted(called))), F.loc(f),
                      "ReIndexable::%s of %s calls %s on its backing vector instead of exactly `%s`: reorganise_generic's position bookkeeping assumes Vec::%s semantics (order-preserving, tail shifted by one)" % (
                          f["name"], (f.get("self_adt") or "").split("::")[-1], sorted(called), f["name"], f["name"]))
    r.count("reindexable_methods", n)
    r.count("reindexable_impls", len(owners))
    if n == 0:
        raise CheckError("no impl of ReIndexable found")
    return r


def tag_utils_siblings(F):
    """R-TAG-UTILS: every `impl TagUtils` hands out the tag that is already there (creating an empty one only when there is
    none): `get_or_create_tag` uses a get-or-insert on its tag slot.  An `insert` / assignment / `take` replaces what earlier
    `append_to_tag` calls have written — the side-effect report then carries the last piece only."""
    from vlib.facts import peel
    r = RuleResult("R-TAG-UTILS",
                   "every TagUtils::get_or_create_tag returns the existing tag when there is one (get_or_insert_default / get_or_insert_with on its tag slot); none overwrites the slot")
    n = 0
    for f in F.fns:
        if f.get("body") is None or f["name"] != "get_or_create_tag" or not (f.get("impl_trait") or "").endswith("TagUtils"):
            continue
        n += 1
        r.analysed.append(f["path"])
        ops = set()
        for x in walk(f["body"]):
            if x.get("k") == "MethodCall" and (x.get("callee") or "").startswith(("std::", "core::")) and (place_path(x["recv"]) or "").endswith("tag"):
                ops.add(x["method"])
            if x.get("k") == "Assign" and (place_path(x["lhs"]) or "").endswith("tag"):
                ops.add("=")
        if not ops:
            r.ob(True, {"impl": f["path"], "delegates": True})
            continue
        bad = sorted(ops - {"get_or_insert_default", "get_or_insert_with", "get_or_insert", "as_mut", "is_none", "is_some", "unwrap", "expect"})
        r.ob(not bad, {"impl": f["path"], "tag slot operations": sorted(ops)})
        if bad:
            r.violate("%s | overwrites tag (%s)" % (f["path"], "+".join(bad)), F.loc(f),
                      "%s::get_or_create_tag uses `%s` on its tag slot: an existing tag is replaced by an empty one each time, so data appended earlier is lost from the side-effect report" % ((f.get("self_adt") or "").split("::")[-1], bad[0]))
    r.count("tag_utils_impls", n)
    if n == 0:
        raise CheckError("no impl of TagUtils::get_or_create_tag found")
    return r
