"""R-TYPE-TABLE: reader and writer type tables are mutually inverse on the
finite abstract domain of value types the property's quantifier admits."""
from vlib.absint import Interp, V, Vt, find_conv, show, fields_of, is_panic
from vlib.report import RuleResult

WPV = "wasmparser::ValType"
WPH = "wasmparser::HeapType"
WPA = "wasmparser::AbstractHeapType"
WEV = "wasm_encoder::ValType"
DT = "ir::types::DataType"

IN_PROFILE_ABS = ["Func", "Extern", "Any", "None", "NoExtern", "NoFunc", "Eq", "Struct", "Array", "I31", "Exn", "NoExn"]
OUT_PROFILE_ABS = ["Cont", "NoCont"]  # stack switching: outside the stated profile (reported as info)
NUM = ["I32", "I64", "F32", "F64", "V128"]


def B(x):
    return ("b", x)


def wp_ref(nullable, heap):
    return Vt(WPV, "Ref", ("rt", B(nullable), heap))


def wp_abs(ty, shared=False):
    return V(WPH, "Abstract", shared=B(shared), ty=("v", WPA, ty, ()))


def wp_conc(kind, idx):
    return Vt(WPH, "Concrete", Vt("wasmparser::UnpackedIndex", kind, idx))


def canon(v):
    """Canonical (library-independent) form of a wasmparser or wasm_encoder value type."""
    if not isinstance(v, tuple):
        return ("?", v)
    if is_panic(v):
        return ("panic",)
    if v[0] == "v" and v[1] in (WPV, WEV):
        if v[2] in NUM:
            return ("num", v[2])
        if v[2] == "Ref":
            inner = fields_of(v)["0"]
            if inner[0] == "rt":
                return ("ref", inner[1], canon_heap(inner[2]))
            if inner[0] == "v":  # wasm_encoder::RefType { nullable, heap_type }
                fs = fields_of(inner)
                return ("ref", fs.get("nullable"), canon_heap(fs.get("heap_type")))
    return ("?", v)


def canon_heap(h):
    if not isinstance(h, tuple) or h[0] != "v":
        return ("?", h)
    fs = fields_of(h)
    if h[2] == "Abstract":
        ty = fs.get("ty")
        return ("abs", fs.get("shared"), ty[2] if isinstance(ty, tuple) and ty[0] == "v" else ty)
    if h[2] == "Concrete":
        x = fs.get("0")
        # wasmparser: UnpackedIndex::Module(idx); wasm_encoder: u32
        if isinstance(x, tuple) and x[0] == "v" and x[1] and x[1].endswith("UnpackedIndex"):
            return ("conc", x[2], fields_of(x).get("0"))
        return ("conc", "Module", x)
    return ("?", h)


def show_c(c):
    if c[0] == "num":
        return c[1].lower()
    if c[0] == "ref":
        h = c[2]
        n = "null " if c[1] == B(True) else ("" if c[1] == B(False) else "<%s> " % show(c[1]))
        if h[0] == "abs":
            sh = "shared " if h[1] == B(True) else ""
            return "(ref %s%s%s)" % (n, sh, str(h[2]).lower())
        if h[0] == "conc":
            return "(ref %s%s %s)" % (n, h[1].lower(), show(h[2]))
    if c[0] == "panic":
        return "panic!"
    return show(c[1]) if len(c) > 1 else str(c)


def domain():
    """(value, in_profile, label)"""
    out = []
    for n in NUM:
        out.append((("v", WPV, n, ()), True, n.lower()))
    for ty in IN_PROFILE_ABS + OUT_PROFILE_ABS:
        for nullable in (True, False):
            out.append((wp_ref(nullable, wp_abs(ty)), ty in IN_PROFILE_ABS,
                        "(ref %s%s)" % ("null " if nullable else "", ty.lower())))
    for nullable in (True, False):
        out.append((wp_ref(nullable, wp_conc("Module", ("s", "i"))), True, "(ref %s$i)" % ("null " if nullable else "")))
        out.append((wp_ref(nullable, wp_conc("RecGroup", ("s", "i"))), False, "(ref %srecgroup i)" % ("null " if nullable else "")))
    # shared abstract heap types: shared-everything-threads, outside profile (info only)
    for nullable in (True, False):
        out.append((wp_ref(nullable, wp_abs("Func", shared=True)), False, "(ref %sshared func)" % ("null " if nullable else "")))
    return out


def type_table(F, writers=("wasm_encoder", "wasmparser"), agreement=True):
    r = RuleResult("R-TYPE-TABLE",
                   "compose the extracted ValType→DataType and DataType→{%s}::ValType match tables over the finite value-type domain; require encode∘decode = identity (in-profile types)%s" % (",".join(writers), " and that the two writer tables agree on every DataType" if agreement else ""))
    I = Interp(F)
    dec = find_conv(F, WPV, DT)
    encw = find_conv(F, DT, WEV, by_ref=True)
    encp = find_conv(F, DT, WPV, by_ref=True)
    r.analysed += [dec["path"], encw["path"], encp["path"]]
    n_points = 0
    for v, inprof, label in domain():
        n_points += 1
        d = I.call_fn(dec, [v])
        want = canon(v)
        for enc, tag in ((encw, "wasm_encoder"), (encp, "wasmparser")):
            if tag not in writers:
                continue
            if is_panic(d):
                got = ("panic",)
            else:
                got = canon(I.call_fn(enc, [d]))
            ok = got == want
            if inprof:
                r.ob(ok, {"type": label, "decoded": show(d), "re-encoded(%s)" % tag: show_c(got)})
                if not ok:
                    r.violate("%s | %s via %s" % (dec["path"], label, tag), F.loc(dec),
                              "value type %s decodes to %s, which the %s writer table encodes as %s (not the same type)" % (label, show(d), tag, show_c(got)))
            elif not ok:
                r.info.append("out-of-profile %s: decodes to %s, re-encodes (%s) as %s" % (label, show(d), tag, show_c(got)))
    r.count("domain_points", n_points)

    # writer agreement on every DataType variant
    n_dt = 0
    for name, var in (F.variants(DT).items() if agreement else ()):
        if name in ("I8", "I16"):
            continue
        vals = []
        if not var["fields"]:
            vals.append(("v", DT, name, ()))
        elif name == "Module":
            for nb in (True, False):
                vals.append(V(DT, "Module", ty_id=("s", "i"), nullable=B(nb)))
        else:
            vals.append(Vt(DT, name, ("s", "i")))
        for d in vals:
            n_dt += 1
            a = canon(I.call_fn(encw, [d]))
            b = canon(I.call_fn(encp, [d]))
            if a == ("panic",) or b == ("panic",):
                r.ob(True)
                r.info.append("DataType::%s: a writer table panics (wasm_encoder: %s, wasmparser: %s)" % (name, show_c(a), show_c(b)))
                continue
            ok = a == b
            if a[0] == "ref" and b[0] == "ref" and a[2][0] == "conc" and b[2][0] == "conc":
                # wasm_encoder has one concrete index space; compare nullability and index only
                ok = a[1] == b[1] and a[2][2] == b[2][2]
            r.ob(ok, {"DataType": show(d), "wasm_encoder": show_c(a), "wasmparser": show_c(b)})
            if not ok:
                r.violate("writer-agreement | %s" % show(d), F.loc(encp),
                          "DataType::%s is written as %s by the wasm_encoder table but as %s by the wasmparser table" % (show(d), show_c(a), show_c(b)))
    if agreement:
        r.count("datatype_points", n_dt)
    return r


def storage_block_heap_tables(F):
    """StorageType, BlockType and the internal HeapType/AbstractHeapType pairs are identities."""
    r = RuleResult("R-TYPE-TABLE(aux)",
                   "StorageType reader/writer, BlockType both ways and ir HeapType/AbstractHeapType both ways compose to the identity")
    I = Interp(F)
    # StorageType
    sdec = find_conv(F, "wasmparser::StorageType", DT)
    senc = find_conv(F, DT, "wasm_encoder::StorageType")
    r.analysed += [sdec["path"], senc["path"]]
    for nm in ("I8", "I16"):
        d = I.call_fn(sdec, [("v", "wasmparser::StorageType", nm, ())])
        e = I.call_fn(senc, [d])
        ok = e[0] == "v" and e[2] == nm
        r.ob(ok, {"storage": nm, "decoded": show(d), "encoded": show(e)})
        if not ok:
            r.violate("%s | %s" % (sdec["path"], nm), F.loc(sdec), "packed storage type %s round-trips to %s" % (nm, show(e)))
    for v, inprof, label in domain()[:1]:
        # the inner value-type conversion is R-TYPE-TABLE's job: one representative suffices here
        d = I.call_fn(sdec, [Vt("wasmparser::StorageType", "Val", v)])
        e = I.call_fn(senc, [d])
        got = canon(fields_of(e).get("0")) if e[0] == "v" and e[2] == "Val" else ("?", e)
        ok = got == canon(v)
        r.ob(ok, {"storage": "val " + label, "encoded": show_c(got)})
        if not ok:
            r.violate("%s | val %s" % (sdec["path"], label), F.loc(sdec), "storage type (val %s) round-trips to %s" % (label, show_c(got)))
    # BlockType
    bdec = find_conv(F, "wasmparser::BlockType", "ir::types::BlockType")
    benc = find_conv(F, "ir::types::BlockType", "wasmparser::BlockType")
    r.analysed += [bdec["path"], benc["path"]]
    cases = [(("v", "wasmparser::BlockType", "Empty", ()), "empty"),
             (Vt("wasmparser::BlockType", "FuncType", ("s", "t")), "functype t")]
    for v, inprof, label in domain()[:1]:
        cases.append((Vt("wasmparser::BlockType", "Type", v), "type " + label))
    for v, label in cases:
        d = I.call_fn(bdec, [v])
        e = I.call_fn(benc, [d])
        if v[2] == "Type":
            ok = e[0] == "v" and e[2] == "Type" and canon(fields_of(e)["0"]) == canon(fields_of(v)["0"])
        else:
            ok = e == v
        r.ob(ok, {"blocktype": label, "ir": show(d), "back": show(e)})
        if not ok:
            r.violate("%s | %s" % (bdec["path"], label), F.loc(bdec), "block type (%s) becomes %s after wasmparser→ir→wasmparser" % (label, show(e)))
    # ir HeapType / AbstractHeapType
    hdec = find_conv(F, WPH, "ir::module::module_types::HeapType")
    henc = find_conv(F, "ir::module::module_types::HeapType", WPH)
    adec = find_conv(F, WPA, "ir::module::module_types::AbstractHeapType")
    aenc = find_conv(F, "ir::module::module_types::AbstractHeapType", WPA)
    r.analysed += [hdec["path"], henc["path"], adec["path"], aenc["path"]]
    for name in F.variants(WPA):
        v = ("v", WPA, name, ())
        e = I.call_fn(aenc, [I.call_fn(adec, [v])])
        ok = e == v
        r.ob(ok, {"abstract heap type": name, "back": show(e)})
        if not ok:
            r.violate("%s | %s" % (adec["path"], name), F.loc(adec), "abstract heap type %s becomes %s" % (name, show(e)))
        for sh in (True, False):
            hv = V(WPH, "Abstract", shared=B(sh), ty=v)
            # From::from(ty) inside is a trait call resolved to the local impl
            he = I.call_fn(henc, [I.call_fn(hdec, [hv])])
            ok = he == hv
            r.ob(ok)
            if not ok:
                r.violate("%s | %s shared=%s" % (hdec["path"], name, sh), F.loc(hdec), "heap type %s becomes %s" % (show(hv), show(he)))
    hv = Vt(WPH, "Concrete", ("s", "idx"))
    he = I.call_fn(henc, [I.call_fn(hdec, [hv])])
    r.ob(he == hv)
    if he != hv:
        r.violate("%s | Concrete" % hdec["path"], F.loc(hdec), "concrete heap type becomes %s" % show(he))
    r.count("abstract_heap_variants", len(F.variants(WPA)))
    return r
