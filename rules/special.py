"""Structured-control tables and bookkeeping of the special instrumentation
modes (function entry/exit, block entry/exit/alt, semantic after)."""
from vlib.facts import walk, pat_variants, pat_alternatives, peel, place_path, CheckError, lca, sp_before, path_to, conditional_ancestors, lit_int
from vlib.paths import paths, normal_paths
from vlib.report import RuleResult

OP = "wasmparser::Operator"
IM = "ir::types::InstrumentationMode"
BLOCK_STYLE = {"Block", "Loop", "If", "Else"}


def op_matches(fn):
    """all Match nodes in fn over Operator"""
    out = []
    for m in walk(fn["body"]):
        if m.get("k") == "Match":
            ty = m.get("scrut_ty", "").replace("&mut ", "").replace("&", "")
            if ty.split("<")[0] == OP:
                out.append(m)
    return out


def arm_ops(arm):
    vs, wild = pat_variants(arm["pat"])
    return {v for a, v in vs if a == OP}, wild


def accepted_ops(fn, nontrivial=True):
    """Operator variants for which some match arm in fn does something (non-empty, non-diverging body)."""
    acc = set()
    for m in op_matches(fn):
        for arm in m["arms"]:
            ops, wild = arm_ops(arm)
            b = arm["body"]
            trivial = (b.get("k") == "Block" and not b.get("stmts") and b.get("expr") is None) or b.get("ty") == "!" \
                or (b.get("k") == "Lit" and b.get("lit") == "Bool(false)")
            if not trivial:
                acc |= ops
    return acc


TRIVIAL_CALLS = ("clone", "to_owned", "deref", "borrow", "into", "as_ref", "len", "is_empty", "unwrap", "last", "iter", "targets", "default")


def accepted_ops_sem(F, fn, work=None):
    """Semantic version of accepted_ops: the Operator variants for which the function *does something* — decided by
    enumerating its paths under the assumption `op is V` (vlib.paths.variant_case), so it does not matter whether the
    function is written as `match op {..}`, `if matches!(op, ..)`, with an early `return`, or through a local predicate
    helper.  Candidates are the variants named in any pattern of fn and of the local predicates it calls, plus one
    unnamed representative."""
    from vlib.paths import variant_case
    subj = {pm["pat"]["hid"] for pm in fn.get("params", []) if "wasmparser::Operator" in (pm.get("ty") or "") and pm["pat"].get("k") == "Binding"}
    if not subj:
        return accepted_ops(fn)
    # locals that alias the subject (`let o = op;`)
    named = set()

    def collect(f_, depth=0):
        for x in walk(f_["body"]):
            if x.get("k") in ("Struct", "TupleStruct", "Path") and (x.get("adt") or x.get("res", {}).get("adt")) == OP:
                v = x.get("variant") or x.get("res", {}).get("variant")
                if v:
                    named.add(v)
            if depth < 2 and x.get("k") in ("Call", "MethodCall"):
                t = F.by_path.get(x.get("inst") or x.get("callee") or "")
                if t and len(t) == 1 and t[0].get("body") is not None and any("wasmparser::Operator" in (pm.get("ty") or "") for pm in t[0].get("params", [])) and t[0] is not f_:
                    collect(t[0], depth + 1)
    collect(fn)
    other = next(v for v in sorted(F.variants(OP)) if v not in named)
    if work is None:
        def work(n):
            return n.get("k") == "MethodCall" and n["method"] not in TRIVIAL_CALLS or (n.get("k") == "Call" and (n.get("callee") or "") in F.by_path)
    acc = set()
    for v in sorted(named) + [other]:
        dec, sel, _ = variant_case(F, fn, subj, OP, v)

        def clf(n):
            return "W" if work(n) else None
        try:
            ps = paths(fn["body"], clf, decide_if=dec, select_arms=sel)
        except CheckError:
            return accepted_ops(fn)
        if any("W" in ev for ev, st in ps if st != "panic"):
            acc.add(v if v != other else "<other>")
    return acc


def openers_from_adt(F):
    """Operator variants that open a structured block: they carry a BlockType / TryTable payload."""
    out = set()
    for name, v in F.variants(OP).items():
        for f in v["fields"]:
            if f["ty"].endswith("BlockType") or f["ty"].endswith("TryTable"):
                out.add(name)
    return out


def branch_ops_from_adt(F):
    """Br* operators: variants named Br… (Br, BrIf, BrTable, BrOnNull, BrOnNonNull, BrOnCast, BrOnCastFail)."""
    return {n for n in F.variants(OP) if n.startswith("Br")}


def exit_ops_from_adt(F):
    """operators that leave the function or trap explicitly: Return*, Throw*, Rethrow, ResumeThrow*, Unreachable"""
    return {n for n in F.variants(OP)
            if n.startswith("Return") or n.startswith("Throw") or n == "Rethrow" or n.startswith("ResumeThrow") or n == "Unreachable"}


def block_tables(F, openers_clause=True):
    r = RuleResult("R-BLOCK-TABLES" if openers_clause else "R-BLOCK-TABLES(accept=resolve)",
                   "the structured-control tables agree: every block opener of the Operator ADT is pushed on block_stack by resolve_special_instrumentation; {Block,Loop,If,Else} is the same set in is_block_style_op, resolve_block_entry, plan_resolution_block_exit, plan_resolution_block_alt and plan_resolution_semantic_after; the Br* set is the same in is_branching_op and plan_resolution_semantic_after and ⊇ create_bool_flag's conditional subset; resolve_function_exit covers every return/throw/trap operator")
    rs = F.one_fn(name="resolve_special_instrumentation", self_adt="Module")
    r.analysed.append(rs["path"])
    openers = openers_from_adt(F)
    r.count("adt_openers", len(openers))
    # (1) arms of the driver match that push block_stack
    pushed = set()
    popping = set()
    driver = None
    for m in op_matches(rs):
        for arm in m["arms"]:
            ops, _ = arm_ops(arm)
            for n in walk(arm["body"]):
                if n.get("k") == "MethodCall" and n["method"] == "push" and (place_path(n["recv"]) or "").endswith("block_stack"):
                    pushed |= ops
                    driver = m
                if n.get("k") == "MethodCall" and n["method"] == "pop" and (place_path(n["recv"]) or "").endswith("block_stack"):
                    popping |= ops
    if driver is None:
        raise CheckError("resolve_special_instrumentation: no arm pushes block_stack")
    for o in sorted(openers if openers_clause else ()):
        ok = o in pushed
        r.ob(ok, {"opener": o, "pushed": ok})
        if not ok:
            r.violate("%s | opener %s" % (rs["path"], o), F.loc(rs, driver),
                      "block opener %s is not pushed on block_stack: its `end` pops the enclosing block, so block ids (exit/alt/semantic-after targets) are wrong inside and after it" % o)
    ok = popping == {"End"}
    r.ob(ok, {"pop_on": sorted(popping)})
    if not ok:
        r.violate("%s | pop" % rs["path"], F.loc(rs, driver), "block_stack is popped on %s (expected exactly End)" % sorted(popping))
    # (2) block-style set agreement
    sites = {}
    for name, kw in (("is_block_style_op", dict(self_adt="InstrumentationFlag")), ("resolve_block_entry", {}),
                     ("plan_resolution_block_exit", {}), ("plan_resolution_block_alt", {}), ("plan_resolution_semantic_after", {})):
        fn = F.one_fn(name=name, **kw)
        r.analysed.append(fn["path"])
        if name == "is_block_style_op":
            acc = set()
            for m in op_matches(fn):
                for arm in m["arms"]:
                    if arm["body"].get("lit") == "Bool(true)":
                        acc |= arm_ops(arm)[0]
        else:
            acc = accepted_ops_sem(F, fn) - {"<other>"}
        sites[name] = (fn, acc)
    for name, (fn, acc) in sites.items():
        got = acc & (BLOCK_STYLE | openers)
        if name == "plan_resolution_semantic_after":
            got = acc - branch_ops_from_adt(F)
        ok = got == BLOCK_STYLE
        r.ob(ok, {"site": name, "block_style_ops": sorted(got)})
        if not ok:
            r.violate("%s | block-style-set" % fn["path"], F.loc(fn),
                      "%s handles block-style operators %s; the accepting predicate is_block_style_op and the other resolvers use %s" % (name, sorted(got), sorted(BLOCK_STYLE)))
    # (3) branch set
    br = branch_ops_from_adt(F)
    r.count("adt_branch_ops", len(br))
    fnb = F.one_fn(name="is_branching_op", self_adt="InstrumentationFlag")
    accb = set()
    for m in op_matches(fnb):
        for arm in m["arms"]:
            if arm["body"].get("lit") == "Bool(true)":
                accb |= arm_ops(arm)[0]
    psa = sites["plan_resolution_semantic_after"][1] - BLOCK_STYLE
    for label, got, fn in (("is_branching_op", accb, fnb), ("plan_resolution_semantic_after", psa, sites["plan_resolution_semantic_after"][0])):
        ok = got == br
        r.ob(ok, {"site": label, "branch_ops": sorted(got)})
        if not ok:
            r.violate("%s | branch-set" % fn["path"], F.loc(fn), "%s handles branch operators %s, the Operator ADT has %s" % (label, sorted(got), sorted(br)))
    cbf = F.one_fn(name="create_bool_flag")
    r.analysed.append(cbf["path"])
    cond = accepted_ops_sem(F, cbf, work=lambda n: n.get("k") == "MethodCall" and n["method"] in ("after_at", "inject_all")) - {"<other>"}
    want_cond = br - {"Br", "BrTable"}
    ok = cond == want_cond
    r.ob(ok, {"site": "create_bool_flag", "conditional_branches": sorted(cond)})
    if not ok:
        r.violate("%s | conditional-branch-set" % cbf["path"], F.loc(cbf),
                  "create_bool_flag injects the fall-through copy for %s; conditional branches are %s" % (sorted(cond), sorted(want_cond)))
    # (4) function exit
    rfe = F.one_fn(name="resolve_function_exit")
    r.analysed.append(rfe["path"])
    ex = accepted_ops_sem(F, rfe, work=lambda n: n.get("k") == "MethodCall" and n["method"] == "inject_all") - {"<other>"}
    want = exit_ops_from_adt(F)
    r.count("adt_exit_ops", len(want))
    for o in sorted(want):
        ok = o in ex
        r.ob(ok, {"exit_op": o, "handled": ok})
        if not ok:
            r.violate("%s | exit-op %s" % (rfe["path"], o), F.loc(rfe), "operator %s leaves the function (or traps explicitly) but resolve_function_exit does not place the exit probe before it" % o)
    for o in sorted(ex - want):
        r.info.append("resolve_function_exit also handles %s" % o)
    return r


def _returns_true_from_every_working_arm(fn):
    """planner shape: `let mut flag = false; match op { arms.. } flag`.  None if every arm that does any work (contains a
    call) assigns `flag = true` under no further conditional; else the reason."""
    body = fn["body"]
    tail = peel(body.get("expr") or {})
    if tail.get("k") == "Lit" and tail.get("lit") == "Bool(true)":
        return None
    if not (tail.get("k") == "Path" and tail.get("res", {}).get("r") == "local"):
        return "its result is not a simple flag"
    hid = tail["res"]["hid"]
    ms = [m for m in walk(body) if m.get("k") == "Match" and "Operator" in (m.get("scrut_ty") or "")]
    if not ms:
        return "no match on the operator found"
    for arm in ms[0]["arms"]:
        works = any(x.get("k") in ("Call", "MethodCall") for x in walk(arm["body"]))
        if not works:
            continue
        sets = [x for x in walk(arm["body"]) if x.get("k") == "Assign" and peel(x["lhs"]).get("res", {}).get("hid") == hid and peel(x["rhs"]).get("lit") == "Bool(true)"]
        if not any(not conditional_ancestors(arm["body"], x) for x in sets):
            vs = sorted({v for _, v in pat_variants(arm["pat"])[0] if v})
            return "its arm for %s does work without unconditionally reporting true" % "/".join(vs[:4])
    return None


def resolve_clears(F):
    r = RuleResult("R-RESOLVE-CLEARS",
                   "every special list that resolve_special_instrumentation lowers is cleared after lowering with the matching mode constant (block_entry/block_exit/semantic_after via clear_instr_at(.., M) following the resolver call in the same guarded block; block_alt on a successful plan; function entry/exit lists cleared)")
    rs = F.one_fn(name="resolve_special_instrumentation", self_adt="Module")
    r.analysed.append(rs["path"])
    pair = {"resolve_block_entry": "BlockEntry", "plan_resolution_block_exit": "BlockExit",
            "plan_resolution_semantic_after": "SemanticAfter", "plan_resolution_block_alt": "BlockAlt"}
    found = {}

    def clear_modes(node):
        out = []
        for n in walk(node):
            if n.get("k") == "MethodCall" and n["method"] == "clear_instr_at":
                for a in n["args"]:
                    for x in walk(a):
                        if x.get("k") == "Path" and x.get("res", {}).get("adt") == IM and x["res"].get("variant"):
                            out.append(x["res"]["variant"])
        return out

    # Every resolver call P must be followed, on every path on which P ran, by the clear of its own mode:
    #  (a) P and the clear C sit in one block, C after P, C under no conditional below their common ancestor; or
    #  (b) `if .. P(..) { C }` — the clear depends on P's boolean result; then P must return true from every arm
    #      that does any work (otherwise a lowered-but-not-cleared list is lowered again by the next encode).
    def clear_nodes(node):
        out = []
        for n in walk(node):
            if n.get("k") == "MethodCall" and n["method"] == "clear_instr_at":
                for a in n["args"]:
                    for x in walk(a):
                        if x.get("k") == "Path" and x.get("res", {}).get("adt") == IM and x["res"].get("variant"):
                            out.append((n, x["res"]["variant"]))
        return out

    all_clears = clear_nodes(rs["body"])
    body = rs["body"]
    for P in walk(body):
        if not (P.get("k") == "Call" and P.get("callee") and P["callee"].split("::")[-1] in pair):
            continue
        res = P["callee"].split("::")[-1]
        mode = pair[res]
        verdict = None
        modes_here = []
        for C, m in all_clears:
            l = lca(body, P, C)
            if l is None or not sp_before(P, C):
                continue
            # only clears in the innermost guarded region of P count: the LCA must not be the function-level loop
            pth = path_to(body, P)
            depth_l = next(i for i, (n, _) in enumerate(pth) if n is l)
            if len(pth) - depth_l > 8:
                continue
            conds = conditional_ancestors(body, C, below=l)
            if l.get("k") == "If" and any(x is P for x in walk(l["cond"])) and any(x is C for x in walk(l["then"])):
                inner = [c for c in conds if c is not l]
                if not inner:
                    modes_here.append(m)
                    if m == mode:
                        verdict = ("on-result", C)
            elif not conds:
                modes_here.append(m)
                if m == mode:
                    verdict = verdict or ("always", C)
            elif len(conds) == 1 and conds[0].get("k") == "If" and peel(conds[0]["cond"]).get("k") == "Path" and any(x is C for x in walk(conds[0]["then"])):
                # `let matched = match list { Some(l) if .. => P(..), _ => false }; if matched { C }`: the clear depends on P's
                # result through a bool local
                from vlib.facts import binding_site
                _p, init_, _k = binding_site(body, peel(conds[0]["cond"]).get("res", {}).get("hid"))
                if isinstance(init_, dict) and any(x is P for x in walk(init_)):
                    modes_here.append(m)
                    if m == mode:
                        verdict = ("on-result", C)
        found.setdefault(res, []).append(modes_here)
        # the resolver itself runs whenever its list is pending: between the per-instruction region and the call only
        # conditions on its own list, on the delete_block state (block alt) or on the operator may stand
        own = {"resolve_block_entry": "block_entry", "plan_resolution_block_exit": "block_exit",
               "plan_resolution_semantic_after": "semantic_after", "plan_resolution_block_alt": "block_alt"}[res]
        foreign = None
        for c_ in conditional_ancestors(body, P) or []:
            cd = c_.get("cond") if c_.get("k") == "If" else None
            if cd is None:
                continue
            names_ = {x["res"].get("name") for x in walk(cd) if x.get("k") == "Path" and x.get("res", {}).get("r") == "local"} | \
                     {x["name"] for x in walk(cd) if x.get("k") == "Field"} | {x["method"] for x in walk(cd) if x.get("k") == "MethodCall"}
            others_ = {"block_entry", "block_exit", "semantic_after", "block_alt", "before", "after", "alternate"} - {own}
            if own in names_ and (names_ & others_):
                foreign = c_   # e.g. `!after.instrs.ends_with(&block_entry.instrs)`: the state of another list decides
                continue
            if own in names_ or "delete_block" in names_ or "has_instr" in names_ or "has_special_instr" in names_ or "num_local_functions" in names_ \
                    or any(x.get("k") == "LetExpr" for x in walk(cd)) and (own in names_ or "instrumentation" in names_ or "kind" in names_ or "get_kind_mut" in names_ or "get_kind" in names_):
                continue
            if not (names_ & {"block_entry", "block_exit", "semantic_after", "block_alt", "before", "after", "alternate"}) and any(x.get("k") == "LetExpr" for x in walk(cd)):
                continue
            foreign = c_
        okf = foreign is None
        r.ob(okf, {"resolver": res, "runs_whenever_its_list_is_pending": okf})
        if not okf:
            r.violate("%s | %s extra guard" % (rs["path"], res), F.loc(rs, P),
                      "%s is called only if an additional condition (line %s) holds, while its list is cleared regardless: a pending %s body can be discarded without being lowered" % (res, foreign["sp"][0], own))
        if verdict and verdict[0] == "on-result" and (F.by_path.get(P["callee"]) or [{}])[0].get("ret") not in (None, "bool"):
            r.undecided("%s: the clear depends on a result that is not a plain flag" % res)
        elif verdict and verdict[0] == "on-result":
            tgt = F.by_path.get(P["callee"])
            why = _returns_true_from_every_working_arm(tgt[0]) if tgt else "planner body not found"
            ok = why is None
            r.ob(ok, {"resolver": res, "clear": "conditional on the planner's result", "planner_total": ok})
            if not ok:
                r.violate("%s | %s partial-result" % (rs["path"], res), F.loc(rs, P),
                          "the %s list is cleared only when %s returns true, but %s: a body that was lowered (or flag-instrumented) without being reported stays in the list and is lowered again by the next encode" % (mode, res, why))
    non_bool = set()
    for res in pair:
        t_ = [f for f in getattr(F, "all_fns", F.fns) if f["kind"] in ("Fn", "AssocFn") and f["name"] == res]
        if len(t_) == 1 and res == "plan_resolution_block_alt" and (t_[0].get("ret") or "") != "bool":
            non_bool.add(res)
    for res, mode in pair.items():
        sites = found.get(res, [])
        if res in non_bool and not (bool(sites) and all(mode in cl for cl in sites)):
            # the planner reports what it did through a richer value than a flag: how the call sites turn that value into
            # the clear is not understood
            r.undecided("%s returns `%s`, not a flag: the pairing of its result with the clearing of the %s list was not analysed" % (
                res, [f for f in getattr(F, "all_fns", F.fns) if f["name"] == res][0].get("ret"), mode))
            continue
        ok = bool(sites) and all(mode in cl for cl in sites)
        r.ob(ok, {"resolver": res, "sites": len(sites), "cleared_with": sorted({m for cl in sites for m in cl})})
        if not ok:
            r.violate("%s | %s" % (rs["path"], res), F.loc(rs),
                      "after %s the list for mode %s is not cleared on every path at every call site (clears found per site: %s): the list would be lowered again / reported as unresolved" % (res, mode, sites))
        for cl in sites:
            extra = set(cl) - {mode}
            if extra:
                r.ob(False)
                r.violate("%s | %s wrong-mode" % (rs["path"], res), F.loc(rs), "site of %s also clears %s" % (res, sorted(extra)))
    r.count("resolver_sites", sum(len(v) for v in found.values()))
    # function entry / exit lists cleared: `func.instr_flag.exit.instrs.clear()` and `.entry.instrs.clear()`
    cleared = set()
    for n in walk(rs["body"]):
        if n.get("k") == "MethodCall" and n["method"] == "clear":
            pp = place_path(n["recv"]) or ""
            for f in ("entry", "exit"):
                if pp.endswith(".instr_flag.%s.instrs" % f):
                    cleared.add(f)
    for f in ("entry", "exit"):
        ok = f in cleared
        why = "is not cleared"
        if ok:
            saves = [n for n in walk(rs["body"]) if n.get("k") == "MethodCall" and n["method"] in ("clone", "take", "drain") and (place_path(n["recv"]) or "").endswith(".instr_flag.%s" % f)]
            saves += [n for n in walk(rs["body"]) if n.get("k") == "MethodCall" and n["method"] in ("clone", "take", "drain") and (place_path(n["recv"]) or "").endswith(".instr_flag.%s.instrs" % f)]
            clears = [n for n in walk(rs["body"]) if n.get("k") == "MethodCall" and n["method"] == "clear" and (place_path(n["recv"]) or "").endswith(".instr_flag.%s.instrs" % f)]
            if not saves:
                ok, why = False, "is cleared but its saving copy was not found"
            for S in saves:
                good = False
                for C in clears:
                    l = lca(rs["body"], S, C)
                    if l is not None and sp_before(S, C) and not conditional_ancestors(rs["body"], C, below=l):
                        good = True
                if not good:
                    ok, why = False, "is cleared only under a further condition after being saved for lowering (it is lowered again by the next encode on the other branch)"
        r.ob(ok)
        if not ok:
            r.violate("%s | func-%s" % (rs["path"], f), F.loc(rs), "function %s list %s" % (f, why))
    return r


def special_flag(F):
    r = RuleResult("R-SPECIAL-FLAG",
                   "the `is special` result of Instruction::add_instr is never dropped: every caller ORs it into has_special_instr of the owning function; direct writes to a special list set the flag; special-mode arms of add_instr push and return true or diverge; FuncInstrFlag::add_instr sets the flag")
    target = F.one_fn(name="add_instr", self_adt="Instruction")
    callers = []
    for fn in F.fns:
        if fn.get("body") is None:
            continue
        for n in walk(fn["body"]):
            if n.get("k") in ("MethodCall", "Call") and (n.get("inst") or n.get("callee")) == target["path"]:
                callers.append((fn, n))
    r.count("add_instr_call_sites", len(callers))
    for fn, call in callers:
        r.analysed.append(fn["path"])
        # find the statement using the call: must be `let x = call; … has_special_instr |= x` or `… |= call`
        used = False
        bound = None
        for st in walk(fn["body"]):
            if st.get("k") == "Let" and st.get("init") is call and st["pat"].get("k") == "Binding":
                bound = st["pat"]["hid"]
        for n in walk(fn["body"]):
            if n.get("k") == "AssignOp" and n["op"].startswith("|") and (place_path(n["lhs"]) or "").endswith("has_special_instr"):
                rhs = n["rhs"]
                if rhs is call:
                    used = True
                if bound is not None and rhs.get("k") == "Path" and rhs.get("res", {}).get("hid") == bound:
                    used = True
        r.ob(used, {"caller": fn["path"], "result_reaches_has_special_instr": used})
        if not used:
            r.violate("%s | drops add_instr result" % fn["path"], F.loc(fn, call),
                      "the bool returned by Instruction::add_instr (injection was a special mode) is dropped here: a special-mode injection through this path is never resolved, i.e. silently lost")
    # direct writes to special lists: a `block_alt = Some(..)` (the request to remove/replace a construct)
    #   (A) is made only under the test that the opcode opens a construct — the same test add_instr applies — so that a
    #       request the resolver cannot honour is rejected at the call instead of being stored and never looked at;
    #   (B) is followed, in every API function that makes it (directly or through a setter on the flag/instruction), by
    #       raising the function's has_special_instr, or the resolver never visits the function.
    from vlib.facts import guard_conditions

    def raises_flag(g):
        return any((x.get("k") == "AssignOp" and (place_path(x["lhs"]) or "").endswith("has_special_instr")) or
                   (x.get("k") == "Assign" and (place_path(x["lhs"]) or "").endswith("has_special_instr") and "Bool(true)" in str(peel(x["rhs"]).get("lit")))
                   for x in walk(g["body"]))

    def op_test(cond):
        # a call of the block-style predicate, or a matches!/match on the operator
        for x in walk(cond):
            if x.get("k") in ("Call", "MethodCall") and (x.get("callee") or x.get("inst") or "").split("::")[-1] in ("is_block_style_op",):
                return True
            if x.get("k") == "Match" and "Operator" in (x.get("scrut_ty") or ""):
                return True
        return False
    setters = set()
    n_w = 0
    for fn in F.all_fns:
        if fn.get("body") is None:
            continue
        for n in walk(fn["body"]):
            if n.get("k") != "Assign":
                continue
            pp = place_path(n["lhs"]) or ""
            rhs = peel(n["rhs"])
            is_some = rhs.get("k") == "Call" and (rhs.get("fres") or {}).get("variant") == "Some"
            if not ((pp.endswith(".block_alt") or pp == "self.block_alt") and is_some):
                continue
            if fn["name"] == "add_instr" and (fn.get("self_adt") or "").endswith("::InstrumentationFlag"):
                continue        # add_instr's own acceptance test is judged by cases on the mode (clause below)
            n_w += 1
            in_flag_impl = (fn.get("self_adt") or "").endswith(("::InstrumentationFlag", "::Instruction"))
            if in_flag_impl:
                setters.add(fn["path"])
            conds = guard_conditions(fn["body"], n)
            tested = any(pol is True and op_test(c) for pol, c in conds if pol in (True, False))
            if not tested:
                # the test may be delegated to a checker that panics itself: `Self::check_mode_applies_to(BlockAlt, op);`
                # before the write, on every path
                from vlib.facts import uncond_before as _ub
                for P in walk(fn["body"]):
                    if P.get("k") in ("Call", "MethodCall") and not any(y is n for y in walk(P)):
                        ib = (P.get("inlined") or {}).get("body")
                        if ib is None:
                            tgt_ = F.by_path.get(P.get("inst") or P.get("callee") or "")
                            ib = tgt_[0].get("body") if tgt_ and len(tgt_) == 1 and (tgt_[0].get("self_adt") or "").endswith(("::InstrumentationFlag", "::Instruction")) else None
                        if ib is None:
                            continue
                        if op_test(ib) and any(y.get("ty") == "!" or "panic" in str(y.get("exp") or "") for y in walk(ib)) and _ub(fn["body"], P, n)[0]:
                            tested = True
                            break
            other = any(pol in (True, False) and any(y.get("k") == "Field" and y["name"] == "op" for y in walk(c)) for pol, c in conds)
            if not tested and other:
                r.undecided("%s: block_alt is set under a test on the opcode of a shape that is not recognised" % fn["path"])
            else:
                r.ob(tested, {"fn": fn["path"], "writes": "block_alt", "under the block-style opcode test": tested})
                if not tested:
                    r.violate("%s | block_alt set for any opcode" % fn["path"], F.loc(fn, n),
                              "block_alt is set without testing that the instruction opens a construct (add_instr applies is_block_style_op and panics otherwise): a block-alternate request on any other instruction is accepted and then never looked at by the resolver — silently lost instead of rejected at the call")
            if not in_flag_impl:
                sets = raises_flag(fn)
                r.analysed.append(fn["path"])
                r.ob(sets, {"fn": fn["path"], "writes": "block_alt", "sets_flag": sets})
                if not sets:
                    r.violate("%s | block_alt write without flag" % fn["path"], F.loc(fn, n), "block_alt is set directly without raising has_special_instr")
    # wrappers on the flag / instruction that reach a setter (Instruction::empty_block_alt → InstrumentationFlag::set_empty_block_alt)
    grew = True
    while grew:
        grew = False
        for fn in F.all_fns:
            if fn.get("body") is None or fn["path"] in setters or not (fn.get("self_adt") or "").endswith(("::InstrumentationFlag", "::Instruction")):
                continue
            if any(c.get("k") in ("Call", "MethodCall") and (c.get("inst") or c.get("callee") or "") in setters for c in walk(fn["body"])):
                setters.add(fn["path"])
                grew = True
    setters = {p_ for p_ in setters if p_.split("::")[-1] != "add_instr"}     # add_instr reports through its bool (clause above)
    for fn in F.fns:
        if fn.get("body") is None or (fn.get("self_adt") or "").endswith(("::InstrumentationFlag", "::Instruction")):
            continue
        calls = [c for c in walk(fn["body"]) if c.get("k") in ("Call", "MethodCall") and (c.get("inst") or c.get("callee") or "") in setters]
        if calls:
            sets = raises_flag(fn)
            r.analysed.append(fn["path"])
            r.ob(sets, {"fn": fn["path"], "requests block_alt through": calls[0].get("method") or "setter", "sets_flag": sets})
            if not sets:
                r.violate("%s | block_alt write without flag" % fn["path"], F.loc(fn, calls[0]), "block_alt is requested without raising has_special_instr")
    r.count("block_alt_writes", n_w)
    # (C) "an empty replacement removes without emitting": whatever was recorded in the slot before, the *empty* request
    # overwrites it — a get-or-insert keeps a body injected earlier, so the construct is replaced instead of removed
    for fn in F.fns:
        if fn.get("body") is None or fn["name"] not in ("empty_block_alt_at", "empty_alternate_at"):
            continue
        slot = "block_alt" if "block" in fn["name"] else "alternate"
        bodies = [fn["body"]]
        for c in walk(fn["body"]):
            if c.get("k") in ("Call", "MethodCall") and not isinstance(c.get("inlined"), dict):
                t_ = F.by_path.get(c.get("inst") or c.get("callee") or "")
                if t_ and len(t_) == 1 and t_[0].get("body") is not None and (t_[0].get("self_adt") or "").endswith(("::InstrumentationFlag", "::Instruction")):
                    bodies.append(t_[0]["body"])
                    for c2 in walk(t_[0]["body"]):
                        t2 = F.by_path.get(c2.get("inst") or c2.get("callee") or "") if c2.get("k") in ("Call", "MethodCall") else None
                        if t2 and len(t2) == 1 and t2[0].get("body") is not None and (t2[0].get("self_adt") or "").endswith(("::InstrumentationFlag", "::Instruction")):
                            bodies.append(t2[0]["body"])
        assigns = [x for b in bodies for x in walk(b) if x.get("k") == "Assign" and (place_path(x["lhs"]) or "").endswith(slot)]
        keeps = [x for b in bodies for x in walk(b) if x.get("k") == "MethodCall" and x["method"] in ("get_or_insert_default", "get_or_insert_with", "get_or_insert") and (place_path(x["recv"]) or "").endswith(slot)]
        if not assigns and not keeps:
            r.undecided("%s: how the empty %s is stored was not recognised" % (fn["path"], slot))
            continue
        okc = bool(assigns) and not keeps
        r.ob(okc, {"fn": fn["path"], "empty %s overwrites the slot" % slot: okc})
        if not okc:
            r.violate("%s | empty %s keeps an earlier body" % (fn["path"], slot), F.loc(fn),
                      "%s stores the empty %s with a get-or-insert: a body injected earlier for the same instruction survives, so the instruction/construct is replaced by that body instead of being removed without emission" % (fn["name"], slot))
    # InstrumentationFlag::add_instr, by cases on the current mode (shape-independent): it returns true exactly for the
    # special modes (or diverges because the mode does not apply to the operator), false for the plain ones
    from rules.modes import mode_case_callbacks
    ai = F.one_fn(name="add_instr", self_adt="InstrumentationFlag")
    r.analysed.append(ai["path"])
    special = {"SemanticAfter", "BlockEntry", "BlockExit", "BlockAlt"}
    # the result may be spelled `special.is_some()` where `special` is what a per-mode classifier returned (None for the
    # plain modes, Some(..) for the special ones): then the Option constructors inside that local's initialiser decide
    from vlib.facts import binding_site
    tail_ = ai["body"].get("expr") if ai["body"].get("k") == "Block" else None
    tail_ = peel(tail_) if isinstance(tail_, dict) else {}
    opt_ids, opt_neg = set(), False
    if tail_.get("k") == "MethodCall" and tail_["method"] in ("is_some", "is_none") and peel(tail_["recv"]).get("k") == "Path":
        _p, init_, _k = binding_site(ai["body"], peel(tail_["recv"]).get("res", {}).get("hid"))
        if isinstance(init_, dict):
            opt_ids = {id(x) for x in walk(init_)}
            opt_neg = tail_["method"] == "is_none"
    for M in sorted(F.variants(IM)):
        sel, inl = mode_case_callbacks(F, IM, M)

        def cl(n):
            if n.get("k") == "Lit" and n.get("lit", "").startswith("Bool") and not opt_ids:
                return n["lit"]
            if opt_ids and id(n) in opt_ids:
                if n.get("k") == "Call" and (n.get("fres") or {}).get("variant") == "Some":
                    return "Bool(false)" if opt_neg else "Bool(true)"
                if n.get("k") == "Path" and (n.get("res") or {}).get("variant") == "None":
                    return "Bool(true)" if opt_neg else "Bool(false)"
            return None
        rets = set()
        for ev, st in normal_paths(paths(ai["body"], cl, select_arms=sel, inline_calls=inl)):
            rets.add(ev[-1] if ev else None)
        if None in rets:
            r.undecided("add_instr in mode %s: how the returned flag is computed was not recognised" % M)
            continue
        # the value returned in the arm for M itself: a special mode reports `true` as a constant — a flag computed from the
        # current contents of a list (`self.block_alt.is_none()`: "only the first injection is special") is false on some
        # histories, and the function is then never visited by the resolver
        if M in special and not opt_ids:
            from rules.fields import _tail_values
            ret_leaves = {id(x) for x in _tail_values(ai["body"])}
            for m_ in walk(ai["body"]):
                if m_.get("k") != "Match":
                    continue
                picked = sel(m_)
                if not picked:
                    continue
                for i_ in picked:
                    for tv in _tail_values(m_["arms"][i_]["body"]):
                        if id(tv) not in ret_leaves:
                            continue        # the match computes something else (e.g. selects the target list), not the result
                        tv = peel(tv)
                        src_ = tv
                        if tv.get("k") == "Path" and tv.get("res", {}).get("r") == "local":
                            _p, init_, _k = binding_site(ai["body"], tv["res"]["hid"])
                            src_ = peel(init_) if isinstance(init_, dict) else tv
                        state = [y for y in walk(src_) if y.get("k") == "Field" and (place_path(y) or "").startswith("self.")]
                        if src_.get("k") != "Lit" and state:
                            r.ob(False, {"mode": M, "returns": "computed from " + (place_path(state[0]) or "?")})
                            r.violate("%s | %s returns computed flag" % (ai["path"], M), F.loc(ai, tv if "sp" in tv else None),
                                      "with mode %s add_instr returns a value computed from `%s` instead of the constant true: on a history where that state differs (a slot created earlier by a tag, a second injection) the special-mode injection is reported as ordinary and the resolver never visits the function" % (M, place_path(state[0])))
        want = "Bool(true)" if M in special else "Bool(false)"
        ok = rets == {want}
        r.ob(ok, {"mode": M, "returns": sorted(map(str, rets))})
        if not ok:
            r.violate("%s | %s returns" % (ai["path"], M), F.loc(ai),
                      "with mode %s add_instr returns %s on some path (expected %s): the owner would %s" % (M, sorted(map(str, rets)), want, "never resolve it" if want == "Bool(true)" else "resolve needlessly"))
    # monotonic: the flag is only ever raised (`|= ..` or `= true`); recomputing or clearing it anywhere but after a
    # completed resolution loses pending instruction-level special injections (has_instr() of the function flag only
    # knows about entry/exit bodies)
    n_w = 0
    for fn in F.fns:
        if fn.get("body") is None:
            continue
        for n in walk(fn["body"]):
            if n.get("k") == "Assign" and (place_path(n["lhs"]) or "").endswith("has_special_instr"):
                n_w += 1
                ok_w = peel(n["rhs"]).get("lit") == "Bool(true)"
                r.ob(ok_w, {"fn": fn["path"], "writes_flag": "= true" if ok_w else "= <computed>"})
                if not ok_w:
                    r.violate("%s | flag recomputed" % fn["path"], F.loc(fn, n), "has_special_instr is overwritten with a computed value: a pending special-mode injection recorded earlier (block entry/exit, semantic after, block alt) is forgotten and never lowered")
            if n.get("k") == "AssignOp" and (place_path(n["lhs"]) or "").endswith("has_special_instr"):
                n_w += 1
                ok_w = n["op"].startswith("|")
                r.ob(ok_w)
                if not ok_w:
                    r.violate("%s | flag op %s" % (fn["path"], n["op"]), F.loc(fn, n), "has_special_instr is combined with `%s`: the flag can be lowered" % n["op"])
    r.count("flag_writes", n_w)
    fa = F.one_fn(name="add_instr", self_adt="FuncInstrFlag")
    sets = any(n.get("k") == "Assign" and (place_path(n["lhs"]) or "").endswith("has_special_instr") and n["rhs"].get("lit") == "Bool(true)" for n in walk(fa["body"]))
    r.analysed.append(fa["path"])
    r.ob(sets)
    if not sets:
        r.violate("%s | flag" % fa["path"], F.loc(fa), "FuncInstrFlag::add_instr does not set has_special_instr")
    return r


def entry_preserve(F):
    r = RuleResult("R-ENTRY-PRESERVE",
                   "in resolve_special_instrumentation the saved function-entry body is (re)assigned only where it is known to be None (the exit-wrapper setup must extend an existing entry body, never replace it)")
    rs = F.one_fn(name="resolve_special_instrumentation", self_adt="Module")
    r.analysed.append(rs["path"])
    # the local holding the cloned entry list: `let mut X = None; … X = Some(func.instr_flag.entry.clone())`
    entry_hid = None
    name = None
    for n in walk(rs["body"]):
        if n.get("k") == "Assign":
            if any((place_path(x) or "").endswith(".instr_flag.entry") for x in walk(n["rhs"]) if x.get("k") == "Field"):
                l = n["lhs"]
                if l.get("k") == "Path" and l["res"].get("r") == "local":
                    entry_hid, name = l["res"]["hid"], l["res"]["name"]
    if entry_hid is None:
        raise CheckError("resolve_special_instrumentation: saved entry-body local not found")
    n_writes = 0

    def is_entry_local(e):
        e = peel(e)
        return e.get("k") == "Path" and e.get("res", {}).get("hid") == entry_hid

    def visit(node, none_known):
        nonlocal n_writes
        if isinstance(node, list):
            for v in node:
                visit(v, none_known)
            return
        if not isinstance(node, dict):
            return
        k = node.get("k")
        if k == "If":
            c = node["cond"]
            visit(c, none_known)
            then_none, else_none = none_known, none_known
            if c.get("k") == "LetExpr" and c["pat"].get("variant") == "Some" and is_entry_local(c["init"]):
                else_none = True
            for x in walk(c):
                if x.get("k") == "MethodCall" and x["method"] == "is_none" and is_entry_local(x["recv"]):
                    then_none = True
            visit(node["then"], then_none)
            if "else" in node:
                visit(node["else"], else_none)
            return
        overwrite = False
        if k == "Assign" and is_entry_local(node["lhs"]):
            # the initial save `X = Some(entry.clone())` is the definition, not an overwrite
            is_save = any((place_path(x) or "").endswith(".instr_flag.entry") for x in walk(node["rhs"]) if x.get("k") == "Field")
            overwrite = not is_save
        if k == "MethodCall" and node["method"] in ("insert", "replace", "take", "get_or_insert_with", "get_or_insert") and is_entry_local(node["recv"]):
            overwrite = node["method"] in ("insert", "replace", "take")
        if overwrite:
            n_writes += 1
            r.ob(none_known, {"write": k + ":" + str(node.get("method", "=")), "under_none_check": none_known})
            if not none_known:
                r.violate("%s | entry-overwrite" % rs["path"], F.loc(rs, node),
                          "the saved function-entry body `%s` is overwritten where it may hold the user's entry probe (not under a None check): entry+exit on one function loses the entry probe" % name)
        for v in node.values():
            if isinstance(v, (dict, list)):
                visit(v, none_known)

    visit(rs["body"], False)
    if n_writes == 0:
        # nothing but the initial save ever assigns the saved entry body (e.g. the wrapper setup uses get_or_insert_with):
        # it cannot be overwritten
        r.ob(True, {"writes that could overwrite the saved entry body": 0})
    r.count("entry_rewrites", n_writes)
    return r


def walk_bounds(F):
    """R-WALK-BOUNDS: the per-function walks that lower special instrumentation and emit the code section visit every
    element of the function vector (imports/deleted entries are skipped by kind inside the loop).  Bounding the walk by a
    counter (imports.num_funcs is never decremented on delete; num_local_functions is not incremented by import→local
    conversion; added imports sit after the locals until re-indexing) silently skips local functions."""
    r = RuleResult("R-WALK-BOUNDS",
                   "the function walks of resolve_special_instrumentation and of the code-section emitter range over 0..self.functions.len(): neither bound is derived from an import/local counter")
    n = 0
    for name in ("resolve_special_instrumentation", "encode_internal"):
        fn = F.one_fn(name=name, self_adt="Module")
        r.analysed.append(fn["path"])
        for m in walk(fn["body"]):
            if not (m.get("k") == "Match" and m.get("src") == "ForLoopDesugar"):
                continue
            rng = None
            for x in walk(m["scrut"]):
                if x.get("k") == "Struct" and (x.get("adt") or "").endswith("ops::Range") and x.get("fields"):
                    rng = dict(x["fields"])
            if not rng or "start" not in rng:
                continue
            # is the loop variable used as a FunctionID?
            binds = set()
            for lp in walk(m["arms"][0]["body"]):
                if lp.get("k") == "Match" and lp is not m:
                    for arm in lp["arms"]:
                        if arm["pat"].get("variant") == "Some":
                            binds |= {b["hid"] for b in walk(arm["pat"]) if b.get("k") == "Binding"}
                    break
            as_fid = False
            for c in walk(m["arms"][0]["body"]):
                if c.get("k") == "Call" and (c.get("fres") or {}).get("path", "").endswith("FunctionID") or (c.get("k") == "Call" and "FunctionID" in (c.get("ty") or "")):
                    if any(y.get("k") == "Path" and y.get("res", {}).get("hid") in binds for y in walk(c)):
                        as_fid = True
            if not as_fid:
                continue
            n += 1
            start, end = peel(rng["start"]), peel(rng["end"])
            s_ok = start.get("k") == "Lit" and lit_int(start.get("lit")) == 0
            e = end
            while isinstance(e, dict) and e.get("k") == "Cast":
                e = peel(e["a"])
            e_ok = isinstance(e, dict) and e.get("k") == "MethodCall" and e["method"] == "len" and (place_path(e["recv"]) or "") == "self.functions"
            counters = sorted({y["name"] for b_ in (rng["start"], rng["end"]) for y in walk(b_) if y.get("k") == "Field" and y["name"].startswith("num_")} |
                              {y["res"].get("name") for b_ in (rng["start"], rng["end"]) for y in walk(b_) if y.get("k") == "Path" and y.get("res", {}).get("r") == "local" and y["res"].get("name") != "self"})
            ok = s_ok and e_ok
            r.ob(ok, {"fn": name, "range": "0..self.functions.len()" if ok else "bounded by %s" % counters})
            if not ok:
                r.violate("%s | function walk bounds" % fn["path"], F.loc(fn, m),
                          "the function walk of %s is bounded by %s instead of 0..self.functions.len(): local functions outside that window (after a deleted original import, after imports added in this session, or created by converting an import) are never lowered/emitted" % (name, counters or "a computed value"))
    r.count("function_walks", n)
    if n < 2:
        raise CheckError("expected the two function walks (resolver, code section), found %d" % n)
    return r


def func_level_first(F):
    """R-FUNC-LEVEL-FIRST (C17): inside the resolver's per-instruction loop the function-level probes are handled for
    *every* visited instruction — before anything that can `continue` (block-alt deletion) — and entry before exit (at an
    index where both apply, e.g. an empty body or a leading `return`, the entry code and the wrapper `block` must come
    before the exit code)."""
    r = RuleResult("R-FUNC-LEVEL-FIRST",
                   "in resolve_special_instrumentation's instruction loop resolve_function_entry and resolve_function_exit run on every iteration (guarded only by their own lists being present/non-empty, with no earlier `continue`), entry before exit")
    rs = F.one_fn(name="resolve_special_instrumentation", self_adt="Module")
    r.analysed.append(rs["path"])
    ent = [c for c in walk(rs["body"]) if c.get("k") == "Call" and (c.get("callee") or "").endswith("::resolve_function_entry")]
    ext = [c for c in walk(rs["body"]) if c.get("k") == "Call" and (c.get("callee") or "").endswith("::resolve_function_exit")]
    if len(ent) != 1 or len(ext) != 1:
        for nm_, cs_ in (("resolve_function_entry", ent), ("resolve_function_exit", ext)):
            if not cs_:
                F.one_fn(name=nm_)       # raises AnchorInlined when the helper was inlined into the resolver (→ undecided)
        r.undecided("resolve_special_instrumentation calls resolve_function_entry/exit %d/%d times: order on the loop body not analysed" % (len(ent), len(ext)))
        return r
    E, X = ent[0], ext[0]
    # innermost for-loop body containing both
    scope = None
    for anc, _ in reversed(path_to(rs["body"], E) or []):
        if isinstance(anc, dict) and anc.get("k") == "Match" and anc.get("src") == "ForLoopDesugar" and any(y is X for y in walk(anc)):
            scope = next((a2["body"] for a2 in anc["arms"] if any(y is E for y in walk(a2["body"]))), None)
            break
    if scope is None:
        raise CheckError("resolve_special_instrumentation: entry/exit resolution not inside one instruction loop")
    for label, C in (("entry", E), ("exit", X)):
        conds = conditional_ancestors(scope, C) or []
        foreign = []
        for c in conds:
            cd = peel(c.get("cond") or {})
            own = c.get("k") == "If" and (cd.get("k") == "LetExpr" or any(x.get("k") == "MethodCall" and x["method"] == "is_empty" for x in walk(c.get("cond") or {})))
            if not own:
                foreign.append(c)
        early = None
        for x in walk(scope):
            if x.get("k") in ("Continue", "Break") and x.get("sp") and sp_before(x, C):
                inner = [a for a, _ in (path_to(scope, x) or []) if isinstance(a, dict) and a.get("k") in ("Loop", "Closure") and a is not scope]
                if not inner:
                    early = x
        ok = not foreign and early is None
        r.ob(ok, {"probe": label, "handled_on_every_instruction": ok})
        if not ok:
            r.violate("%s | %s skipped" % (rs["path"], label), F.loc(rs, C),
                      "function-%s resolution runs %s: for instructions skipped that way (e.g. those removed by a block alt, including instruction 0) the %s probe is never placed" % (
                          label, ("only under a foreign condition at line %s" % foreign[0]["sp"][0]) if foreign else ("after a `continue` at line %s" % early["sp"][0]), label))
    ok = sp_before(E, X)
    r.ob(ok, {"entry_before_exit": ok})
    if not ok:
        r.violate("%s | exit before entry" % rs["path"], F.loc(rs, X), "function-exit resolution runs before function-entry resolution: where both inject at the same index the exit code (and the wrapper's `end`) precede the entry code and the wrapper `block`")
    return r


def modifier_reset(F):
    """R-MODIFIER-RESET: FunctionModifier::inject dispatches on the *function-level* mode (a set func_entry/func_exit mode
    sends the operator to the function's entry/exit list, not to the instruction).  The modifier handed out by
    Functions::get_fn_modifier — which the resolver itself uses to lower special instrumentation — must therefore start with
    that mode cleared and with the recorded entry/exit bodies intact: on every path to FunctionModifier::init the function's
    instr_flag has had finish_instr() applied (it clears current_mode only) and nothing else of instr_flag is written."""
    from vlib.facts import uncond_before
    r = RuleResult("R-MODIFIER-RESET",
                   "Functions::get_fn_modifier clears the function-level mode (instr_flag.finish_instr()) before every FunctionModifier::init and writes nothing else of the function's instr_flag")
    fn = F.one_fn(name="get_fn_modifier", self_adt="Functions")
    r.analysed.append(fn["path"])
    inits = [c for c in walk(fn["body"]) if c.get("k") == "Call" and (c.get("callee") or "").split("::")[-1] == "init" and "FunctionModifier" in (c.get("callee") or "")]
    if not inits:
        r.undecided("get_fn_modifier: FunctionModifier::init call not found (the modifier is built some other way)")
        return r
    resets = [c for c in walk(fn["body"]) if c.get("k") == "MethodCall" and c["method"] == "finish_instr" and (place_path(c["recv"]) or "").endswith("instr_flag")]
    resets += [a for a in walk(fn["body"]) if a.get("k") == "Assign" and (place_path(a["lhs"]) or "").endswith("instr_flag.current_mode")
               and (peel(a["rhs"]).get("res") or {}).get("variant") == "None"]
    for c in inits:
        ok = any(uncond_before(fn["body"], rs_, c)[0] for rs_ in resets)
        r.ob(ok, {"FunctionModifier::init preceded by instr_flag.finish_instr()": ok})
        if not ok:
            r.violate("%s | mode not reset" % fn["path"], F.loc(fn, c),
                      "get_fn_modifier hands out a FunctionModifier without clearing the function-level mode first: while a func_entry/func_exit mode lingers, everything injected through the modifier (including the bodies the resolver lowers) goes to the function's entry/exit list")
    # finish_instr itself: leaving a mode touches the mode and nothing that was recorded (an empty alternate is a removal,
    # not garbage)
    for fi in F.fns:
        if fi["name"] != "finish_instr" or fi.get("body") is None or not (fi.get("self_adt") or "").endswith(("::InstrumentationFlag", "::FuncInstrFlag")):
            continue
        r.analysed.append(fi["path"])
        writes = set()
        for x in walk(fi["body"]):
            if x.get("k") in ("Assign", "AssignOp"):
                writes.add(place_path(x["lhs"]) or "?")
            if x.get("k") == "MethodCall" and x["method"] in ("clear", "take", "push", "insert", "remove", "truncate", "retain", "pop", "replace", "get_or_insert_default", "get_or_insert_with") and (place_path(x["recv"]) or "").startswith("self."):
                writes.add((place_path(x["recv"]) or "?") + "." + x["method"] + "()")
        okf = writes == {"self.current_mode"}
        r.ob(okf, {"finish_instr of": (fi.get("self_adt") or "").split("::")[-1], "writes": sorted(writes)})
        if not okf:
            r.violate("%s | writes %s" % (fi["path"], "+".join(sorted(writes - {"self.current_mode"})) or "nothing"), F.loc(fi),
                      "%s::finish_instr writes %s: leaving an instrumentation mode must reset `current_mode` and keep every recorded body (before/after/alternate, entry/exit) as it is" % ((fi.get("self_adt") or "").split("::")[-1], sorted(writes)))
    for a in walk(fn["body"]):
        if a.get("k") in ("Assign", "AssignOp"):
            pp = place_path(a["lhs"]) or ""
            if pp.endswith(".instr_flag") or ".instr_flag.entry" in pp or ".instr_flag.exit" in pp or pp.endswith("instr_flag.has_special_instr"):
                r.ob(False, {"write": pp})
                r.violate("%s | writes %s" % (fn["path"], pp.split(".", 1)[-1]), F.loc(fn, a),
                          "get_fn_modifier overwrites `%s`: entry/exit probe bodies (or the special-instrumentation flag) recorded earlier are discarded when a modifier is requested" % pp)
    return r


def per_function_state(F):
    """R-PER-FUNCTION-STATE: resolve_special_instrumentation walks one function at a time; the stacks that track *where in
    the function* the walk is (block nesting) belong to one function.  A Vec that the per-function loop both pushes to and
    pops from is therefore declared inside that loop, or re-initialised at the top of every iteration: a stack shared
    across functions relies on every function leaving it balanced, which the function's own final `end` (it pops the
    function-level entry) breaks."""
    from vlib.facts import path_to
    r = RuleResult("R-PER-FUNCTION-STATE",
                   "in Module::resolve_special_instrumentation every stack (a Vec pushed to and popped from inside the per-function loop) is declared inside that loop or reset at the top of each iteration")
    fn = F.one_fn(name="resolve_special_instrumentation", self_adt="Module")
    r.analysed.append(fn["path"])
    fors = [m for m in walk(fn["body"]) if m.get("k") == "Match" and m.get("src") == "ForLoopDesugar"]
    outer = [m for m in fors if not any(m is not o and any(x is m for x in walk(o)) for o in fors)]
    n = 0
    for m in outer:
        body = m["arms"][0]["body"]
        inner_lets = {st["pat"]["hid"] for st in walk(body) if st.get("k") == "Let" and st["pat"].get("k") == "Binding"}
        used = {}
        for x in walk(body):
            if x.get("k") == "MethodCall" and x["method"] in ("push", "pop"):
                rc = peel(x["recv"])
                if rc.get("k") == "Path" and rc.get("res", {}).get("r") == "local" and "Vec<" in (rc.get("ty") or ""):
                    used.setdefault(rc["res"]["hid"], {"name": rc["res"].get("name"), "m": set(), "node": x})["m"].add(x["method"])
        for hid, u in used.items():
            if u["m"] != {"push", "pop"}:
                continue
            n += 1
            inside = hid in inner_lets
            reset = any((x.get("k") == "Assign" and peel(x["lhs"]).get("res", {}).get("hid") == hid) or
                        (x.get("k") == "MethodCall" and x["method"] in ("clear", "truncate") and peel(x["recv"]).get("res", {}).get("hid") == hid)
                        for x in walk(body))
            ok = inside or reset
            r.ob(ok, {"stack": u["name"], "declared": "inside the per-function loop" if inside else ("outside, reset per iteration" if reset else "outside, never reset")})
            if not ok:
                r.violate("%s | stack %s shared across functions" % (fn["path"], u["name"]), F.loc(fn, u["node"]),
                          "the stack `%s` is pushed to and popped from while one function is walked but lives across functions and is never re-initialised: the function's final `end` pops its function-level entry, so every later function starts with a stack that is one short — branch depths resolve against the wrong block, or the walk panics on an empty stack" % u["name"])
    r.count("stacks", n)
    if n < 1:
        r.undecided("no push/pop stack found in resolve_special_instrumentation's per-function loop (state kept elsewhere): not decided")
    return r
