"""R-HASHORDER: hash iteration order (and other nondeterminism sources) never reaches the output."""
import json
import os
import re

from vlib import mirutil
from vlib.facts import walk, peel, CheckError
from vlib.report import RuleResult, VERIF

HM = re.compile(r"std::collections::(HashMap|HashSet|hash_map|hash_set)")
ITER_METHODS = ("iter", "iter_mut", "keys", "values", "values_mut", "into_iter", "drain", "retain",
                "into_keys", "into_values", "extract_if")
ORDER_FREE_TERMINALS = ("any", "all", "count", "sum", "min", "max", "len", "contains", "is_empty", "product")
NONDET = re.compile(r"^(std::time::|std::env::|std::thread::|rand::|std::process::id|std::collections::hash_map::RandomState::new|std::hash::RandomState::new)")


def short_ty(t):
    return re.sub(r"std::collections::|ir::[a-z_:]*::|'_, |'a, |'_|<'a>", "", t)


def is_hash_ty(ty):
    """is the value itself a hash container (or one of its iterators) — not an array, tuple, Vec or Option that merely
    *holds* hash containers (`for m in [&mut a, &mut b]` iterates the array, in order)"""
    t = (ty or "").strip()
    while t.startswith("&"):
        t = t[1:].strip()
        if t.startswith("mut "):
            t = t[4:].strip()
    if t.startswith(("[", "(")):
        return False
    return bool(HM.search(t.split("<")[0]))


def find_sources(F):
    """(fn, node, map_type, method) for every hash-order source in the crate (HIR)"""
    out = []
    for f in F.fns:
        if f.get("body") is None:
            continue
        for n in walk(f["body"]):
            if n.get("k") == "MethodCall" and n["method"] in ITER_METHODS and is_hash_ty(n.get("recv_ty", "")):
                out.append((f, n, n["recv_ty"], n["method"]))
            elif n.get("k") == "MethodCall" and n["method"] in ("extend", "extend_from_slice", "append", "from_iter") and n["args"] and \
                    is_hash_ty(n["args"][0].get("ty", "")) and "hash_map::" not in n["args"][0]["ty"] and "hash_set::" not in n["args"][0]["ty"] and not is_hash_ty(n.get("recv_ty", "")):
                # a hash container handed wholesale to an ordered container: `vec.extend(set)`
                out.append((f, n, n["args"][0]["ty"], "into_iter"))
            elif n.get("k") == "Call" and (n.get("callee") or "").endswith("IntoIterator::into_iter") and n["args"]:
                a = n["args"][0]
                # `for x in &map` / `for x in map` (not `for x in map.iter()`, which is caught above)
                if is_hash_ty(a.get("ty", "")) and "hash_map::" not in a["ty"] and "hash_set::" not in a["ty"]:
                    out.append((f, n, a["ty"], "into_iter"))
    return out


def _enclosing_for(fn, src):
    """the for-loop desugaring whose iterator expression contains `src`: returns (pattern, body) or None"""
    for m in walk(fn["body"]):
        if m.get("k") == "Match" and m.get("src") == "ForLoopDesugar":
            if any(x is src for x in walk(m["scrut"])):
                # arm 0: `mut iter => loop { match next(&mut iter) { None => break, Some(pat) => body } }`
                for lp in walk(m["arms"][0]["body"]):
                    if lp.get("k") == "Match" and lp is not m:
                        for arm in lp["arms"]:
                            p = arm["pat"]
                            if p.get("variant") == "Some":
                                inner = p["pats"][0] if p.get("pats") else p["fields"][0][1]
                                return inner, arm["body"]
    return None


def _sorted_before_use(fn, collect_node):
    """`let mut v: Vec<_> = <hash iter>.collect(); v.sort*();` — the first use of the local is a total sort"""
    hid = None
    for st in walk(fn["body"]):
        if st.get("k") == "Let" and st.get("init") is collect_node and st["pat"].get("k") == "Binding":
            hid = st["pat"]["hid"]
    if hid is None:
        return False
    uses = []
    for n in walk(fn["body"]):
        if n.get("k") == "Path" and n.get("res", {}).get("hid") == hid:
            uses.append(n)
    if not uses:
        return False
    first = uses[0]
    for n in walk(fn["body"]):
        if n.get("k") == "MethodCall" and n["method"] in ("sort", "sort_unstable") and peel(n["recv"]) is first:
            return True
    return False


KEY_PRESERVING = ("filter", "cloned", "copied", "iter", "into_iter", "by_ref", "inspect", "skip_while", "take_while")


def _collect_key_unique(fn, src, collect_node, method):
    """A hash-ordered iterator collected into a HashSet is order-free.  Collected into a HashMap it is order-free only
    if no two items can carry the same key (otherwise the last one in *hash order* wins): the key of every produced pair
    must be the iterated (unique) key.  Returns None if fine, else the reason."""
    ty = collect_node.get("ty", "")
    if "HashSet" in ty and "HashMap" not in ty.split("<")[0]:
        return None
    # walk the adaptor chain from the source up to collect
    chain = []
    cur = src
    while cur is not collect_node:
        nxt = None
        for n in walk(fn["body"]):
            if n.get("k") == "MethodCall" and n.get("recv") is cur:
                nxt = n
                break
        if nxt is None:
            return "through an unrecognised chain"
        chain.append(nxt)
        cur = nxt
    key_is_iter_key = method not in ("values", "values_mut", "into_values")
    single = method in ("keys", "into_keys", "values", "values_mut", "into_values")
    for n in chain[:-1]:
        m = n["method"]
        if m in KEY_PRESERVING:
            continue
        if m in ("map", "filter_map", "flat_map") and n["args"] and n["args"][0].get("k") == "Closure":
            clo = n["args"][0]
            pat = clo["params"][0] if clo.get("params") else {}
            if single:
                key_h = set(_binding_hids(pat)) if method in ("keys", "into_keys") else set()
            elif pat.get("k") == "Tuple" and len(pat.get("pats", [])) == 2:
                key_h = set(_binding_hids(pat["pats"][0]))
            else:
                key_h = set()
            tups = [t for t in walk(clo["body"]) if t.get("k") == "Tup" and len(t.get("elems", [])) == 2]
            if not key_is_iter_key or not tups:
                return "whose key is computed by a closure from the iterated value (not unique)"
            for t in tups:
                leaf = peel(t["elems"][0])
                while leaf is not None and leaf.get("k") == "MethodCall" and leaf["method"] in ("clone", "to_owned"):
                    leaf = peel(leaf["recv"])
                if not (leaf.get("k") == "Path" and leaf.get("res", {}).get("hid") in key_h):
                    return "keyed by something other than the iterated key (duplicates resolved in hash order: last wins)"
            # after this adaptor the pair key is still the iterated key
            continue
        return "through adaptor .%s()" % m
    if not key_is_iter_key:
        return "from values()"
    return None


def _binding_hids(p):
    return [b["hid"] for b in walk(p) if b.get("k") == "Binding"]


def classify_loop(F, fn, pat, body, method):
    """returns (class, detail)"""
    # key / value bindings
    key_h, val_h = set(), set()
    if method in ("keys", "into_keys"):
        key_h = set(_binding_hids(pat))
    elif method in ("values", "values_mut", "into_values"):
        val_h = set(_binding_hids(pat))
    else:
        if pat.get("k") == "Tuple" and len(pat["pats"]) == 2:
            key_h = set(_binding_hids(pat["pats"][0]))
            val_h = set(_binding_hids(pat["pats"][1]))
        else:
            val_h = set(_binding_hids(pat))
    effects = []
    for n in walk(body):
        k = n.get("k")
        if k in ("MethodCall", "Call"):
            callee = n.get("inst") or n.get("callee") or "?"
            effects.append((n, callee))
    # diagnostic only: every call comes from a print/format/log macro expansion
    MUT = {"push", "push_str", "insert", "entry", "extend", "append", "remove", "retain", "clear", "push_back", "push_front",
           "write", "write_all", "write_fmt", "swap", "sort", "truncate", "set", "replace", "take", "or_insert", "or_insert_with",
           "and_modify", "get_mut", "get_or_insert_with", "iter_mut", "values_mut", "drain"}
    non_diag = [(n, c) for n, c in effects
                if not (set(n.get("exp") or []) & {"println", "print", "eprintln", "format_args", "debug", "info", "warn", "error", "trace", "log", "format"})
                and (c in F.by_path or c.split("::")[-1] in MUT)]
    if not non_diag:
        return "diagnostic-only", [c for _, c in effects][:3]
    # keyed-injective copy: the only non-trivial effects are insert/entry into a map keyed by the iterated key
    ok = True
    detail = []
    for n, c in non_diag:
        last = c.split("::")[-1]
        if last in ("clone", "to_owned", "deref", "borrow", "into", "from", "as_ref"):
            continue
        if last in ("insert", "entry") and HM.search(n.get("recv_ty", "") if n["k"] == "MethodCall" else ""):
            karg = n["args"][0] if n["args"] else None
            leaf = peel(karg) if karg else None
            while leaf is not None and leaf.get("k") == "MethodCall" and leaf["method"] in ("clone", "to_owned"):
                leaf = peel(leaf["recv"])
            if leaf is not None and leaf.get("k") == "Path" and leaf.get("res", {}).get("hid") in key_h:
                detail.append("insert keyed by iterated key")
                continue
            ok = False
            src = "iterated value" if leaf is not None and leaf.get("res", {}).get("hid") in val_h else "other"
            detail.append("%s keyed by %s (not unique per iteration)" % (last, src))
            continue
        ok = False
        detail.append("calls " + "::".join(c.split("::")[-2:]))
    if ok:
        return "keyed-injective-copy", detail
    return "order-sensitive", detail


def hashorder(F):
    r = RuleResult("R-HASHORDER",
                   "every HashMap/HashSet iteration in the crate is consumed order-insensitively: keyed-injective copy into another map, diagnostic output, an order-free terminal, or a reviewed disjoint-sink exception; and no time/env/thread/random source is reachable from encode")
    rows = {}
    try:
        for row in json.load(open(os.path.join(VERIF, "tables", "hashorder_reviewed.json")))["rows"]:
            rows[row["key"]] = row
    except FileNotFoundError:
        pass
    srcs = find_sources(F)
    r.count("hash_iteration_sites", len(srcs))
    for fn, node, mty, method in srcs:
        r.analysed.append("%s: %s.%s()" % (fn["path"], short_ty(mty), method))
        where = F.loc(fn, node)
        loop = _enclosing_for(fn, node)
        if loop is not None:
            cls, detail = classify_loop(F, fn, loop[0], loop[1], method)
        else:
            # iterator chain or escaping iterator: find the consumer (parent chain of method calls)
            cls, detail = "escapes", []
            parent_chain = []
            cur = node
            changed = True
            while changed:
                changed = False
                for n in walk(fn["body"]):
                    if n.get("k") == "MethodCall" and n.get("recv") is cur:
                        parent_chain.append(n["method"])
                        cur = n
                        changed = True
                        break
            if parent_chain:
                term = parent_chain[-1]
                if term in ORDER_FREE_TERMINALS:
                    cls, detail = "order-free-terminal", parent_chain
                elif term == "collect" and HM.search(cur.get("ty", "")):
                    why = _collect_key_unique(fn, node, cur, method)
                    if why is None:
                        cls, detail = "collect-into-hash-container", parent_chain
                    else:
                        cls, detail = "order-sensitive", ["collect into a hash map " + why]
                elif term == "collect" and _sorted_before_use(fn, cur):
                    cls, detail = "collected-then-sorted", parent_chain + ["sort"]
                else:
                    cls, detail = "order-sensitive", ["chain " + ".".join(parent_chain)]
            else:
                # returned to the caller: order-sensitive only if a crate-internal caller consumes it
                callers = []
                for g in F.fns:
                    if g.get("body") is None or g is fn:
                        continue
                    for n in walk(g["body"]):
                        if n.get("k") in ("MethodCall", "Call") and (n.get("inst") or n.get("callee")) == fn["path"]:
                            callers.append(g["path"])
                if callers:
                    cls, detail = "order-sensitive", ["hash-ordered iterator returned to internal callers: %s" % sorted(set(callers))[:4]]
                else:
                    cls, detail = "escapes-to-api-user-only", ["no crate-internal caller"]
        key = "%s | %s | %s" % (fn["path"], short_ty(mty), method)
        okcls = cls in ("keyed-injective-copy", "diagnostic-only", "order-free-terminal", "collect-into-hash-container", "collected-then-sorted", "escapes-to-api-user-only")
        if not okcls and key not in rows:
            # the reviewed exception is about *what* is iterated and *who* consumes it, not about the function it sits in
            tk = "%s | %s" % (short_ty(mty), method)
            alt = [k_ for k_ in rows if k_.split(" | ", 1)[1] == tk]
            if len(alt) == 1:
                key = alt[0]
        if not okcls and key in rows:
            # reviewed disjoint-sink exception: the consumer set must still be what was reviewed
            want = set(rows[key].get("consumers", []))
            got = {d for d in detail}
            if got <= want:
                okcls = True
                cls = "reviewed: " + rows[key]["reason"]
        r.ob(okcls, {"site": key, "class": cls, "detail": detail[:4]})
        if not okcls:
            r.violate(key, where, "hash-order source consumed order-sensitively (%s): %s — iteration order depends on the per-process hash seed" % (cls, "; ".join(detail[:4])))
    # other nondeterminism reachable from encode
    g = mirutil.build_callgraph(F)
    roots = [f["path"] for f in F.fns if f["name"] in ("encode", "encode_internal", "emit_wasm", "pull_side_effects", "encode_comp") and f["kind"] != "Closure"]
    seen, parent = mirutil.reachable_fns(F, roots, g)
    r.count("encode_reachable_fns", len(seen))
    n_calls = 0
    for p in sorted(seen):
        mir = F.by_path[p][0].get("mir")
        if not mir:
            continue
        for _, t in mirutil.calls(mir):
            n_calls += 1
            c = mirutil.callee_name(t)
            if NONDET.search(c):
                r.ob(False)
                r.violate("%s | nondet %s" % (p, c), "%s:%d" % (F.by_path[p][0]["file"], t["sp"][0]), "call to %s is reachable from encode" % c)
        for b in mir["blocks"]:
            for st in b["stmts"]:
                if st["k"] == "Assign" and st["rv"].get("k") == "Cast" and "ExposeProvenance" in st["rv"].get("kind", ""):
                    r.ob(False)
                    r.violate("%s | ptr-to-int" % p, "%s:%d" % (F.by_path[p][0]["file"], st["sp"][0]), "pointer→integer cast reachable from encode (address observation)")
    r.ob(True, {"encode_call_sites_scanned_for_time/env/thread/rand": n_calls})
    r.count("encode_calls_scanned", n_calls)
    # matcher self-check (zero-expected rule must still be able to fire)
    assert NONDET.search("std::time::SystemTime::now") and NONDET.search("std::env::var") and not NONDET.search("std::vec::Vec::<T>::new")
    return r
