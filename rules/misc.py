"""Smaller property-specific structural rules (delete pairing, replace/convert flows,
builder flow, type dedup, special-mode resolver details, name dispatch, additions)."""
import os

from vlib.facts import conditional_ancestors, every_iteration, pat_variants, guard_conditions, field_of_pattern_binding, binding_site, walk, peel, place_path, pat_alternatives, CheckError, REPO, lit_int, diverges
from vlib.paths import paths, normal_paths
from vlib.report import RuleResult
from rules.nopanic import snippet


def _repo():
    return os.environ.get("ORCA_ANALYSED_REPO", REPO)


def _calls(fn, name):
    return [c for c in walk(fn["body"]) if c.get("k") in ("MethodCall", "Call") and ((c.get("inst") or c.get("callee") or "").split("::")[-1] == name)]


# ---------------------------------------------------------------- C09
def delete_pairing(F):
    r = RuleResult("R-DELETE-PAIRING",
                   "Module::delete_{func,global,memory} deletes the element by the caller's id and, when it is an import, marks imports[import_id] deleted using the element's own import_id; ModuleExports::delete / ModuleImports::delete set exactly the addressed element's flag")
    for name, coll, kind in (("delete_func", "functions", "FuncKind"), ("delete_global", "globals", "GlobalKind"), ("delete_memory", "memories", "MemKind")):
        fn = F.one_fn(name=name, self_adt="Module")
        r.analysed.append(fn["path"])
        pid = fn["params"][1]["pat"]
        # self.<coll>.delete(<param>)
        dels = [c for c in _calls(fn, "delete") if (place_path(c["recv"]) or "") == "self." + coll]
        ok = len(dels) == 1 and peel(dels[0]["args"][0]).get("res", {}).get("hid") == pid["hid"]
        r.ob(ok, {"fn": name, "deletes by own id": ok})
        if not ok:
            r.violate("%s | element delete" % fn["path"], F.loc(fn), "%s does not delete exactly the element addressed by its id parameter" % name)
        # if let <Kind>::Import(Imported{import_id, ..}) = self.<coll>.get_kind(<param>) { self.imports.delete(*import_id) }
        ok2 = False
        # `self.imports.delete(X)`: X is the import_id of the element looked up by this function's own id parameter, and the
        # call sits under the test that the element is an Import — written as if-let, match or let-else, with the id taken
        # from a destructuring pattern or as `imported.import_id`
        for c in walk(fn["body"]):
            if c.get("k") == "MethodCall" and c["method"] == "delete" and (place_path(c["recv"]) or "") == "self.imports" and c["args"]:
                pat, scr = field_of_pattern_binding(fn["body"], c["args"][0], "import_id")
                if pat is None:
                    # `if let Some(id) = self.import_of(x) { self.imports.delete(id) }`: the id is what an (inlined) accessor
                    # hands out as `Some(<import_id of the element it looked up>)`
                    a_ = peel(c["args"][0])
                    if a_.get("k") == "Path" and a_.get("res", {}).get("r") == "local":
                        p_, s_, _k = binding_site(fn["body"], a_["res"]["hid"])
                        s_ = peel(s_) if isinstance(s_, dict) else {}
                        if p_ is not None and any(x.get("variant") == "Some" for x in walk(p_)) and isinstance(s_.get("inlined"), dict):
                            for sv in walk(s_["inlined"]["body"]):
                                if sv.get("k") == "Call" and (sv.get("fres") or {}).get("variant") == "Some" and sv.get("args"):
                                    pat, scr = field_of_pattern_binding(fn["body"], sv["args"][0], "import_id")
                                    if pat is not None:
                                        break
                if pat is None:
                    continue
                is_import_pat = any(x.get("variant") == "Import" and (x.get("adt") or "").endswith(kind) for x in walk(pat))
                from_same = any(x.get("k") == "Path" and x.get("res", {}).get("hid") == pid["hid"] for x in walk(scr)) and \
                    any(x.get("k") == "MethodCall" and x["method"] in ("get_kind", "kind", "get", "get_kind_mut") for x in walk(scr))
                if is_import_pat and from_same:
                    ok2 = True
        r.ob(ok2, {"fn": name, "marks its own import deleted": ok2})
        if not ok2:
            r.violate("%s | import delete" % fn["path"], F.loc(fn), "%s does not mark the import of an imported element deleted via that element's own import_id: the import would stay in the import section (shifting every index) or a different import would be removed" % name)
        # scope: a delete touches its own collection and the import list, nothing else ("leaves every other entity present")
        MUT = ("delete", "remove", "push", "insert", "clear", "retain", "add", "truncate", "pop", "drain", "swap_remove", "set_kind", "delete_func", "delete_global", "delete_memory")
        foreign = []
        for c in walk(fn["body"]):
            if c.get("k") == "MethodCall" and (c["method"] in MUT or c["method"].startswith(("add_", "delete_", "remove_"))):
                pp = place_path(c["recv"]) or ""
                if pp.startswith("self.") and pp.split(".")[1] not in (coll, "imports"):
                    foreign.append(pp + "." + c["method"])
            if c.get("k") == "Assign":
                pp = place_path(c["lhs"]) or ""
                if pp.startswith("self.") and pp.split(".")[1].split("[")[0] not in (coll, "imports"):
                    foreign.append(pp + " =")
        ok3 = not foreign
        r.ob(ok3, {"fn": name, "touches_only": [coll, "imports"]})
        if not ok3:
            r.violate("%s | scope %s" % (fn["path"], "+".join(sorted(set(foreign)))), F.loc(fn), "%s also mutates %s: deleting one entity must leave every other entity (exports, other collections) present" % (name, sorted(set(foreign))))
    for adt, field in (("ModuleExports", "exports"), ("ModuleImports", "imports")):
        fn = F.one_fn(name="delete", self_adt=adt)
        r.analysed.append(fn["path"])
        pid = fn["params"][1]["pat"]
        writes = [n for n in walk(fn["body"]) if n.get("k") == "Assign" and (place_path(n["lhs"]) or "").endswith(".deleted")]
        ok = len(writes) == 1 and peel(writes[0]["rhs"]).get("lit") == "Bool(true)" and \
            (place_path(writes[0]["lhs"]) or "") == "self.%s[].deleted" % field and \
            any(x.get("k") == "Path" and x.get("res", {}).get("hid") == pid["hid"] for x in walk(writes[0]["lhs"]))
        r.ob(ok)
        if not ok:
            r.violate("%s | flag" % fn["path"], F.loc(fn), "%s::delete does not set exactly self.%s[id].deleted = true" % (adt, field))
    # Function/Global/Memory::delete set self.deleted = true
    for adt in ("Function", "Global", "Memory"):
        fn = F.one_fn(name="delete", self_adt="::" + adt)
        ok = any(n.get("k") == "Assign" and (place_path(n["lhs"]) or "") == "self.deleted" and peel(n["rhs"]).get("lit") == "Bool(true)" for n in walk(fn["body"]))
        r.ob(ok)
        if not ok:
            r.violate("%s | flag" % fn["path"], F.loc(fn), "%s::delete does not set self.deleted" % adt)
    return r


# ---------------------------------------------------------------- C29
def name_dispatch(F):
    r = RuleResult("R-NAME-DISPATCH",
                   "function naming dispatches on the element's kind (FuncKind), like every other mutator; a dispatch on `id < imports.num_funcs` is a position test that misclassifies after additions/conversions (contradiction rule)")
    fn = F.one_fn(name="set_fn_name", self_adt="Module")
    r.analysed.append(fn["path"])
    positional = []
    for n in walk(fn["body"]):
        if n.get("k") == "If":
            c = peel(n["cond"])
            if c.get("k") == "Binary" and c["op"] in ("<", ">=", "<=", ">") and any(x.get("k") == "Field" and x["name"] == "num_funcs" for x in walk(c)):
                positional.append(n)
    kind_based = any(x.get("k") == "MethodCall" and x["method"] in ("is_import", "is_local", "get_kind", "kind") for x in walk(fn["body"]))
    ok = not positional or kind_based
    r.ob(ok, {"dispatch": "positional (id < num_funcs)" if positional else "by kind"})
    if not ok:
        r.violate("%s | positional dispatch" % fn["path"], F.loc(fn, positional[0]),
                  "set_fn_name decides import-vs-local by `id < imports.num_funcs`: after an import is added (its id is ≥ the old count) or a function is converted, the name is attached through the wrong branch (assert fails or the wrong entity is named)")
    # the import entry of an imported function is found through the `import_id` its kind records, never by counting:
    # a helper of `imports` that takes the *function* id locates the entry by position among the function imports, and
    # position and id part ways once an import was added after local functions or a function was converted
    n_imp = 0
    for owner, x in [(g, y) for g in F.find_fns(self_adt="Module") if g.get("body") is not None and (g.get("self_adt") or "").endswith("module::Module") for y in walk(g["body"])]:
        if x.get("k") == "MethodCall" and (place_path(x["recv"]) or "") == "self.imports":
            cs = F.by_path.get(x.get("inst") or x.get("callee") or "") or []
            if len(cs) != 1:
                continue
            ptys = [(pm.get("ty") or "") for pm in cs[0].get("params", [])]
            if not any("String" in t or "str" in t for t in ptys):
                continue
            n_imp += 1
            by_fid = any(t.endswith("FunctionID") for t in ptys)
            by_iid = any(t.endswith("ImportsID") for t in ptys)
            okx = by_iid and not by_fid
            r.ob(okx, {"import entry addressed by": "ImportsID" if okx else ("FunctionID (position among function imports)" if by_fid else "?")})
            if not okx:
                r.violate("%s | import entry by function id" % owner["path"], F.loc(owner, x),
                          "%s names the import entry through `imports.%s`, which takes the function id and counts function imports to find the entry: after an import is added behind local functions, or a local function is converted to an import, the function's id is not its position among the imports and another import (or none) is named — the recorded `import_id` is the only reliable address" % (owner["name"], x["method"]))
    r.count("import_entry_namings", n_imp)
    # the local-name and import-name setters dispatch on kind
    for nm in ("set_local_fn_name", "set_imported_fn_name"):
        f2 = F.one_fn(name=nm, self_adt="Functions")
        r.analysed.append(f2["path"])
        ok2 = any((x.get("k") == "Match" and "FuncKind" in x.get("scrut_ty", ""))
                  or (x.get("k") in ("LetExpr", "Let") and "FuncKind" in ((x.get("init") or {}).get("ty") or "") and x["pat"].get("k") in ("TupleStruct", "Struct", "Or"))
                  or (x.get("k") == "MethodCall" and x["method"] in ("is_local", "is_import", "unwrap_local", "unwrap_local_mut")) for x in walk(f2["body"]))
        r.ob(ok2)
        if not ok2:
            r.violate("%s | dispatch" % f2["path"], F.loc(f2), "%s does not test the function's kind" % nm)
        # scope: naming one function writes that function only — every element of `self.functions` that is written is the
        # one addressed by the id parameter (a setter that also clears the name on "the previous holder" renames entities the
        # caller never mentioned)
        pid = None
        for pm in f2.get("params", []):
            if "FunctionID" in (pm.get("ty") or "") and pm["pat"].get("k") == "Binding":
                pid = pm["pat"]["hid"]
        writes = []
        for x in walk(f2["body"]):
            tgt = None
            if x.get("k") in ("Assign", "AssignOp"):
                tgt = x["lhs"]
            elif x.get("k") == "MethodCall" and x["method"] in ("unwrap_local_mut", "get_mut", "set_kind", "take", "replace", "insert"):
                tgt = x["recv"] if x["method"] != "get_mut" else x
            if tgt is None:
                continue
            for ix in walk(tgt):
                if ix.get("k") == "Index" and (place_path(ix["base"]) or "") == "self.functions":
                    writes.append((x, ix))
                if ix.get("k") == "MethodCall" and ix["method"] == "get_mut" and (place_path(ix["recv"]) or "") == "self.functions" and ix.get("args"):
                    writes.append((x, {"index": ix["args"][0]}))
        if pid is None:
            r.undecided("%s: no FunctionID parameter" % nm)
        else:
            for x, ix in writes:
                own = any(y.get("k") == "Path" and y.get("res", {}).get("hid") == pid for y in walk(ix["index"]))
                r.ob(own, {"fn": nm, "writes the function addressed by its id parameter": own})
                if not own:
                    r.violate("%s | writes another function" % f2["path"], F.loc(f2, x),
                              "%s writes an element of `functions` other than the one its id parameter addresses (`%s`): naming one function changes another" % (nm, snippet(_repo(), f2["file"], x["sp"])[:70]))
    return r


# ---------------------------------------------------------------- C10 / C11
def convert_flows(F):
    r = RuleResult("R-CONVERT-FLOW",
                   "replace/convert paths: the signature guard dominates the import→local conversion; the old element is deleted (arming re-indexing and marking its import) before its kind is flipped; the new ImportedFunction records the import id returned by add_import, the caller's function id and type id, and the Import carries TypeRef::Func of that same type id")
    rp = F.one_fn(name="replace_import_in_module_with_tag", self_adt="FunctionBuilder")
    r.analysed.append(rp["path"])
    # guard: whenever convert_import_fn_to_local is called, both `params` and `results` have been compared for equality
    # with the import's type — as an enclosing `if a == b && c == d`, or as a preceding guard clause
    # `if a != b || c != d { panic }` (or two separate ones)
    ok = False
    calls = [c for c in walk(rp["body"]) if c.get("k") in ("MethodCall", "Call") and (c.get("inst") or c.get("callee") or "").endswith("convert_import_fn_to_local")]
    for c in calls:
        established = set()
        for pol, cond in guard_conditions(rp["body"], c):
            if pol in ("pat", "notpat"):
                continue
            # +cond with `==` joined by && ; −cond with `!=` joined by ||
            want_op, joiner = ("==", "&&") if pol else ("!=", "||")
            other_join = "||" if pol else "&&"
            if any(x.get("k") == "Binary" and x.get("op") == other_join for x in walk(cond)):
                continue
            for x in walk(cond):
                if x.get("k") == "Binary" and x.get("op") == want_op:
                    nm_ = {y["name"] for y in walk(x) if y.get("k") == "Field"} | {y["method"] for y in walk(x) if y.get("k") == "MethodCall"}
                    for f_ in ("params", "results"):
                        if f_ in nm_:
                            established.add(f_)
                if x.get("k") == "MethodCall" and x["method"] in (("eq",) if pol else ("ne",)):
                    nm_ = {y["name"] for y in walk(x) if y.get("k") == "Field"} | {y["method"] for y in walk(x) if y.get("k") == "MethodCall"}
                    for f_ in ("params", "results"):
                        if f_ in nm_:
                            established.add(f_)
        if {"params", "results"} <= established:
            ok = True
    r.ob(ok, {"signature guard dominates conversion": ok})
    if not ok:
        r.violate("%s | unguarded" % rp["path"], F.loc(rp), "the import is replaced without (or not under) the params/results equality check")
    for nm in ("convert_import_fn_to_local", "convert_local_fn_to_import_with_tag"):
        fn = F.one_fn(name=nm, self_adt="Module")
        r.analysed.append(fn["path"])

        def classify(n):
            if n.get("k") == "MethodCall" and n["method"] == "delete_func":
                return "DEL"
            if n.get("k") == "MethodCall" and n["method"] == "set_kind":
                return "FLIP"
            return None

        for ev, st in normal_paths(paths(fn["body"], classify)):
            if "FLIP" in ev:
                okp = "DEL" in ev and ev.index("DEL") < ev.index("FLIP")
                r.ob(okp, {"fn": nm, "path": list(ev)})
                if not okp:
                    r.violate("%s | flip without delete" % fn["path"], F.loc(fn), "%s flips the function's kind without first deleting the old element (re-indexing not armed / old import kept)" % nm)
    # provenance in convert_local_fn_to_import_with_tag
    fn = F.one_fn(name="convert_local_fn_to_import_with_tag", self_adt="Module")
    ph = {p["pat"].get("name"): p["pat"].get("hid") for p in fn["params"]}
    add_imp_hids = set()
    for st in walk(fn["body"]):
        if st.get("k") == "Let" and "init" in st and any(c.get("k") == "MethodCall" and c["method"] == "add_import" for c in walk(st["init"])):
            for b in walk(st["pat"]):
                if b.get("k") == "Binding":
                    add_imp_hids.add(b["hid"])
    found = False
    for s in walk(fn["body"]):
        if s.get("k") == "Struct" and (s.get("adt") or "").endswith("ImportedFunction") and "rest" not in s:
            found = True
            fs = {a: peel(b) for a, b in s["fields"]}
            checks = {
                "import_id": fs.get("import_id", {}).get("res", {}).get("hid") in add_imp_hids,
                "import_fn_id": fs.get("import_fn_id", {}).get("res", {}).get("hid") == ph.get("function_id"),
                "ty_id": fs.get("ty_id", {}).get("res", {}).get("hid") == ph.get("ty_id"),
            }
            for k, v in checks.items():
                r.ob(v, {"ImportedFunction." + k: v})
                if not v:
                    r.violate("%s | ImportedFunction.%s" % (fn["path"], k), F.loc(fn, s), "the new ImportedFunction's %s does not come from %s" % (k, {"import_id": "the add_import result", "import_fn_id": "the caller's function_id", "ty_id": "the caller's ty_id"}[k]))
    if not found:
        # built through the constructor: map the arguments to the fields the constructor stores them in
        for c in walk(fn["body"]):
            if c.get("k") == "Call" and (c.get("callee") or "").endswith("ImportedFunction::new") and (c.get("callee") or "") in F.by_path:
                ctor = F.by_path[c["callee"]][0]
                lit = next((x for x in walk(ctor.get("body") or {}) if x.get("k") == "Struct" and (x.get("adt") or "").endswith("ImportedFunction") and "rest" not in x), None)
                if lit is None or len(ctor.get("params", [])) != len(c["args"]):
                    continue
                by_param = {pm["pat"].get("hid"): peel(a_) for pm, a_ in zip(ctor["params"], c["args"])}
                fs = {}
                for a, b in lit["fields"]:
                    v_ = peel(b)
                    if v_.get("k") == "Path" and v_.get("res", {}).get("hid") in by_param:
                        fs[a] = by_param[v_["res"]["hid"]]
                if set(fs) >= {"import_id", "import_fn_id", "ty_id"}:
                    found = True
                    checks = {
                        "import_id": fs["import_id"].get("res", {}).get("hid") in add_imp_hids,
                        "import_fn_id": fs["import_fn_id"].get("res", {}).get("hid") == ph.get("function_id"),
                        "ty_id": fs["ty_id"].get("res", {}).get("hid") == ph.get("ty_id"),
                    }
                    for k, v in checks.items():
                        r.ob(v, {"ImportedFunction." + k: v})
                        if not v:
                            r.violate("%s | ImportedFunction.%s" % (fn["path"], k), F.loc(fn, c), "the new ImportedFunction's %s does not come from %s" % (k, {"import_id": "the add_import result", "import_fn_id": "the caller's function_id", "ty_id": "the caller's ty_id"}[k]))
    if not found:
        r.undecided("convert_local_fn_to_import_with_tag: how the ImportedFunction is built was not recognised")
    okt = False
    # wherever the Import literal is built (here, in add_import, or in a constructor helper), the TypeRef handed over by
    # this function is `TypeRef::Func(<the caller's ty_id>)`
    for c in walk(fn["body"]):
        if c.get("k") == "Call" and (c.get("fres") or {}).get("variant") == "Func" and "TypeRef" in ((c.get("fres") or {}).get("adt") or "") and c["args"]:
            if any(x.get("k") == "Path" and x.get("res", {}).get("hid") == ph.get("ty_id") for x in walk(c["args"][0])):
                okt = True
    r.ob(okt)
    if not okt:
        r.violate("%s | Import.ty" % fn["path"], F.loc(fn), "the new Import is not TypeRef::Func of the caller's ty_id")
    return r


# ---------------------------------------------------------------- C12
def builder_flow(F):
    r = RuleResult("R-BUILDER-FLOW",
                   "FunctionBuilder::finish_*: end() exactly once, before the body is handed over; name/params/results/body/tag passed in that order to add_local_func_with_tag, which derives the type from (params, results), the argument count from params.len(), and registers (local_func, name); FunctionBuilder::inject pushes the operator exactly once at the end; the module and component variants agree, including their post-condition")
    sibs = {}
    for nm in ("finish_module_with_tag", "finish_component_with_tag", "replace_import_in_module_with_tag"):
        fn = F.one_fn(name=nm, self_adt="FunctionBuilder")
        r.analysed.append(fn["path"])

        def classify(n):
            if n.get("k") == "MethodCall" and n["method"] == "end" and (place_path(n["recv"]) or "") == "self":
                return "END"
            if n.get("k") in ("MethodCall", "Call") and (n.get("inst") or n.get("callee") or "").split("::")[-1] in ("add_local_func_with_tag", "convert_import_fn_to_local"):
                return "HANDOVER"
            if n.get("k") == "MethodCall" and n["method"] == "clone" and (place_path(n["recv"]) or "") == "self.body":
                return "BODYCOPY"
            return None

        for ev, st in normal_paths(paths(fn["body"], classify)):
            if "HANDOVER" not in ev:
                continue
            # the body is captured either by a clone (which must come after end()) or by moving it out of `self` at the
            # hand-over itself (nothing can follow a move of `self`, so end() before the hand-over is all there is to check)
            if "BODYCOPY" in ev:
                ok = ev.count("END") == 1 and ev.index("END") < ev.index("BODYCOPY") < ev.index("HANDOVER")
            else:
                ok = ev.count("END") == 1 and ev.index("END") < ev.index("HANDOVER")
            r.ob(ok, {"fn": nm, "path": list(ev)})
            if not ok:
                r.violate("%s | end/handover" % fn["path"], F.loc(fn), "%s: events %s (expected exactly one end() before the body is cloned and handed over)" % (nm, list(ev)))
        if nm.startswith("finish"):
            c = [x for x in walk(fn["body"]) if x.get("k") == "MethodCall" and x["method"] == "add_local_func_with_tag"]
            deleg = [x for x in walk(fn["body"]) if x.get("k") == "MethodCall" and x["method"] in ("finish_module_with_tag", "finish_component_with_tag")
                     and x["method"] != nm and (place_path(x["recv"]) or "") == "self"]
            if not c and len(deleg) == 1:
                # one variant implemented by the other: it hands over exactly what the other hands over
                passes_tag = any(peel(a).get("k") == "Path" and peel(a).get("res", {}).get("name") == "tag" for a in deleg[0]["args"])
                r.ob(passes_tag, {"fn": nm, "delegates to": deleg[0]["method"]})
                if not passes_tag:
                    r.violate("%s | args" % fn["path"], F.loc(fn, deleg[0]), "%s delegates to %s without passing its tag on" % (nm, deleg[0]["method"]))
                sibs[nm] = ("delegates", deleg[0]["method"])
                continue
            if len(c) != 1:
                r.undecided("%s: %d add_local_func_with_tag calls: hand-over arguments not analysed" % (nm, len(c)))
                sibs[nm] = None
                continue
            # `let Self { params, results, name, body } = self;` — the pieces of the builder under their field names
            from_self = {}
            for st in walk(fn["body"]):
                if st.get("k") == "Let" and "init" in st and st["pat"].get("k") == "Struct" and (place_path(st["init"]) or "") == "self":
                    for fname, sub in st["pat"]["fields"]:
                        if sub.get("k") == "Binding":
                            from_self[sub["hid"]] = "self." + fname

            def arg_text(a):
                v = peel(a)
                if v.get("k") == "Path" and v.get("res", {}).get("hid") in from_self:
                    return from_self[v["res"]["hid"]]
                return place_path(a) or snippet(_repo(), fn["file"], a["sp"])
            args = [arg_text(a) for a in c[0]["args"]]
            want = ["self.name", "self.params", "self.results", "self.body.clone()", "tag"]
            ok = args == want or (from_self and args == ["self.name", "self.params", "self.results", "self.body", "tag"])
            r.ob(ok, {"fn": nm, "args": args})
            if not ok:
                r.violate("%s | args" % fn["path"], F.loc(fn, c[0]), "add_local_func_with_tag is called with %s (expected %s)" % (args, want))
            # the assertion: functions.len() == num_local_functions + imports.num_funcs
            terms = None
            for x in walk(fn["body"]):
                if "assert_eq" in (x.get("exp") or []) and x.get("k") == "Tup":
                    rhs = x["elems"][1]
                    terms = sorted(f["name"] for f in walk(rhs) if f.get("k") == "Field" and f["name"].startswith("num_"))
                    break
            sibs[nm] = terms
    for k_ in list(sibs):
        if isinstance(sibs[k_], tuple) and sibs[k_][0] == "delegates":
            sibs[k_] = sibs.get(sibs[k_][1])
    a, b = sibs.get("finish_module_with_tag"), sibs.get("finish_component_with_tag")
    ok = a == b and a is not None
    r.ob(ok, {"module post-condition terms": a, "component post-condition terms": b})
    if not ok:
        fn = F.one_fn(name="finish_component_with_tag", self_adt="FunctionBuilder")
        r.violate("%s | post-condition differs" % fn["path"], F.loc(fn),
                  "the component variant asserts functions.len() == %s while the module variant asserts == %s: with any added import the component variant's assertion fails although the function was added correctly" % (" + ".join(b or []), " + ".join(a or [])))
    # add_local_func_with_tag internals
    fn = F.one_fn(name="add_local_func_with_tag", self_adt="Module")
    r.analysed.append(fn["path"])
    ph = {p["pat"].get("name"): p["pat"].get("hid") for p in fn["params"]}

    def is_param(e, name):
        e = peel(e)
        while e.get("k") == "MethodCall" and e["method"] in ("clone", "to_vec") and not e["args"]:
            e = peel(e["recv"])
        if e.get("k") == "Call" and (e.get("fres") or {}).get("variant") == "Some":
            e = peel(e["args"][0])
            while e.get("k") == "MethodCall" and e["method"] in ("clone",):
                e = peel(e["recv"])
        return e.get("k") == "Path" and e.get("res", {}).get("hid") == ph.get(name)

    t = [c for c in walk(fn["body"]) if c.get("k") == "MethodCall" and c["method"] == "add_func_type"]
    ok = len(t) == 1 and is_param(t[0]["args"][0], "params") and is_param(t[0]["args"][1], "results")
    r.ob(ok)
    if not ok:
        r.violate("%s | type" % fn["path"], F.loc(fn), "the function's type is not add_func_type(params, results)")
    lf = [c for c in walk(fn["body"]) if c.get("k") == "Call" and (c.get("callee") or "").endswith("LocalFunction::<'a>::new")]
    ok = False
    if len(lf) == 1:
        a = lf[0]["args"]
        n_args = peel(a[3])
        ok = is_param(a[2], "body") and n_args.get("k") == "MethodCall" and n_args["method"] == "len" and is_param(n_args["recv"], "params") and is_param(a[4], "tag")
    r.ob(ok)
    if not ok:
        r.violate("%s | LocalFunction::new" % fn["path"], F.loc(fn), "LocalFunction::new is not called with (type, _, body, params.len(), Some(tag))")
    reg = [c for c in walk(fn["body"]) if c.get("k") == "MethodCall" and c["method"] == "add_local_func"]
    ok = len(reg) == 1 and is_param(reg[0]["args"][1], "name")
    r.ob(ok)
    if not ok:
        r.violate("%s | register" % fn["path"], F.loc(fn), "the function is not registered with its name")
    # replace_import_in_module_with_tag: the function that takes the import's place keeps the import's own type index — the
    # payload of its `TypeRef::Func(..)` — not a type looked up or interned by signature (an equal signature may sit at another
    # index with other finality / supertype / rec group, and `ref.func`/`call_indirect` users see the index)
    ri = F.one_fn(name="replace_import_in_module_with_tag", self_adt="FunctionBuilder")
    lf = [c for c in walk(ri["body"]) if c.get("k") == "Call" and (c.get("callee") or "").endswith("LocalFunction::<'a>::new")]
    if len(lf) != 1:
        r.undecided("replace_import_in_module_with_tag: %d LocalFunction::new calls" % len(lf))
    else:
        a0 = lf[0]["args"][0]
        seen_h, todo, verdict = set(), [a0], None
        while todo and verdict is None and len(seen_h) < 20:
            e_ = todo.pop()
            for x in walk(e_):
                if x.get("k") in ("MethodCall", "Call") and (x.get("callee") or x.get("inst") or "").split("::")[-1] in ("add_func_type", "add_func_type_with_params", "add_type"):
                    verdict = "interned"
                if x.get("k") == "Path" and x.get("res", {}).get("r") == "local" and x["res"]["hid"] not in seen_h:
                    seen_h.add(x["res"]["hid"])
                    pat_, scr_, kind_ = binding_site(ri["body"], x["res"]["hid"])
                    if pat_ is not None and any(q.get("variant") == "Func" and "TypeRef" in (q.get("adt") or "") for q in walk(pat_)):
                        verdict = verdict or "import"
                    elif scr_ is not None:
                        todo.append(scr_)
        if verdict is None:
            r.undecided("replace_import_in_module_with_tag: where the new function's type index comes from was not recognised")
        else:
            ok = verdict == "import"
            r.ob(ok, {"replace_import: type index of the new local function": verdict})
            if not ok:
                r.violate("%s | type index %s" % (ri["path"], verdict), F.loc(ri, lf[0]),
                          "the function that replaces the import gets a type index interned by signature instead of the import's own (`TypeRef::Func(idx)`): for a non-final / sub-typed / rec-grouped import type the replacement has another type index, so ref.func and call_indirect users of the former import no longer type-check or trap")
    # inject = push_op once
    inj = [f for f in F.fns if f["name"] == "inject" and (f.get("self_adt") or "").endswith("FunctionBuilder")]
    if len(inj) != 1:
        raise CheckError("FunctionBuilder::inject not found")
    pushes = [c for c in walk(inj[0]["body"]) if c.get("k") == "MethodCall" and c["method"] == "push_op"]
    ok = len(pushes) == 1 and len([c for c in walk(inj[0]["body"]) if c.get("k") == "MethodCall"]) == 1
    r.ob(ok)
    if not ok:
        r.violate("%s | push" % inj[0]["path"], F.loc(inj[0]), "FunctionBuilder::inject does not append the operator exactly once")
    po = F.one_fn(name="push_op", self_adt="Body")
    ok = len([c for c in walk(po["body"]) if c.get("k") == "MethodCall" and c["method"] == "push" and (place_path(c["recv"]) or "") == "self.instructions"]) == 1 and \
        any(n.get("k") == "AssignOp" and (place_path(n["lhs"]) or "") == "self.num_instructions" for n in walk(po["body"]))
    r.ob(ok)
    if not ok:
        r.violate("%s | push_op" % po["path"], F.loc(po), "Body::push_op does not push once at the end and bump num_instructions")
    # … and push_op is the only place a body's instruction list changes length: `num_instructions` is what
    # get_func_metadata hands the iterators, so a list grown (or shrunk) behind its back is encoded in full but walked short
    GROW = ("push", "extend", "insert", "append", "splice", "remove", "truncate", "pop", "clear", "drain", "retain", "extend_from_slice", "resize", "swap_remove", "split_off")
    n_len = 0
    for g in F.fns:
        if g.get("body") is None or g is po:
            continue
        for c in walk(g["body"]):
            if c.get("k") == "MethodCall" and c["method"] in GROW:
                pp = place_path(c["recv"]) or ""
                if pp.endswith("body.instructions") or (pp == "self.instructions" and (g.get("self_adt") or "").endswith("types::Body")):
                    n_len += 1
                    r.ob(False, {"fn": g["path"], "resizes": pp})
                    r.violate("%s | %s.%s" % (g["path"], pp, c["method"]), F.loc(g, c),
                              "%s changes the length of a body's instruction list with `%s.%s(..)` instead of going through Body::push_op: `num_instructions`, which the iterators take their bounds from, is not adjusted — the function is encoded in full but its last instructions are never visited" % (g["name"], pp, c["method"]))
    r.ob(True, {"instruction-list resizes outside Body::push_op": n_len})
    return r


# ---------------------------------------------------------------- C13
def type_dedup(F):
    r = RuleResult("R-TYPE-DEDUP",
                   "ModuleTypes.{types,groups,types_map} are written only by new/add_type; add_type registers a new entry only when the type is not already present, under the id passed by the caller, which every add_*_type* computes as self.types.len(); the short forms use the documented constants (no supertype, final, unshared)")
    MT = "ModuleTypes"

    def walk_own(node):
        """the function's own nodes: not the bodies of helpers inlined at its calls (those are judged as functions)"""
        if isinstance(node, list):
            for v in node:
                yield from walk_own(v)
        elif isinstance(node, dict):
            yield node
            for k_, v in node.items():
                if k_ != "inlined" and isinstance(v, (dict, list)):
                    yield from walk_own(v)
    try:
        at = F.one_fn(name="add_type", self_adt=MT)
    except CheckError:
        # by role: the one function of ModuleTypes, other than the constructor, that inserts into the type table
        cands = [g for g in getattr(F, "all_fns", F.fns) if (g.get("self_adt") or "").endswith("::" + MT) and g.get("body") is not None and g["name"] != "new"
                 and any(x.get("k") == "MethodCall" and x["method"] == "insert" and (place_path(x["recv"]) or "") == "self.types" for x in walk_own(g["body"]))]
        if len(cands) != 1:
            raise
        at = cands[0]
    AT = at["name"]
    r.analysed.append(at["path"])
    n_w = 0
    for fn in getattr(F, "all_fns", F.fns):
        if fn.get("body") is None or (fn.get("impl_trait") or "").startswith(("std::", "core::")):
            continue
        for n in walk_own(fn["body"]):
            pp = None
            if n.get("k") == "MethodCall" and n["method"] in ("insert", "push", "remove", "entry", "clear", "retain", "extend", "drain", "get_mut", "iter_mut", "values_mut"):
                pp = place_path(n["recv"]) or ""
            if n.get("k") == "Assign":
                pp = place_path(n["lhs"]) or ""
            if pp and any(pp.endswith(s) for s in ("types.types", "types.groups", "types.types_map", "self.types_map", "self.groups")) or (pp == "self.types" and (fn.get("self_adt") or "").endswith(MT)):
                if not (fn.get("self_adt") or "").endswith(MT) and not pp.split(".")[-2:-1] == ["types"]:
                    continue
                n_w += 1
                ok = (fn.get("self_adt") or "").endswith(MT) and fn["name"] in ("new", AT)
                r.ob(ok, {"fn": fn["path"], "writes": pp})
                if not ok:
                    r.violate("%s | writes %s" % (fn["path"], pp), F.loc(fn, n), "%s mutates %s outside ModuleTypes::new/add_type: indices or contents of existing types can change" % (fn["path"], pp))
    r.count("type_store_writes", n_w)
    # add_type registers a type only when no equal type is known: every write to self.types / self.groups sits under a test
    # that establishes absence from the dedup map — `!contains_key(..)` (directly or through a bool local), the `Vacant` arm
    # of `types_map.entry(..)`, or the `None` arm of `types_map.get(..)`
    def _absent_guard(node):
        for pol, cond in guard_conditions(at["body"], node):
            if pol in ("pat", "notpat"):
                pat, scr = cond
                on_map = any(x.get("k") == "MethodCall" and x["method"] in ("entry", "get", "get_mut") and (place_path(x["recv"]) or "").endswith("types_map") for x in walk(scr))
                # matched Vacant / None, or — after an `if let Some(..) / Occupied(..) = .. { return }` guard clause — did not match them
                vac = any(x.get("variant") in (("Vacant", "None") if pol == "pat" else ("Occupied", "Some")) for x in walk(pat))
                if on_map and vac:
                    return True
                continue
            # bool condition: contains_key on types_map, possibly via a local
            exprs = [cond]
            for x in walk(cond):
                if x.get("k") == "Path" and x.get("res", {}).get("r") == "local":
                    _, init, _k = binding_site(at["body"], x["res"]["hid"])
                    if init is not None:
                        exprs.append(init)
            has_ck = any(y.get("k") == "MethodCall" and y["method"] == "contains_key" and (place_path(y["recv"]) or "").endswith("types_map") for e_ in exprs for y in walk(e_))
            if not has_ck:
                continue
            # a disjunction (for a positive test) / conjunction (for a negated one) lets other cases through
            weak = "||" if pol else "&&"
            if any(y.get("k") == "Binary" and y.get("op") == weak for y in walk(cond)):
                continue
            negs = sum(1 for y in walk(cond) if y.get("k") == "Unary" and y.get("op") == "!")
            absent_when_true = (negs % 2 == 1)
            if (pol and absent_when_true) or ((not pol) and not absent_when_true):
                return True
        return False

    writes = [x for x in walk(at["body"]) if x.get("k") == "MethodCall" and x["method"] in ("insert", "push") and (place_path(x["recv"]) or "") in ("self.types", "self.groups")]
    guarded = len(writes) >= 2 and all(_absent_guard(w) for w in writes)
    r.ob(guarded, {"type store writes": len(writes), "all under an absence test on the dedup map": guarded})
    if not guarded:
        r.violate("%s | unguarded insert" % at["path"], F.loc(at), "add_type inserts into types/groups outside a test that the type is absent from the dedup map")
    okc = any(x.get("k") == "MethodCall" and x["method"] in ("contains_key", "entry", "get") and (place_path(x["recv"]) or "").endswith("types_map") for x in walk(at["body"]))
    r.ob(okc)
    if not okc:
        r.violate("%s | dedup" % at["path"], F.loc(at), "add_type does not consult types_map for an existing identical type")
    # the id a new entry is registered under: the key of `self.types.insert(ID, ty)` — it must be self.types.len() (the number
    # of types, not the size of the dedup map, which is smaller when the parsed module repeats a type), whether it is computed
    # in add_type itself or passed by every caller
    def _is_types_len(e):
        e = peel(e)
        while isinstance(e, dict) and (e.get("k") == "Cast" or (e.get("k") == "Call" and (e.get("fres") or {}).get("adt", "").endswith("TypeID") and e.get("args"))):
            e = peel(e["a"] if e.get("k") == "Cast" else e["args"][0])
        return isinstance(e, dict) and e.get("k") == "MethodCall" and e["method"] == "len" and (place_path(e["recv"]) or "") == "self.types"

    id_param = None
    id_local_ok = None
    for x in walk(at["body"]):
        if x.get("k") == "MethodCall" and x["method"] == "insert" and (place_path(x["recv"]) or "") == "self.types" and x["args"]:
            keyexpr = x["args"][0]
            if _is_types_len(keyexpr):
                id_local_ok = True
            for y in walk(keyexpr):
                if y.get("k") == "Path" and y.get("res", {}).get("r") == "local":
                    # follow the local to its definition(s): a let, or the value stored in the dedup map for this type
                    seen_, todo_ = set(), [y["res"]["hid"]]
                    while todo_:
                        h_ = todo_.pop()
                        if h_ in seen_:
                            continue
                        seen_.add(h_)
                        for j, pm in enumerate(at["params"]):
                            if pm["pat"].get("hid") == h_ and (pm.get("ty") or "").replace("&", "") in ("usize", "u32", "ir::id::TypeID"):
                                id_param = j
                        _, init, _k = binding_site(at["body"], h_)
                        if init is not None:
                            if _is_types_len(init) or any(_is_types_len(z) for z in walk(init) if isinstance(z, dict) and z.get("k") in ("MethodCall", "Cast", "Call")):
                                id_local_ok = True if id_local_ok is None else id_local_ok
                            elif any(z.get("k") == "MethodCall" and z["method"] == "len" for z in walk(init)):
                                id_local_ok = False
                            for z in walk(init):
                                if z.get("k") == "Path" and z.get("res", {}).get("r") == "local" and (z.get("ty") or "").replace("&", "").replace("mut ", "") in ("usize", "u32", "ir::id::TypeID"):
                                    todo_.append(z["res"]["hid"])
    if id_param is None:
        ok = bool(id_local_ok)
        r.ob(ok, {"add_type": "id computed inside add_type", "is self.types.len()": ok})
        if not ok:
            r.violate("%s | id" % at["path"], F.loc(at), "add_type registers a new type under an id that is not self.types.len(): when the module already repeats a type the dedup map is smaller than the type table, so a fresh type is given an index that is already in use")
    # callers
    n_c = 0
    for fn in F.find_fns(self_adt=MT):
        if fn.get("body") is None:
            continue
        for c in walk(fn["body"]):
            if c.get("k") == "MethodCall" and c["method"] == AT and (place_path(c["recv"]) or "") == "self":
                n_c += 1
                r.analysed.append(fn["path"])
                if id_param is not None:
                    args = [c["recv"]] + list(c["args"])
                    if id_param < len(args):
                        a = args[id_param]
                        ok = _is_types_len(a)
                        r.ob(ok, {"fn": fn["name"], "new id": snippet(_repo(), fn["file"], a["sp"])})
                        if not ok:
                            r.violate("%s | id" % fn["path"], F.loc(fn, c), "%s passes %s as the new type's id (expected self.types.len())" % (fn["name"], snippet(_repo(), fn["file"], a["sp"])))
                # short forms: constants
                if not fn["name"].endswith("_with_params"):
                    for s in walk(fn["body"]):
                        if s.get("k") == "Struct" and (s.get("adt") or "").endswith("module_types::Types") and "rest" not in s:
                            fs = {k: peel(v) for k, v in s["fields"]}
                            okk = fs["super_type"].get("res", {}).get("variant") == "None" and fs["is_final"].get("lit") == "Bool(true)" and fs["shared"].get("lit") == "Bool(false)"
                            r.ob(okk, {"fn": fn["name"], "constants": "super_type None, is_final true, shared false"})
                            if not okk:
                                r.violate("%s | constants" % fn["path"], F.loc(fn, s), "%s does not use the documented defaults (no supertype, final, unshared)" % fn["name"])
    r.count("add_type_callers", n_c)
    # every id an add_*_type* hands back is the result of add_type on the type built from its arguments: a shortcut that
    # returns some existing index by looking at part of a type (signature only) bypasses the exact-equality dedup
    from rules.fields import _tail_values
    for fn in F.find_fns(self_adt=MT):
        if fn.get("body") is None or fn is at or not (fn["name"].startswith("add_") and fn["name"] != "add_type" and "TypeID" in (fn.get("ret") or "")):
            continue
        def own_rets(node, out):
            # `return`s of this function: not those inside a closure or inside the body of a helper inlined at a call
            if isinstance(node, list):
                for v in node:
                    own_rets(v, out)
            elif isinstance(node, dict):
                if node.get("k") == "Closure":
                    return
                if node.get("k") == "Ret" and isinstance(node.get("e"), dict):
                    out.append(peel(node["e"]))
                for k_, v in node.items():
                    if k_ != "inlined" and isinstance(v, (dict, list)):
                        own_rets(v, out)
        rets = list(_tail_values(fn["body"]))
        own_rets(fn["body"], rets)
        for rv in rets:
            rv = peel(rv) if isinstance(rv, dict) else {}
            okr = None
            if rv.get("k") == "MethodCall" and rv["method"] in ("add_type", AT) or (rv.get("k") == "MethodCall" and rv["method"].startswith("add_") and (place_path(rv["recv"]) or "") == "self"):
                okr = True
            elif rv.get("k") == "Path" and rv.get("res", {}).get("r") == "local":
                _, init, _k = binding_site(fn["body"], rv["res"]["hid"])
                if init is not None and any(y.get("k") == "MethodCall" and (y["method"].startswith("add_") or y["method"] == AT) and (place_path(y["recv"]) or "") == "self" for y in walk(init)):
                    okr = True
                elif init is not None:
                    okr = False
            elif rv.get("k") in ("Unary", "Field", "Index", "Call", "MethodCall"):
                okr = False
            if okr is None:
                r.undecided("%s: a returned value of unrecognised shape" % fn["name"])
                continue
            r.ob(okr, {"fn": fn["name"], "returns the id add_type gave": okr})
            if not okr:
                r.violate("%s | returns id not from add_type" % fn["path"], F.loc(fn, rv if "sp" in rv else None),
                          "%s has a path that returns a type index it did not get from add_type (`%s`): the requested type is neither compared in full with the type at that index nor appended" % (fn["name"], snippet(_repo(), fn["file"], rv["sp"]) if "sp" in rv else "?"))
    return r


# ---------------------------------------------------------------- C30
def additions(F):
    r = RuleResult("R-ADD-FLOW",
                   "module-level additions: add_data returns the index the segment gets (len before push); mod_global_init_expr writes only the addressed global's init_expr; add_export_func/add_export_mem set the matching ExternalKind and pass name/index/tag through; memory/global adders build their items from their own parameters")
    fn = F.one_fn(name="add_data", self_adt="Module")
    r.analysed.append(fn["path"])

    def classify(n):
        if n.get("k") == "MethodCall" and n["method"] == "len" and (place_path(n["recv"]) or "") == "self.data":
            return "LEN"
        if n.get("k") == "MethodCall" and n["method"] == "push" and (place_path(n["recv"]) or "") == "self.data":
            return "PUSH"
        return None

    for ev, st in normal_paths(paths(fn["body"], classify)):
        ok = list(ev) == ["LEN", "PUSH"]
        r.ob(ok, {"add_data": list(ev)})
        if not ok:
            r.violate("%s | order" % fn["path"], F.loc(fn), "add_data events %s (expected: read len, then push)" % list(ev))
    # what the caller hands to an add_* API is stored as given: the only field of a by-value parameter an adder may
    # write before storing it is its id (`local_mem.mem_id = id`, `global.set_id(id)`); clamping/normalising a requested
    # type, limit or value changes what was requested
    n_add = 0
    for owner in ("Module", "Memories", "Functions", "ModuleGlobals", "ModuleExports", "ModuleImports", "ModuleTypes", "CustomSections", "ModuleTables"):
        for fn_ in F.find_fns(self_adt=owner):
            if fn_.get("body") is None or not fn_["name"].startswith("add"):
                continue
            n_add += 1
            phids = {pm["pat"].get("hid"): pm["pat"].get("name") for pm in fn_["params"] if pm["pat"].get("k") == "Binding" and not (pm.get("ty") or "").startswith("&") and pm["pat"].get("name") != "self"}
            for x in walk(fn_["body"]):
                if x.get("k") in ("Assign", "AssignOp"):
                    l = x["lhs"]
                    fields_ = []
                    while isinstance(l, dict) and l.get("k") in ("Field", "Index", "Unary"):
                        if l.get("k") == "Field":
                            fields_.append(l["name"])
                        l = l.get("base") or l.get("a")
                    if isinstance(l, dict) and l.get("k") == "Path" and l.get("res", {}).get("hid") in phids:
                        okw = any("id" in f_.lower() for f_ in fields_) or not fields_ and False
                        r.ob(okw, {"adder": fn_["path"], "writes_param": "%s.%s" % (phids[l["res"]["hid"]], ".".join(reversed(fields_)))})
                        if fn_["path"] not in r.analysed:
                            r.analysed.append(fn_["path"])
                        if not okw:
                            r.violate("%s | rewrites %s.%s" % (fn_["path"], phids[l["res"]["hid"]], ".".join(reversed(fields_))), F.loc(fn_, x),
                                      "%s::%s modifies its parameter `%s` (%s) before storing it: the added item is not the one the caller requested" % (owner, fn_["name"], phids[l["res"]["hid"]], ".".join(reversed(fields_)) or "whole value"))
    r.count("adders", n_add)
    fn = F.one_fn(name="mod_global_init_expr", self_adt="ModuleGlobals")
    r.analysed.append(fn["path"])
    writes = [n for n in walk(fn["body"]) if n.get("k") == "Assign"]
    ok = len(writes) == 1 and (place_path(writes[0]["lhs"]) or "") == "init_expr"
    r.ob(ok)
    if not ok:
        r.violate("%s | writes" % fn["path"], F.loc(fn), "mod_global_init_expr writes something other than exactly the init_expr of the addressed global")
    ok = any(x.get("k") == "MethodCall" and x["method"] == "get_mut" and peel(x["args"][0]).get("k") in ("Cast", "Path") for x in walk(fn["body"]))
    # a GlobalID is a position in the vector (deleted globals keep their slot until encoding): looking the id up in a
    # filtered / skipped / reversed view of the vector (`iter_mut().filter(|g| !g.deleted).nth(id)`) addresses another global
    # as soon as an earlier one was deleted
    filtered = None
    for x in walk(fn["body"]):
        if x.get("k") == "MethodCall" and x["method"] in ("nth", "position", "find", "skip"):
            chain, cur = [], peel(x["recv"])
            if cur.get("k") == "Path" and cur.get("res", {}).get("r") == "local":
                _p, init_, _k = binding_site(fn["body"], cur["res"]["hid"])
                cur = peel(init_) if isinstance(init_, dict) else cur
            while isinstance(cur, dict) and cur.get("k") == "MethodCall":
                chain.append(cur["method"])
                cur = peel(cur["recv"])
            if x["method"] == "nth" and any(m_ in chain for m_ in ("filter", "filter_map", "skip", "skip_while", "rev", "take_while")):
                filtered = x
    if filtered is not None:
        r.ob(False, {"mod_global_init_expr": "id looked up in a filtered view"})
        r.violate("%s | id looked up in a filtered view" % fn["path"], F.loc(fn, filtered),
                  "mod_global_init_expr finds the global with `.nth(id)` on a filtered/skipped view of the vector: ids are positions in the unfiltered vector, so after any deletion the initialiser of a different global is rewritten")
    elif not ok:
        r.undecided("mod_global_init_expr: how the addressed global is looked up was not recognised")
    else:
        r.ob(True)
    for nm, kind in (("add_export_func", "Func"), ("add_export_mem", "Memory")):
        fn = F.one_fn(name=nm, self_adt="ModuleExports")
        r.analysed.append(fn["path"])
        ph = {p["pat"].get("name"): p["pat"].get("hid") for p in fn["params"]}
        okk = False
        for s in walk(fn["body"]):
            if s.get("k") == "Struct" and (s.get("adt") or "").endswith("module_exports::Export") and "rest" not in s:
                fs = {k: peel(v) for k, v in s["fields"]}
                okk = fs["kind"].get("res", {}).get("variant") == kind and fs["name"].get("res", {}).get("hid") == ph["name"] and \
                    fs["index"].get("res", {}).get("hid") == ph["exp_id"] and fs["tag"].get("res", {}).get("hid") == ph["tag"] and fs["deleted"].get("lit") == "Bool(false)"
        r.ob(okk, {"fn": nm, "kind": kind})
        if not okk:
            r.violate("%s | export literal" % fn["path"], F.loc(fn), "%s does not build Export{name, kind: %s, index: exp_id, deleted: false, tag}" % (nm, kind))
        # the new entry is appended on every path (no upsert / early return): an add is an add
        pushes = [c for c in walk(fn["body"]) if c.get("k") == "MethodCall" and c["method"] == "push" and (place_path(c["recv"]) or "") == "self.exports"]
        okp = len(pushes) == 1 and every_iteration(fn["body"], pushes[0])[0]
        r.ob(okp, {"fn": nm, "appends_on_every_path": okp})
        if not okp:
            r.violate("%s | conditional append" % fn["path"], F.loc(fn), "%s does not append the new export on every path (%s): the requested export can be dropped or an existing entry mutated instead" % (nm, every_iteration(fn["body"], pushes[0])[1] if pushes else "no push"))
        others = [x for x in walk(fn["body"]) if x.get("k") in ("Assign", "AssignOp") and (place_path(x["lhs"]) or "").startswith("self.exports")]
        for c in walk(fn["body"]):
            if c.get("k") in ("MethodCall", "Call") and (c.get("inst") or c.get("callee") or "") in F.by_path:
                t = F.by_path[c.get("inst") or c.get("callee")][0]
                if t.get("body") and any(x.get("k") in ("Assign", "AssignOp") and ".exports" in (place_path(x["lhs"]) or "") or (x.get("k") == "MethodCall" and x["method"] in ("iter_mut", "get_mut", "remove", "retain") and (place_path(x["recv"]) or "").endswith("self.exports")) for x in walk(t["body"])):
                    others.append(c)
        oko = not others
        r.ob(oko)
        if not oko:
            r.violate("%s | edits existing exports" % fn["path"], F.loc(fn, others[0]), "%s edits existing export entries: adding an export must change nothing else" % nm)
    return r


def _is_ops_seq(ty):
    """a sequence of operators: Vec<Operator>, &Vec<Operator>, &[Operator], Box<[Operator]> ..."""
    ty = ty or ""
    return "Operator" in ty and ("Vec<" in ty or "[" in ty)


# ---------------------------------------------------------------- C17–C21 details
def resolver_details(F):
    r = RuleResult("R-RESOLVER-DETAILS",
                   "special-mode resolvers place code where the property says: function entry at idx 0 in Before mode; the exit wrapper block is opened on the entry list and closed by exactly one end() at the last instruction before the exit body; block entry uses After of the opener; block exit bodies are resolved in Before of the closing else/end; block-alt bookkeeping sets delete_block from the stack top and clears it only when the popped id matches; every instruction visited while deleting gets an empty alternate; branch flags are set to 1 before and 0 after the branch")
    # function entry
    fe = F.one_fn(name="resolve_function_entry")
    r.analysed.append(fe["path"])
    # decided by cases on the instruction index (shape-independent): at index 0 every path selects Before and injects the
    # entry body; at any other index no path injects anything
    from vlib.paths import int_eq_case
    idx_h = {pm["pat"]["hid"] for pm in fe.get("params", []) if pm["pat"].get("k") == "Binding" and (pm.get("ty") or "") == "usize"}

    def cl_e(n):
        if n.get("k") == "MethodCall" and n["method"] in ("before_at", "after_at", "alternate_at", "inject_all", "inject"):
            return n["method"]
        return None
    at0 = {ev for ev, st in normal_paths(paths(fe["body"], cl_e, decide_if=int_eq_case(idx_h, 0, True)[0]))}
    other = {ev for ev, st in normal_paths(paths(fe["body"], cl_e, decide_if=int_eq_case(idx_h, 0, False)[0]))}
    ok = bool(idx_h) and at0 == {("before_at", "inject_all")} and other == {()}
    r.ob(ok, {"function entry": "idx == 0 → before_at + inject_all", "paths at 0": sorted(map(list, at0)), "paths elsewhere": sorted(map(list, other))})
    if not ok:
        r.violate("%s | placement" % fe["path"], F.loc(fe), "the entry body is not injected before instruction 0")
    # exit wrapper: Block pushed onto the entry list; closed by end() at len-1 before inject_all(exit)
    fw = F.one_fn(name="resolve_function_exit_with_block_wrapper")
    r.analysed.append(fw["path"])
    okw = False
    for n in walk(fw["body"]):
        if n.get("k") == "MethodCall" and n["method"] == "push" and peel(n["recv"]).get("res", {}).get("name") == "instr_func_on_entry":
            a = peel(n["args"][0])
            if a.get("k") == "Struct" and a.get("variant") == "Block":
                bt = dict(a["fields"]).get("blockty")
                okw = any(x.get("k") == "Call" and (x.get("fres") or {}).get("variant") == "FuncType" for x in walk(bt)) and \
                    any(x.get("k") == "Path" and x.get("res", {}).get("name") == "block_ty" for x in walk(bt))
    r.ob(okw)
    if not okw:
        r.violate("%s | wrapper" % fw["path"], F.loc(fw), "the exit wrapper does not open a Block typed by the given function-type id on the entry list")
    fx = F.one_fn(name="resolve_function_exit")
    r.analysed.append(fx["path"])

    def cl(n):
        if n.get("k") == "MethodCall" and n["method"] in ("before_at", "after_at", "alternate_at", "end", "inject_all", "clear"):
            return n["method"]
        return None

    seqs = {ev for ev, st in normal_paths(paths(fx["body"], cl))}
    want = {(), ("before_at", "inject_all"), ("before_at", "end", "inject_all", "clear")}
    ok = seqs == want
    r.ob(ok, {"resolve_function_exit paths": sorted(map(list, seqs))})
    if not ok:
        r.violate("%s | paths" % fx["path"], F.loc(fx), "resolve_function_exit has paths %s (expected: nothing | before+inject at return/trap ops | before+end+inject+clear at the last instruction)" % sorted(map(list, seqs)))
    # last-instruction test
    okl = False
    for n in walk(fx["body"]):
        if n.get("k") == "If":
            c = peel(n["cond"])
            s = snippet(_repo(), fx["file"], c["sp"])
            if c.get("k") == "Binary" and c["op"] == "==" and "len()-1" in s and s.startswith("idx=="):
                okl = True
    r.ob(okl)
    if not okl:
        r.violate("%s | last-instruction test" % fx["path"], F.loc(fx), "the wrapper is not closed exactly at idx == instructions.len() - 1")
    # wrapper setup guarded by non-empty exit; types: add_func_type(&[], &results)
    rs = F.one_fn(name="resolve_special_instrumentation", self_adt="Module")
    okt = False
    for c in walk(rs["body"]):
        if c.get("k") == "MethodCall" and c["method"] == "add_func_type":
            a0 = peel(c["args"][0])
            a1 = c["args"][1]
            okt = a0.get("k") == "Array" and not a0["elems"] and any(x.get("k") == "Path" and x.get("res", {}).get("name") == "func_results" for x in walk(a1))
    r.ob(okt)
    if not okt:
        r.violate("%s | wrapper type" % rs["path"], F.loc(rs), "the exit wrapper's block type is not [] → the function's results")
    # block entry: after_at + inject_all
    be = F.one_fn(name="resolve_block_entry")
    r.analysed.append(be["path"])
    seqs = {ev for ev, st in normal_paths(paths(be["body"], cl))}
    ok = seqs == {(), ("after_at", "inject_all")}
    r.ob(ok, {"resolve_block_entry paths": sorted(map(list, seqs))})
    if not ok:
        r.violate("%s | paths" % be["path"], F.loc(be), "block entry bodies are not injected After the opener (paths %s)" % sorted(map(list, seqs)))
    # block exit: saved with mode Before
    px = F.one_fn(name="plan_resolution_block_exit")
    r.analysed.append(px["path"])
    modes = set()
    for c in walk(px["body"]):
        if c.get("k") == "Call" and (c.get("callee") or "").split("::")[-1] in ("save_not_flagged_body_to_resolve", "save_not_flagged_body_to_resolve_inner"):
            for x in walk(c["args"]):
                if x.get("k") == "Path" and x.get("res", {}).get("adt", "").endswith("InstrumentationMode") and x["res"].get("variant"):
                    modes.add(x["res"]["variant"])
    ok = modes == {"Before"}
    r.ob(ok, {"block-exit bodies saved in mode": sorted(modes)})
    if not ok:
        r.violate("%s | mode" % px["path"], F.loc(px), "block-exit bodies are saved in mode(s) %s (expected Before of the closing else/end)" % sorted(modes))
    # if → resolve_on_else_or_end ; block/loop/else → resolve_on_end keyed by block_stack.last()
    tgt = {}
    for m in walk(px["body"]):
        if m.get("k") == "Match":
            for arm in m["arms"]:
                ops = {l["variant"] for l in pat_alternatives(arm["pat"]) if l.get("variant")}
                cs = [c for c in walk(arm["body"]) if c.get("k") == "Call" and "save_" in (c.get("callee") or "")]
                for c in cs:
                    first = peel(c["args"][0]).get("res", {}).get("name")
                    for o in ops:
                        tgt[o] = first
    ok = tgt.get("If") == "resolve_on_else_or_end" and all(tgt.get(o) == "resolve_on_end" for o in ("Block", "Loop", "Else"))
    r.ob(ok, {"block-exit containers": tgt})
    if not ok:
        r.violate("%s | containers" % px["path"], F.loc(px), "block-exit bodies are filed in %s (expected If→resolve_on_else_or_end; Block/Loop/Else→resolve_on_end)" % tgt)
    # semantic after: mode After; flagged bodies keyed by curr_block - relative_depth
    ps = F.one_fn(name="plan_resolution_semantic_after")
    r.analysed.append(ps["path"])
    modes = set()
    for c in walk(ps["body"]):
        if c.get("k") == "Call" and "save_" in (c.get("callee") or ""):
            for x in walk(c["args"]):
                if x.get("k") == "Path" and x.get("res", {}).get("adt", "").endswith("InstrumentationMode") and x["res"].get("variant"):
                    modes.add(x["res"]["variant"])
    ok = modes == {"After"}
    r.ob(ok)
    if not ok:
        r.violate("%s | mode" % ps["path"], F.loc(ps), "semantic-after bodies are saved in mode(s) %s (expected After)" % sorted(modes))
    sf = F.one_fn(name="save_flagged_body_to_resolve")
    okd = any(n.get("k") == "Binary" and n["op"] == "-" and peel(n["a"]).get("res", {}).get("name") == "curr_block" and peel(n["b"]).get("res", {}).get("name") == "relative_depth" for n in walk(sf["body"]))
    r.ob(okd)
    if not okd:
        r.violate("%s | target" % sf["path"], F.loc(sf), "the branch target block id is not curr_block - relative_depth")
    # create_bool_flag: before: const 1 ; after: const 0 ; same local
    cb = F.one_fn(name="create_bool_flag")
    r.analysed.append(cb["path"])

    def cl2(n):
        if n.get("k") == "MethodCall" and n["method"] in ("before_at", "after_at"):
            return n["method"]
        if n.get("k") == "MethodCall" and n["method"] == "i32_const":
            return "const:%s" % lit_int(peel(n["args"][0]).get("lit", ""))
        if n.get("k") == "MethodCall" and n["method"] == "local_set":
            return "set:" + str(peel(n["args"][0]).get("res", {}).get("name"))
        if n.get("k") == "MethodCall" and n["method"] == "inject_all":
            return "inject_all"
        return None

    seqs = {ev for ev, st in normal_paths(paths(cb["body"], cl2))}
    base = ("before_at", "const:1", "set:bool_flag_id", "after_at", "const:0", "set:bool_flag_id")
    ok = seqs == {base, base + ("inject_all",)}
    r.ob(ok, {"create_bool_flag paths": sorted(map(list, seqs))})
    if not ok:
        r.violate("%s | flag protocol" % cb["path"], F.loc(cb), "create_bool_flag paths %s (expected: before→const 1→set flag; after→const 0→set flag; conditional branches additionally inject the body)" % sorted(map(list, seqs)))
    # block alt bookkeeping in the driver
    dels = [n for n in walk(rs["body"]) if n.get("k") == "Assign" and peel(n["lhs"]).get("res", {}).get("name") == "delete_block"]
    sets = [n for n in dels if peel(n["rhs"]).get("k") == "Call"]
    clears = [n for n in dels if peel(n["rhs"]).get("res", {}).get("variant") == "None"]
    # every place that plans a block alternate records which block is being deleted (the arms for the block openers and for
    # `else` may be one merged arm or two)
    from vlib.facts import lca, path_to, sp_before
    plans = [c for c in walk(rs["body"]) if c.get("k") == "Call" and (c.get("callee") or "").split("::")[-1] == "plan_resolution_block_alt"]

    def near_set(P):
        for S in sets:
            l_ = lca(rs["body"], P, S)
            if l_ is None or not sp_before(P, S):
                continue
            pth = path_to(rs["body"], P) or []
            d_ = next((i for i, (n_, _) in enumerate(pth) if n_ is l_), None)
            if d_ is not None and len(pth) - d_ <= 10:
                return True
        return False
    ok = len(sets) >= 1 and bool(plans) and all(near_set(P) for P in plans) and \
        all(any(x.get("k") == "MethodCall" and x["method"] == "last" and (place_path(x["recv"]) or "") == "block_stack" for x in walk(n["rhs"])) for n in sets) and len(clears) == 1
    r.ob(ok, {"delete_block set from block_stack.last()": len(sets), "cleared at": len(clears)})
    if not ok:
        r.violate("%s | delete_block" % rs["path"], F.loc(rs), "delete_block is not set from block_stack.last() / cleared exactly once")
    # the clear is under `(*delete_block_id).eq(&block_id)`
    okc = False

    def cmp_with_popped(e, depth=0):
        for x in walk(e):
            if ((x.get("k") == "MethodCall" and x["method"] == "eq") or (x.get("k") == "Binary" and x.get("op") == "==")) and \
                    any(y.get("k") == "Path" and y.get("res", {}).get("name") == "block_id" for y in walk(x)):
                return True
            # a bool local that holds the comparison: `let closes = delete_block_id == block_id; if closes {..}`
            if depth < 2 and x.get("k") == "Path" and x.get("res", {}).get("r") == "local":
                for st in walk(rs["body"]):
                    if st.get("k") == "Let" and st["pat"].get("hid") == x["res"].get("hid") and isinstance(st.get("init"), dict) and cmp_with_popped(st["init"], depth + 1):
                        return True
        return False

    def rec(node, under):
        nonlocal okc
        if isinstance(node, list):
            for v in node:
                rec(v, under)
            return
        if not isinstance(node, dict):
            return
        if node.get("k") == "If":
            c = node["cond"]
            u = under or cmp_with_popped(c)
            rec(node["cond"], under)
            rec(node["then"], u)
            if "else" in node:
                rec(node["else"], under)
            return
        if node.get("k") == "Match" and node.get("src") not in ("ForLoopDesugar", "TryDesugar"):
            # `match delete_block { Some(id) if id == block_id => { delete_block = None; .. } .. }`: the arm's guard is the test
            rec(node.get("scrut"), under)
            for arm_ in node["arms"]:
                u_ = under or ("guard" in arm_ and cmp_with_popped(arm_["guard"]))
                if "guard" in arm_:
                    rec(arm_["guard"], under)
                rec(arm_["body"], u_)
            return
        if clears and node is clears[0] and under:
            okc = True
        for v in node.values():
            if isinstance(v, (dict, list)):
                rec(v, under)

    rec(rs["body"], False)
    r.ob(okc)
    if not okc:
        r.violate("%s | delete_block clear" % rs["path"], F.loc(rs), "delete_block is cleared without comparing the popped block id with it")
    # an `end` met while a block is being deleted that is NOT the end of that block (a construct nested in the deleted region)
    # is always removed and its instrumentation skipped — whatever retain_end says (that flag is about the deleted block's own
    # end): case analysis of the End arm under "delete_block is Some(d), d != popped id"
    end_arm = None
    for m_ in walk(rs["body"]):
        if m_.get("k") == "Match" and "Operator" in (m_.get("scrut_ty") or ""):
            for a_ in m_["arms"]:
                if {v for _, v in pat_variants(a_["pat"])[0]} == {"End"} and peel(a_["body"]).get("k") != "Lit":
                    end_arm = a_
    if end_arm is not None:
        def cl_end(n):
            if n.get("k") == "MethodCall" and n["method"] == "empty_alternate_at":
                return "EMPTY"
            if n.get("k") == "MethodCall" and n["method"] == "remove" and "resolve_on" in (place_path(n["recv"]) or ""):
                return "RESOLVE"
            return None

        def dec_end(n):
            c_ = peel(n["cond"])
            if c_.get("k") == "LetExpr":
                nm_ = {x["res"].get("name") for x in walk(c_["init"]) if x.get("k") == "Path" and x.get("res", {}).get("r") == "local"}
                if "delete_block" in nm_ and c_["pat"].get("variant") == "Some":
                    return True
                if any(x.get("k") == "MethodCall" and x["method"] == "pop" for x in walk(c_["init"])):
                    return True
                return None
            if cmp_with_popped(c_):
                neg = c_.get("k") == "Unary" and c_.get("op") == "!"
                return True if neg else False
            # `let delete_this_end = match delete_block { Some(d) if d == id => .., Some(_) => true, None => false }; if delete_this_end {..}`
            neg = False
            if c_.get("k") == "Unary" and c_.get("op") == "!":
                neg, c_ = True, peel(c_["a"])
            if c_.get("k") == "Path" and c_.get("res", {}).get("r") == "local":
                _p, init_, _k = binding_site(end_arm["body"], c_["res"]["hid"])
                init_ = peel(init_) if isinstance(init_, dict) else {}
                if init_.get("k") == "Lit" and str(init_.get("lit")).startswith("Bool"):
                    # `let mut flag = true; if d == id { flag = ..; } if flag {..}`: in this case (d != id) every assignment
                    # that sits in the then-branch of the comparison is not executed, so the flag still has its initial value
                    hid_ = c_["res"]["hid"]
                    live = False
                    for a_ in walk(end_arm["body"]):
                        if a_.get("k") in ("Assign", "AssignOp") and peel(a_["lhs"]).get("k") == "Path" and peel(a_["lhs"]).get("res", {}).get("hid") == hid_:
                            skipped = any(ca.get("k") == "If" and cmp_with_popped(ca["cond"]) and not (peel(ca["cond"]).get("k") == "Unary" and peel(ca["cond"]).get("op") == "!")
                                          and any(y is a_ for y in walk(ca["then"])) for ca in (conditional_ancestors(end_arm["body"], a_) or []))
                            if not skipped:
                                live = True
                    if not live:
                        v_ = "Bool(true)" in str(init_.get("lit"))
                        return (not v_) if neg else v_
                if init_.get("k") == "Match":
                    picked = sel_end(init_)
                    if picked:
                        from rules.fields import _tail_values
                        tails = [peel(t) for i_ in picked for t in _tail_values(init_["arms"][i_]["body"])]
                        if tails and all(t.get("k") == "Lit" and "Bool(true)" in str(t.get("lit")) for t in tails):
                            return not neg
                        if tails and all(t.get("k") == "Lit" and "Bool(false)" in str(t.get("lit")) for t in tails):
                            return neg
            return None

        def sel_end(m_):
            sc = peel(m_.get("scrut") or {})
            if sc.get("k") == "Path" and sc.get("res", {}).get("name") == "delete_block":
                out = []
                for i, a_ in enumerate(m_["arms"]):
                    if a_["pat"].get("variant") == "None":
                        continue
                    if "guard" in a_ and cmp_with_popped(a_["guard"]):
                        continue        # the arm for d == popped id
                    out.append(i)
                    if a_["pat"].get("variant") == "Some" and "guard" not in a_:
                        break
                return out
            return None
        evs_ = set()
        recognised = False
        for ev, st_ in paths(end_arm["body"], cl_end, decide_if=dec_end, select_arms=sel_end):
            if st_ in ("fall", "cont"):
                evs_.add((ev, st_))
        tested = any(cmp_with_popped(x) for x in walk(end_arm["body"]) if x.get("k") in ("If",) for x in [x["cond"]]) or \
            any("guard" in a_ and cmp_with_popped(a_["guard"]) for m_ in walk(end_arm["body"]) if m_.get("k") == "Match" for a_ in m_["arms"])
        if not tested:
            r.undecided("End arm: the comparison of the popped block id with delete_block was not found; the nested-end clause was not analysed")
        else:
            bad_ = sorted(ev for ev, st_ in evs_ if not (st_ == "cont" and "EMPTY" in ev and "RESOLVE" not in ev))
            r.ob(not bad_, {"nested end inside a deleted block": "always removed and skipped" if not bad_ else "kept on some path", "paths": len(evs_)})
            if bad_:
                r.violate("%s | nested end kept" % rs["path"], F.loc(rs, end_arm),
                          "while a block is being deleted, an `end` that closes a construct nested inside it is not removed on every path (events %s): the opener and body of that construct are deleted but its `end` survives, leaving an unbalanced body" % (list(bad_[0]),))
    # every arm of the driver match empties instructions while deleting
    from rules.special import op_matches, arm_ops
    for m in op_matches(rs):
        if len(m["arms"]) < 4:
            continue
        for arm in m["arms"]:
            ops, wild = arm_ops(arm)
            has = any(x.get("k") == "MethodCall" and x["method"] == "empty_alternate_at" for x in walk(arm["body"]))
            r.ob(has, {"driver arm": sorted(ops) or "_", "empties while deleting": has})
            if not has:
                r.violate("%s | arm %s keeps instructions" % (rs["path"], "+".join(sorted(ops)) or "_"), F.loc(rs, arm), "driver arm for %s does not give visited instructions an empty alternate while a block is being replaced" % (sorted(ops) or "other operators"))
    # retain_end: false for matches, true again for Else
    pa = F.one_fn(name="plan_resolution_block_alt")
    r.analysed.append(pa["path"])
    # decided by cases on the operator (shape-independent): after the call retain_end is false for Block/Loop/If, true for
    # Else, untouched for every other operator
    from vlib.paths import variant_case
    OPA = "wasmparser::Operator"
    subj = {pm["pat"]["hid"] for pm in pa.get("params", []) if OPA in (pm.get("ty") or "") and pm["pat"].get("k") == "Binding"}
    want = {"Block": "false", "Loop": "false", "If": "false", "Else": "true", "Nop": None}
    outcome = {}
    for v_, w_ in want.items():
        dec, sel, val = variant_case(F, pa, subj, OPA, v_)

        def clf(n, val=val):
            if n.get("k") == "Assign" and "retain_end" in (place_path(n["lhs"]) or ""):
                b_ = val(n["rhs"])
                return "RE:%s" % ("true" if b_ is True else "false" if b_ is False else "?")
            return None
        finals = set()
        for ev, st_ in paths(pa["body"], clf, decide_if=dec, select_arms=sel):
            if st_ == "panic":
                continue
            res = [e for e in ev if e.startswith("RE:")]
            finals.add(res[-1][3:] if res else None)
        outcome[v_] = finals
    ok = all(outcome[v_] == {w_} for v_, w_ in want.items())
    if not ok and all(v == {None} for v in outcome.values()) and not any("retain_end" in (place_path(x.get("lhs") or {}) or "") for x in walk(pa["body"]) if x.get("k") in ("Assign", "AssignOp")):
        # the planner no longer writes an out-parameter at all (it reports through its return value): nothing contradicts the clause
        r.undecided("plan_resolution_block_alt does not write retain_end (result returned as `%s`): the retain-end clause was not analysed" % pa.get("ret"))
        ok = True
    r.ob(ok, {"retain_end after the call, by operator": {k: sorted(map(str, v)) for k, v in outcome.items()}})
    if not ok:
        r.violate("%s | retain_end" % pa["path"], F.loc(pa), "retain_end after plan_resolution_block_alt is %s (expected false for block/loop/if, true for else, unchanged otherwise): the matching `end` of a replaced construct is kept or removed wrongly" % {k: sorted(map(str, v)) for k, v in outcome.items()})
    # semantic-after planning, decided by cases on the operator: for every branching operator each normal path creates the
    # taken-flag and files at least one flag-guarded body; for block/loop/if/else each normal path files one unconditional body
    ps_fn = F.one_fn(name="plan_resolution_semantic_after")
    subj_ps = {pm["pat"]["hid"] for pm in ps_fn.get("params", []) if OPA in (pm.get("ty") or "") and pm["pat"].get("k") == "Binding"}

    def cl_ps(n):
        if n.get("k") in ("Call", "MethodCall"):
            c_ = (n.get("callee") or "").split("::")[-1]
            if c_ == "create_bool_flag":
                return "FLAG"
            if c_ == "save_flagged_body_to_resolve":
                return "SAVE_FLAGGED"
            if c_ in ("save_not_flagged_body_to_resolve", "save_not_flagged_body_to_resolve_inner"):
                return "SAVE_PLAIN"
        return None
    branch_ops = sorted(v for v, vd in F.variants(OPA).items() if any(f_["name"] in ("relative_depth", "targets") for f_ in vd["fields"]))
    def _chains_once(e, depth=0):
        for x in walk(e):
            if x.get("k") == "MethodCall" and x["method"] == "chain" and x.get("args") and \
                    any(y.get("k") == "Call" and (y.get("callee") or "").endswith("iter::once") for y in walk(x["args"][0])):
                return True
            if depth < 2 and x.get("k") == "Path" and x.get("res", {}).get("r") == "local":
                _p, init_, _k = binding_site(ps_fn["body"], x["res"]["hid"])
                if init_ is not None and _chains_once(init_, depth + 1):
                    return True
        return False
    nonempty_loop = any(m_.get("k") == "Match" and m_.get("src") == "ForLoopDesugar" and _chains_once(m_["scrut"]) for m_ in walk(ps_fn["body"]))
    for v_ in branch_ops + ["Block", "Loop", "If", "Else"]:
        dec, sel, _val = variant_case(F, ps_fn, subj_ps, OPA, v_)
        evs = {ev for ev, st_ in paths(ps_fn["body"], cl_ps, decide_if=dec, select_arms=sel) if st_ in ("fall", "ret")}
        if nonempty_loop:
            # `for t in targets.chain(once(default)) { save(..) }` runs at least once: the zero-iteration twin of a path that
            # saves in the loop is not a path of the program
            evs = {ev for ev in evs if not any(ev2 != ev and ev2[:len(ev)] == ev and set(ev2[len(ev):]) <= {"SAVE_FLAGGED", "SAVE_PLAIN"} for ev2 in evs)}
        if v_ in ("Block", "Loop", "If", "Else"):
            ok = bool(evs) and all(ev.count("SAVE_PLAIN") >= 1 for ev in evs)
        else:
            if all(not ev for ev in evs):
                continue        # an operator with a label that the accepting predicate does not treat as a branch
            ok = bool(evs) and all("FLAG" in ev and "SAVE_FLAGGED" in ev and ev.index("FLAG") < ev.index("SAVE_FLAGGED") for ev in evs)
        r.ob(ok, {"semantic-after plan for": v_, "paths": sorted(map(list, evs))[:4]})
        if not ok:
            r.violate("%s | plan for %s" % (ps_fn["path"], v_), F.loc(ps_fn),
                      "for %s a path through plan_resolution_semantic_after does %s: the probe is not planned on that path (neither the flag nor the deferred body exists)" % (v_, sorted(map(list, evs))[:4]))
    return r


def flag_reset(F):
    return scoped_pending(F, parts=("flag",))


def scoped_pending(F, parts=("containers",)):
    r = RuleResult("R-SCOPED-PENDING" if parts == ("containers",) else "R-FLAG-RESET",
                   "pending bodies consumed at Else/End are looked up by the current block id (a container that is iterated and cleared wholesale at the next Else/End is unscoped: a nested block's end consumes the outer if-arm's exit probe); and in resolve_bodies each flag-guarded body resets its flag inside the guard")
    rs = F.one_fn(name="resolve_special_instrumentation", self_adt="Module")
    r.analysed.append(rs["path"])
    # containers declared in the function: name → key type
    conts = {}
    for st in walk(rs["body"]):
        if st.get("k") == "Let" and st["pat"].get("k") == "Binding" and st["pat"]["name"].startswith("resolve_on"):
            conts[st["pat"]["name"]] = st["pat"].get("ty", "")
    r.count("pending_containers", len(conts))
    # `for pending in [&mut resolve_on_else_or_end, &mut resolve_on_end] { pending.remove(&block_id) .. }`: the loop variable
    # stands for each listed container in turn — hid of the variable → (container names, loop node, per-element body)
    alias = {}
    for m in walk(rs["body"]):
        if not (m.get("k") == "Match" and m.get("src") == "ForLoopDesugar"):
            continue
        lits = [x for x in walk(m["scrut"]) if x.get("k") == "Array"]
        if not lits:
            continue
        names_ = []
        for el in lits[0].get("elems", []):
            e_ = peel(el)
            while isinstance(e_, dict) and e_.get("k") == "AddrOf":
                e_ = peel(e_["a"])
            if isinstance(e_, dict) and e_.get("k") == "Path" and e_.get("res", {}).get("name") in conts:
                names_.append(e_["res"]["name"])
            else:
                names_ = None
                break
        if not names_:
            continue
        for lp in walk(m["arms"][0]["body"]):
            if lp.get("k") == "Match" and lp is not m:
                for arm_ in lp["arms"]:
                    p_ = arm_["pat"]
                    if p_.get("variant") == "Some":
                        inner = p_["pats"][0] if p_.get("pats") else p_["fields"][0][1]
                        if inner.get("k") == "Binding":
                            alias[inner["hid"]] = (names_, m, arm_["body"])
                break

    def on_container(n, name):
        """is `n` a method call on container `name`, directly or through a loop variable standing for it?"""
        if (place_path(n["recv"]) or "") == name:
            return True
        rv = peel(n["recv"])
        return rv.get("k") == "Path" and rv.get("res", {}).get("hid") in alias and name in alias[rv["res"]["hid"]][0]
    for name, ty in sorted(conts.items()):
        keyed_by_block = ty.replace("std::collections::", "").startswith("HashMap<u32")
        # wholesale consumption: `for .. in X.iter()` + `X.clear()`
        whole = any(n.get("k") == "MethodCall" and n["method"] == "clear" and on_container(n, name) for n in walk(rs["body"]))
        by_key = any(n.get("k") == "MethodCall" and n["method"] in ("remove", "get", "get_mut") and on_container(n, name) for n in walk(rs["body"]))
        ok = keyed_by_block and by_key and not whole
        r.ob(ok, {"container": name, "keyed by block id": keyed_by_block, "consumed by key": by_key, "cleared wholesale": whole})
        if not ok:
            r.violate("%s | %s unscoped" % (rs["path"], name), F.loc(rs),
                      "pending container `%s` is %s and is %s: bodies planned for an if-arm are emitted at the first nested else/end instead of the arm's own" % (
                          name, "keyed by block id" if keyed_by_block else "not keyed by block id", "cleared wholesale at every Else/End" if whole else "consumed by key"))
    # drain: at `End` every pending container is drained for the closing block, independently of the others
    # (a removal that only happens when another container had nothing — `a.remove(k).or_else(|| b.remove(k))` — leaves
    # bodies behind that are never emitted)
    if "containers" in parts:
        end_arms = []
        for m in walk(rs["body"]):
            if m.get("k") == "Match" and "Operator" in (m.get("scrut_ty") or ""):
                for arm in m["arms"]:
                    vs = {v for _, v in pat_variants(arm["pat"])[0]}
                    if vs == {"End"}:
                        end_arms.append(arm)
        if len(end_arms) != 1:
            raise CheckError("resolve_special_instrumentation: expected one `Operator::End` arm in the driver match, found %d" % len(end_arms))
        arm = end_arms[0]
        for name in sorted(conts):
            rms = [n for n in walk(arm["body"]) if n.get("k") == "MethodCall" and n["method"] == "remove" and on_container(n, name)]
            ok = False
            why = "is not drained (no %s.remove(block_id)) in the End arm" % name
            for rm in rms:
                rv_ = peel(rm["recv"])
                if rv_.get("k") == "Path" and rv_.get("res", {}).get("hid") in alias:
                    # through the loop variable: conditions inside one pass of the loop, plus those the loop itself sits under
                    _nm, loop_m, per_elem = alias[rv_["res"]["hid"]]
                    conds = [c for c in (conditional_ancestors(per_elem, rm) or [])] + [c for c in (conditional_ancestors(arm["body"], loop_m) or [])]
                else:
                    conds = [c for c in conditional_ancestors(arm["body"], rm) or []]
                # allowed: the `if let Some(block_id) = block_stack.pop()` frame and early-`continue` delete_block handling precede it
                bad = [c for c in conds if not (c.get("k") == "If" and any(x.get("k") == "MethodCall" and x["method"] == "pop" for x in walk(c["cond"])))]
                if not bad:
                    ok = True
                else:
                    why = "is drained only under %s at line %s" % (bad[0].get("k"), bad[0].get("sp", ["?"])[0])
            r.ob(ok, {"container": name, "drained_at_end_unconditionally": ok})
            if not ok:
                r.violate("%s | %s drain" % (rs["path"], name), F.loc(rs, arm), "at a block's `end`, pending container `%s` %s: bodies waiting there for this block are silently never emitted" % (name, why))
    # the driver visits every instruction: a `break` out of the per-instruction loop is sound only where nothing at all is
    # pending any more — its guard has to look at every pending container (a body waiting in one it forgot is never emitted)
    if "containers" in parts:
        from vlib.facts import path_to as _pt
        for lp in walk(rs["body"]):
            if not (lp.get("k") == "Match" and lp.get("src") == "ForLoopDesugar"):
                continue
            if not any(m_.get("k") == "Match" and "Operator" in (m_.get("scrut_ty") or "") and any({v for _, v in pat_variants(a_["pat"])[0]} == {"End"} for a_ in m_["arms"]) for m_ in walk(lp)):
                continue
            inner_loops = [x for x in walk(lp["arms"][0]["body"]) if x.get("k") == "Loop"]
            outer = inner_loops[0] if inner_loops else None
            for br in walk(lp):
                if br.get("k") != "Break" or outer is None or br.get("from_desugar"):
                    continue
                pth = _pt(outer, br) or []
                if sum(1 for n_, _ in pth if isinstance(n_, dict) and n_.get("k") == "Loop") > 1:
                    continue        # belongs to a nested loop
                # the desugaring's own `None => break` has no condition ancestors besides the iterator match
                conds_ = [c for pol, c in guard_conditions(outer, br) if pol in (True, False)]
                if not conds_:
                    continue
                mentioned = {x["res"].get("name") for c in conds_ for x in walk(c) if x.get("k") == "Path" and x.get("res", {}).get("r") == "local"}
                missing = sorted(set(conts) - mentioned)
                r.ob(not missing, {"early break of the driver loop looks at": sorted(mentioned & set(conts)), "ignores": missing})
                if missing:
                    r.violate("%s | early break ignores %s" % (rs["path"], "+".join(missing)), F.loc(rs, br),
                              "the resolver leaves its per-instruction loop early without checking pending container(s) %s: bodies still waiting there (e.g. an if's block-exit probe waiting for the else/end) are never emitted" % missing)
    # at `Else` the bodies waiting for the if's else are drained before anything in the arm can `continue` (an else that is
    # replaced by a block alt still ends the then-arm: its exit probe belongs where the else stood)
    if "containers" in parts:
        else_arms = []
        merged_else = []
        from vlib.facts import sp_before
        for m in walk(rs["body"]):
            if m.get("k") == "Match" and "Operator" in (m.get("scrut_ty") or ""):
                for arm in m["arms"]:
                    vs_ = {v for _, v in pat_variants(arm["pat"])[0]}
                    if peel(arm["body"]).get("k") == "Lit":
                        continue        # `matches!(op, Operator::Else)` desugars to a two-arm match with literal bodies
                    if vs_ == {"Else"}:
                        else_arms.append(arm)
                    elif "Else" in vs_:
                        merged_else.append(arm)
        if not else_arms and merged_else:
            # one arm for the block openers *and* `else`: the part that runs for an else is the branch under the test
            # `matches!(op, Else)`; the drain must sit there, before anything in the arm that can `continue`
            arm = merged_else[0]
            rms = [n for n in walk(arm["body"]) if n.get("k") == "MethodCall" and n["method"] == "remove" and (place_path(n["recv"]) or "") == "resolve_on_else_or_end"]
            okm = False
            if rms:
                conds_ = [c for c in (conditional_ancestors(arm["body"], rms[0]) or []) if c.get("k") in ("If", "Match")]
                only_else_test = all(c.get("k") == "If" and any(x.get("k") == "Match" and any(v == "Else" for a_ in x["arms"] for _, v in pat_variants(a_["pat"])[0]) for x in walk(c["cond"])) or
                                     (c.get("k") == "If" and any(x.get("k") == "LetExpr" for x in walk(c["cond"])) and any(y is rms[0] for y in walk(c["cond"])))
                                     for c in conds_)
                early = [x for x in walk(arm["body"]) if x.get("k") == "Continue" and sp_before(x, rms[0])]
                okm = only_else_test and not early
            if not rms:
                r.undecided("the driver handles `else` in an arm shared with the block openers and the drain of resolve_on_else_or_end was not found there")
            else:
                r.ob(okm, {"else (merged arm) drains resolve_on_else_or_end first": okm})
                if not okm:
                    r.violate("%s | else drain order" % rs["path"], F.loc(rs, arm), "at an `else`, the bodies waiting for it (the if's block-exit probe) are resolved only after code that can `continue`: when the else is replaced by a block alt they are emitted at the later `end`, after the replacement")
        for arm in else_arms[:1]:
            rms = [n for n in walk(arm["body"]) if n.get("k") == "MethodCall" and n["method"] == "remove" and (place_path(n["recv"]) or "") == "resolve_on_else_or_end"]
            ok = bool(rms) and every_iteration(arm["body"], rms[0])[0]
            # the remove sits in an `if let .. = stack.last().and_then(|id| map.remove(id))`: closures inside the scrutinee are fine
            if rms and not ok:
                why = every_iteration(arm["body"], rms[0])[1]
                if why.startswith("only under a conditional (Closure"):
                    early = [x for x in walk(arm["body"]) if x.get("k") == "Continue" and x["sp"][0] < rms[0]["sp"][0]]
                    ok = not early
            r.ob(ok, {"else arm drains resolve_on_else_or_end first": ok})
            if not ok:
                r.violate("%s | else drain order" % rs["path"], F.loc(rs, arm), "at an `else`, the bodies waiting for it (the if's block-exit probe) are resolved only after code that can `continue`: when the else is replaced by a block alt they are emitted at the later `end`, after the replacement")
    if "flag" not in parts:
        return r
    rb = F.one_fn(name="resolve_bodies")
    r.analysed.append(rb["path"])
    # flag reset: in every iteration of the flagged loop: local_get(flag) → if_stmt → … i32_const(0); local_set(flag) … before the guard's end
    loop_body = None
    for m in walk(rb["body"]):
        if m.get("k") == "Match" and m.get("src") == "ForLoopDesugar" and any(x.get("k") == "MethodCall" and x["method"] == "local_get" for x in walk(m)):
            loop_body = m
            break
    if loop_body is None:
        raise CheckError("anchor changed: resolve_bodies has no loop that reads the flag")

    def clf(n):
        if n.get("k") == "MethodCall" and n["method"] in ("local_get", "if_stmt", "local_set", "inject_all", "else_stmt", "end"):
            if n["method"] == "local_set":
                return "local_set"
            return n["method"]
        if n.get("k") == "MethodCall" and n["method"] == "i32_const":
            return "const:%s" % lit_int(peel(n["args"][0]).get("lit", ""))
        return None

    ok = True
    n_paths = 0
    for ev, st in normal_paths(paths(loop_body, clf)):
        if "local_get" not in ev:
            continue
        n_paths += 1
        i_if = ev.index("if_stmt") if "if_stmt" in ev else -1
        resets = [i for i, e in enumerate(ev) if e == "local_set" and i > i_if and i > 0 and ev[i - 1] == "const:0"]
        if i_if < 0 or not resets:
            ok = False
    has_get = n_paths > 0
    r.ob(ok, {"flag-guarded paths": n_paths, "flag reset inside guard on all": ok})
    if not ok:
        r.violate("%s | flag never reset" % rb["path"], F.loc(rb),
                  "resolve_bodies guards the body with `local.get flag; if` but never resets the flag inside the guard: once a branch was taken, a later fall-through arrival at the same end runs the body again")
    return r


def dead_after_sink(F):
    r = RuleResult("R-DEAD-AFTER-SINK",
                   "no resolver files After-mode code on the function's final `end`: encode_internal drops the after-list there (R-EMIT-ORDER), so a semantic-after probe whose branch target is the function label would be silently lost — such a target must be rejected or redirected")
    sf = F.one_fn(name="save_flagged_body_to_resolve")
    ps = F.one_fn(name="plan_resolution_semantic_after")
    r.analysed += [sf["path"], ps["path"]]
    # is there any guard on block_id == 0 (function label) in either function?
    guard = False
    for fn in (sf, ps):
        for n in walk(fn["body"]):
            if n.get("k") == "Binary" and n["op"] in ("==", "!=", ">", "<") and any(x.get("k") == "Lit" and lit_int(x["lit"]) == 0 for x in walk(n)) and \
                    any(x.get("k") == "Path" and x.get("res", {}).get("name") in ("block_id", "relative_depth", "curr_block") for x in walk(n)):
                guard = True
    r.ob(guard, {"function-label target guarded": guard})
    if not guard:
        r.violate("%s | function-label target" % sf["path"], F.loc(sf),
                  "a branch whose target is the function body (block id 0) gets its semantic-after body filed in After mode on the function's final end, where the encoder drops after-code: the flag set/reset is emitted but the probe body never is")
    return r


def _push_list_field(c):
    """for `X.flagged.push(..)` / `X.not_flagged.push(..)` (whatever X is: a place, a call result, ..) → the list name"""
    if c.get("k") == "MethodCall" and c["method"] in ("push", "extend", "append"):
        rv = c["recv"]
        while isinstance(rv, dict) and rv.get("k") in ("AddrOf", "Unary", "Index"):
            rv = rv.get("a") or rv.get("base")
        if isinstance(rv, dict) and rv.get("k") == "Field" and rv["name"] in ("flagged", "not_flagged"):
            return rv["name"]
    return None


# ---------------------------------------------------------------- R-SAVE-SIBLINGS
def save_siblings(F):
    """entry().and_modify(push into list L).or_insert(literal): the literal must be the singleton of what and_modify pushes —
    the same list L populated with the body (and flag), the other list empty.  Internal-consistency rule (no names): the
    role of a save_* helper is the list its pushes target."""
    r = RuleResult("R-SAVE-SIBLINGS",
                   "in every helper that files a pending body (save_flagged_body_to_resolve, save_not_flagged_body_to_resolve[_inner]) the first-insert literal populates exactly the list the and_modify branch pushes to (flag-guarded bodies never become unconditional ones, and vice versa)")
    ITI = "InstrToInject"
    n = 0
    for fn in F.fns:
        if fn.get("body") is None:
            continue
        lits = [x for x in walk(fn["body"]) if x.get("k") == "Struct" and (x.get("adt") or "").endswith(ITI) and "rest" not in x and isinstance(x.get("fields"), list) and x["fields"] and isinstance(x["fields"][0], list) and isinstance(x["fields"][0][1], dict) and "k" in x["fields"][0][1] and x["fields"][0][1].get("k") not in ("Binding", "Wild")]
        if not lits:
            continue
        pushes = set()
        in_and_modify = set()
        for am in walk(fn["body"]):
            if am.get("k") == "MethodCall" and am["method"] == "and_modify":
                for a_ in am.get("args") or []:
                    in_and_modify |= {id(x) for x in walk(a_)}
        uncond_pushes = set()      # pushes on the entry itself (`map.entry(k).or_insert_with(empty).list.push(body)`): run on every call
        for c in walk(fn["body"]):
            lf_ = _push_list_field(c)
            if lf_:
                pushes.add(lf_)
                if id(c) not in in_and_modify and not [x for x in (conditional_ancestors(fn["body"], c) or []) if x.get("k") in ("If", "Match")]:
                    uncond_pushes.add(lf_)
        # helpers called from and_modify closures count too (save_not_flagged…_inner)
        for c in walk(fn["body"]):
            if c.get("k") == "Call" and (c.get("callee") or "") in F.by_path:
                t = F.by_path[c["callee"]][0]
                if t.get("body") and any(x.get("k") == "Struct" and (x.get("adt") or "").endswith(ITI) for x in walk(t["body"])):
                    for cc in walk(t["body"]):
                        lf_ = _push_list_field(cc)
                        if lf_:
                            pushes.add(lf_)
        body_params = {p["pat"].get("hid") for p in fn.get("params", []) if _is_ops_seq(p.get("ty"))}
        if not pushes or not body_params:
            continue
        r.analysed.append(fn["path"])
        for lit in lits:
            n += 1
            fs = dict(lit["fields"])
            populated = {fld for fld in ("flagged", "not_flagged") if fld in fs and any(x.get("k") == "Path" and x.get("res", {}).get("hid") in body_params for x in walk(fs[fld]))}
            if uncond_pushes and uncond_pushes == pushes:
                # get-or-create then push: the created entry must be empty, or the first body is filed twice
                ok = not populated and len(pushes) == 1
            else:
                ok = populated == pushes and len(pushes) == 1
            r.ob(ok, {"fn": fn["name"], "pushes_to": sorted(pushes), "first_insert_populates": sorted(populated)})
            if not ok:
                r.violate("%s | first-insert %s vs push %s" % (fn["path"], "+".join(sorted(populated)) or "none", "+".join(sorted(pushes))), F.loc(fn, lit),
                          "%s pushes later bodies to `%s` but its first-insert literal populates `%s`: the first body filed for a block/mode changes kind (a flag-guarded probe becomes unconditional or the reverse)" % (fn["name"], sorted(pushes), sorted(populated)))
    r.count("first_insert_literals", n)
    # the save_* helpers (functions that take a pending map and a body and push/insert into it)
    helpers = []
    for fn in F.fns:
        if fn.get("body") is None:
            continue
        has_map = any("InstrToInject" in (pm.get("ty") or "") and "HashMap" in (pm.get("ty") or "") for pm in fn.get("params", []))
        has_body = any(_is_ops_seq(pm.get("ty")) for pm in fn.get("params", []))
        files_directly = any((x.get("k") == "Struct" and (x.get("adt") or "").endswith("InstrToInject") and "rest" not in x and any(isinstance(f_, list) and isinstance(f_[1], dict) and f_[1].get("k") not in ("Binding", "Wild") for f_ in x.get("fields", []))) or
                             _push_list_field(x) is not None
                             for x in walk(fn["body"]))
        calls_filer = any(x.get("k") == "Call" and (x.get("callee") or "").endswith("_inner") for x in walk(fn["body"]))
        if has_map and has_body and (files_directly or (calls_filer and not any(("Operator<" in (pm.get("ty") or "") and not _is_ops_seq(pm.get("ty"))) for pm in fn.get("params", [])))):
            helpers.append(fn)
    r.count("save_helpers", len(helpers))
    if len(helpers) < 2:
        raise CheckError("expected the save_* helpers (pending map + body parameters: one for flag-guarded, one for unconditional bodies), found %d" % len(helpers))
    for fn in helpers:
        if fn["path"] not in r.analysed:
            r.analysed.append(fn["path"])
        body_params = {p["pat"].get("hid") for p in fn["params"] if _is_ops_seq(p.get("ty"))}
        # (a) the body is stored on every path: conditional stores are allowed only as the two arms of an entry()
        #     and_modify/or_insert pair (both arms store) — a bare `if let Some(x) = map.get_mut(..) { push }` drops the body
        #     when the entry does not exist yet
        stores = []
        for c in walk(fn["body"]):
            uses_body = any(x.get("k") == "Path" and x.get("res", {}).get("hid") in body_params for x in walk(c.get("args") or []))
            if c.get("k") == "MethodCall" and c["method"] in ("push", "or_insert", "or_insert_with", "insert", "extend") and uses_body:
                stores.append(c)
            if c.get("k") == "Call" and (c.get("callee") or "") in F.by_path and F.by_path[c["callee"]][0] in helpers and uses_body:
                stores.append(c)
        ok = bool(stores)
        why = "never stores the body"
        if ok:
            # an unconditional store: hangs under no If/Match (closures of and_modify are fine when an or_insert store exists in the same chain)
            def uncond(c):
                conds = conditional_ancestors(fn["body"], c) or []
                return not [x for x in conds if x.get("k") in ("If", "Match")]
            plain = [c for c in stores if uncond(c)]
            has_or_insert = any(c["k"] == "MethodCall" and c["method"] in ("or_insert", "or_insert_with") and not [x for x in (conditional_ancestors(fn["body"], c) or []) if x.get("k") in ("If", "Match")] for c in stores)
            if not has_or_insert and not any(not (conditional_ancestors(fn["body"], c) or []) for c in plain):
                ok, why = False, "stores the body only when an entry already exists (no or_insert / unconditional store): the first body filed for a block or mode is dropped"
        r.ob(ok, {"helper": fn["name"], "stores_on_every_path": ok})
        if not ok:
            r.violate("%s | may drop body" % fn["path"], F.loc(fn), "%s %s" % (fn["name"], why))
        # (a') which list: a helper that is given a flag local files flag-guarded bodies, one without files unconditional ones
        has_flag_param = any("LocalID" in (pm.get("ty") or "") for pm in fn.get("params", []))
        lists = {_push_list_field(c) for c in walk(fn["body"])} - {None}
        for c in walk(fn["body"]):
            if c.get("k") == "Call" and (c.get("callee") or "") in F.by_path and F.by_path[c["callee"]][0] is not fn:
                lists |= {_push_list_field(x) for x in walk(F.by_path[c["callee"]][0].get("body") or {})} - {None}
        if lists:
            want_l = {"flagged"} if has_flag_param else {"not_flagged"}
            okl = lists == want_l
            r.ob(okl, {"helper": fn["name"], "given_a_flag": has_flag_param, "pushes_to": sorted(lists)})
            if not okl:
                r.violate("%s | wrong list %s" % (fn["path"], "+".join(sorted(lists))), F.loc(fn), "%s is %sgiven a flag local but files the body under %s" % (fn["name"], "" if has_flag_param else "not ", sorted(lists)))
        # (b) no wholesale insert into a pending map of maps: it replaces what other modes already filed for the block
        for c in walk(fn["body"]):
            if c.get("k") == "MethodCall" and c["method"] == "insert" and "HashMap<u32, std::collections::HashMap" in (c.get("recv_ty") or "").replace("&mut ", ""):
                r.ob(False, {"helper": fn["name"], "outer_insert": True})
                r.violate("%s | outer insert" % fn["path"], F.loc(fn, c), "%s inserts a fresh per-block map with `insert` (not `entry().or_insert`): if the block already has bodies pending in another mode they are discarded" % fn["name"])
    return r


# ---------------------------------------------------------------- R-IF-CHAIN
def if_chain(F):
    """resolve_bodies emits wasm structured control itself (local.get flag; if; body; [else ..]; end).  The emitted
    if/else/end sequence must be well nested for any number of flagged bodies: enumerate the emission paths with the loop
    unrolled 0..3 times and run the sequence through a stack machine (an `else` needs an open `if` that has no `else` yet;
    every `if` is closed; nothing is closed that was not opened)."""
    r = RuleResult("R-IF-CHAIN",
                   "the if/else/end instructions that resolve_bodies injects around flag-guarded bodies are well nested for 0, 1, 2 and 3 bodies (no second `else` on one `if`, every `if` closed)")
    rb = F.one_fn(name="resolve_bodies")
    r.analysed.append(rb["path"])

    # counted loops `for _ in 0..<counter>`: the body block of such a loop is labelled ITER:<counter>, every
    # `<counter> += 1` is labelled INC:<counter>; a path is feasible only if the two counts agree
    counted_bodies = {}
    for m in walk(rb["body"]):
        if m.get("k") == "Match" and m.get("src") == "ForLoopDesugar":
            rng = None
            for x in walk(m["scrut"]):
                if x.get("k") == "Struct" and (x.get("adt") or "").endswith("ops::Range") and x.get("fields"):
                    rng = dict(x["fields"])
            if rng and "end" in rng and peel(rng["end"]).get("k") == "Path" and peel(rng["end"]).get("res", {}).get("r") == "local" and lit_int(peel(rng.get("start") or {}).get("lit")) == 0:
                hid = peel(rng["end"])["res"]["hid"]
                for lp in walk(m["arms"][0]["body"]):
                    if lp.get("k") == "Match" and lp is not m:
                        for arm in lp["arms"]:
                            if arm["pat"].get("variant") == "Some":
                                counted_bodies[id(arm["body"])] = hid
                        break

    def clf(n):
        if n.get("k") == "MethodCall" and n["method"] in ("if_stmt", "else_stmt", "end", "block", "loop_stmt"):
            return n["method"]
        if n.get("k") == "AssignOp" and n.get("op", "").startswith("+") and lit_int(peel(n["rhs"]).get("lit")) == 1 and peel(n["lhs"]).get("res", {}).get("r") == "local":
            return "INC:%s" % peel(n["lhs"])["res"]["hid"]
        if id(n) in counted_bodies:
            return "ITER:%s" % counted_bodies[id(n)]
        return None

    # the `is_first` idiom makes most syntactic paths infeasible: interpret it (first iteration takes the is_first branch,
    # later ones the other) by labelling the branch and filtering
    first_hids = {st["pat"]["hid"] for st in walk(rb["body"]) if st.get("k") == "Let" and st["pat"].get("k") == "Binding" and st["pat"].get("ty") == "bool" and peel(st.get("init") or {}).get("lit") == "Bool(true)"}

    # the same protocol written with enumerate(): `pos == 0` / `pos != 0` / `pos > 0`, directly or through a bool local
    idx_hids = set()
    for m_ in walk(rb["body"]):
        if m_.get("k") == "Match" and m_.get("src") == "ForLoopDesugar" and any(x.get("k") == "MethodCall" and x["method"] == "enumerate" for x in walk(m_["scrut"])):
            for lp in walk(m_["arms"][0]["body"]):
                if lp.get("k") == "Match" and lp is not m_:
                    for arm in lp["arms"]:
                        if arm["pat"].get("variant") == "Some":
                            inner = arm["pat"]["pats"][0] if arm["pat"].get("pats") else (arm["pat"]["fields"][0][1] if arm["pat"].get("fields") else {})
                            if inner.get("k") == "Tuple" and inner["pats"] and inner["pats"][0].get("k") == "Binding":
                                idx_hids.add(inner["pats"][0]["hid"])
                    break

    def first_test(c):
        """+1 if c is true exactly on the first iteration, -1 if true exactly on later ones, 0 if unrelated"""
        c = peel(c)
        if c.get("k") == "Unary" and c.get("op") == "!":
            return -first_test(c["a"])
        if c.get("k") == "Path" and c.get("res", {}).get("hid") in first_hids:
            return 1
        if c.get("k") == "Path" and c.get("res", {}).get("hid") in derived:
            return derived[c["res"]["hid"]]
        if c.get("k") == "Binary" and c.get("op") in ("==", "!=", ">"):
            a_, b_ = peel(c["a"]), peel(c["b"])
            if a_.get("k") == "Path" and a_.get("res", {}).get("hid") in idx_hids and lit_int(b_.get("lit")) == 0:
                return 1 if c["op"] == "==" else -1
        return 0

    derived = {}
    for st in walk(rb["body"]):
        if st.get("k") == "Let" and st["pat"].get("k") == "Binding" and st["pat"].get("ty") == "bool" and "init" in st:
            t_ = first_test(st["init"])
            if t_:
                derived[st["pat"]["hid"]] = t_

    def branch_label(node):
        t_ = first_test(node["cond"])
        if t_ == 1:
            return ("FIRST", "NOTFIRST")
        if t_ == -1:
            return ("NOTFIRST", "FIRST")
        c = peel(node["cond"])
        neg = False
        if c.get("k") == "Unary" and c.get("op") == "!":
            neg, c = True, peel(c["a"])
        if c.get("k") == "Path" and c.get("res", {}).get("hid") in first_hids:
            return ("NOTFIRST", "FIRST") if neg else ("FIRST", "NOTFIRST")
        if c.get("k") == "Unary" or c.get("k") == "MethodCall":
            # `!flagged.is_empty()` – label so that it can be tied to the number of iterations
            if any(x.get("k") == "MethodCall" and x["method"] == "is_empty" for x in walk(node["cond"])):
                return ("NONEMPTY", "EMPTY")
        return None

    # number of is_first tests evaluated per loop iteration (each contributes one mark)
    tests_per_iter = 0
    for m in walk(rb["body"]):
        if m.get("k") == "Match" and m.get("src") == "ForLoopDesugar":
            cnt = 0
            for n in walk(m):
                if n.get("k") == "If" and first_test(n["cond"]) != 0:
                        cnt += 1
            tests_per_iter = max(tests_per_iter, cnt)
    n_paths = 0
    worst = None
    for ev, st in normal_paths(paths(rb["body"], clf, unroll=3, branch_label=branch_label)):
        # feasibility of the is_first protocol: per iteration the labels must be FIRST on the first and NOTFIRST afterwards
        marks = [e for e in ev if e in ("FIRST", "NOTFIRST")]
        its = []
        # group marks per iteration: every iteration contributes the same number of marks (≥1)
        if marks:
            k = tests_per_iter
            if k and len(marks) % k == 0:
                its = [marks[i:i + k] for i in range(0, len(marks), k)]
            else:
                continue
            if not all(x == "FIRST" for x in its[0]) or any(x == "FIRST" for it in its[1:] for x in it):
                continue
        n_iter = len(its)
        if ("NONEMPTY" in ev and n_iter == 0) or ("EMPTY" in ev and n_iter > 0):
            continue
        counters = {e.split(":")[1] for e in ev if e.startswith(("INC:", "ITER:"))}
        if any(ev.count("INC:" + c) != ev.count("ITER:" + c) for c in counters if any(v == c or str(v) == c for v in map(str, counted_bodies.values()))):
            continue
        n_paths += 1
        stack = []
        bad = None
        for e in ev:
            if e in ("if_stmt", "block", "loop_stmt"):
                stack.append([e, False])
            elif e == "else_stmt":
                if not stack or stack[-1][0] != "if_stmt" or stack[-1][1]:
                    bad = "an `else` is emitted where no `if` without an `else` is open"
                    break
                stack[-1][1] = True
            elif e == "end":
                if not stack:
                    bad = "an `end` closes nothing"
                    break
                stack.pop()
        if bad is None and stack:
            bad = "%d `if` left open" % len(stack)
        if bad and worst is None:
            worst = (n_iter, bad, [e for e in ev if e in ("if_stmt", "else_stmt", "end")])
    ok = worst is None
    r.ob(ok, {"emission_paths_checked": n_paths, "well_nested": ok})
    r.count("emission_paths", n_paths)
    if n_paths < 3:
        raise CheckError("resolve_bodies: fewer than 3 feasible emission paths enumerated (%d)" % n_paths)
    if not ok:
        r.violate("%s | ill-nested for %d flagged bodies" % (rb["path"], worst[0]), F.loc(rb),
                  "with %d flag-guarded bodies for one block end resolve_bodies emits %s: %s — the instrumented function does not validate" % (worst[0], " ".join(worst[2]), worst[1]))
    return r


def export_kind_tests(F):
    """R-EXPORT-KIND: an export's `index` is an index into the space its `kind` names.  Wherever ModuleExports relates an
    export to a function id — comparing `exp.index` with a FunctionID, or wrapping `exp.index` as a FunctionID — the same
    predicate / branch also establishes `exp.kind` is Func (an export of memory 0 is not "the export of function 0")."""
    from vlib.facts import guard_conditions, path_to
    r = RuleResult("R-EXPORT-KIND",
                   "in ModuleExports every comparison of an export's index with a function id, and every FunctionID built from an export's index, sits under a test that the export's kind is Func")
    n = 0
    for fn in F.fns:
        if fn.get("body") is None or not (fn.get("self_adt") or "").endswith("ModuleExports"):
            continue
        for x in walk(fn["body"]):
            site = None
            if x.get("k") == "Binary" and x.get("op") in ("==", "!="):
                sides = [x["a"], x["b"]]
                for i_ in (0, 1):
                    a_ = peel(sides[i_])
                    if a_.get("k") == "Field" and a_["name"] == "index" and "Export" in (a_.get("base_ty") or "") \
                            and any("FunctionID" in (y.get("ty") or "") for y in walk(sides[1 - i_])):
                        site = (x, a_)
            if x.get("k") == "Call" and (x.get("fres") or {}).get("adt", "").endswith("FunctionID") and x.get("args"):
                a_ = peel(x["args"][0])
                if a_.get("k") == "Field" and a_["name"] == "index" and "Export" in (a_.get("base_ty") or ""):
                    site = (x, a_)
            if site is None:
                continue
            n += 1
            node, fld = site
            exp_pp = place_path(fld["base"]) or ""

            def is_kind_func(c):
                for y in walk(c):
                    if y.get("k") == "Field" and y["name"] == "kind" and (place_path(y["base"]) or "") == exp_pp:
                        return any(z.get("k") in ("Path", "Struct", "TupleStruct") and ((z.get("res") or {}).get("variant") == "Func" or z.get("variant") == "Func") for z in walk(c))
                return False
            ok = False
            # same conjunction
            for anc, _role in reversed(path_to(fn["body"], node) or []):
                if isinstance(anc, dict) and anc.get("k") == "Binary" and anc.get("op") == "&&" and is_kind_func(anc):
                    ok = True
            for pol, cd in guard_conditions(fn["body"], node):
                if pol is True and is_kind_func(cd):
                    ok = True
                if pol == "pat" and any((y.get("variant") == "Func") for y in walk(cd[0])) and "kind" in (place_path(cd[1]) or ""):
                    ok = True
            if not ok:
                # iterator chains: `.find(|e| matches!(e.kind, Func) && ..).map(|e| FunctionID(e.index))` — the element reaching
                # the closure the site is in has passed an earlier adapter that tests its kind
                for anc, _role in (path_to(fn["body"], node) or []):
                    if isinstance(anc, dict) and anc.get("k") == "MethodCall" and any(peel(a2).get("k") == "Closure" and any(y is node for y in walk(a2)) for a2 in anc.get("args", [])):
                        rc = anc["recv"]
                        while isinstance(rc, dict) and peel(rc).get("k") == "MethodCall":
                            rc = peel(rc)
                            if rc["method"] in ("find", "filter", "position", "take_while", "skip_while", "find_map", "filter_map") and rc.get("args") and peel(rc["args"][0]).get("k") == "Closure":
                                cb = peel(rc["args"][0])["body"]
                                if any(y.get("k") == "Field" and y["name"] == "kind" for y in walk(cb)) and \
                                        any(((z.get("res") or {}).get("variant") == "Func" or z.get("variant") == "Func") for z in walk(cb)) and \
                                        not any(z.get("k") == "Binary" and z.get("op") == "||" for z in walk(cb)):
                                    ok = True
                            rc = rc["recv"]
            r.ob(ok, {"fn": fn["path"], "relates export index to a function id under kind == Func": ok})
            if fn["path"] not in r.analysed:
                r.analysed.append(fn["path"])
            if not ok:
                r.violate("%s | index without kind" % fn["path"], F.loc(fn, node),
                          "%s relates an export's index to a function id without establishing that the export is a function export: an export of memory/global/table N is taken for the export of function N" % fn["name"])
    r.count("index_function_relations", n)
    return r
