"""R-OPCODE-TABLE: each Opcode/MacroOpcode helper injects exactly the operator its
name denotes, with every immediate flowing from one parameter bit-for-bit."""
import json
import os

from vlib.absint import Interp, show, fields_of
from vlib.facts import CheckError
from vlib.report import RuleResult, VERIF

OP = "wasmparser::Operator"

# conversions on the way from a helper parameter to the operator immediate that preserve every bit
# (reviewed; the two local From impls are themselves decided by R-TYPE-TABLE(aux))
WHITELIST_APPS = {
    "<wasmparser::Ieee32 as std::convert::From<f32>>::from",   # f32::to_bits
    "<wasmparser::Ieee64 as std::convert::From<f64>>::from",   # f64::to_bits
    "ir::types::<impl std::convert::From<ir::types::BlockType> for wasmparser::BlockType>::from",
    "ir::module::module_types::<impl std::convert::From<ir::module::module_types::HeapType> for wasmparser::HeapType>::from",
}
WHITELIST_CASTS = {("u32", "i32"), ("u64", "i64")}   # same-width two's-complement reinterpretation


def camel(n):
    return "".join(p.capitalize() for p in n.split("_"))


def norm(n):
    return n.replace("dest", "dst")


def leaf_of(t, param_types):
    """strip whitelisted conversions; return (param_name or None, chain, bad)"""
    chain = []
    while isinstance(t, tuple):
        if t[0] == "deref":            # *id on an ID newtype (overloaded Deref → .0)
            chain.append("*")
            t = t[1]
        elif t[0] == "app" and len(t[2]) == 1 and t[1] in WHITELIST_APPS:
            chain.append(t[1].split("::")[-2] + "::from" if "::" in t[1] else t[1])
            t = t[2][0]
        elif t[0] == "cast":
            inner = t[2]
            src = param_types.get(inner[1]) if isinstance(inner, tuple) and inner[0] == "s" else None
            if (src, t[1]) in WHITELIST_CASTS:
                chain.append("as " + t[1])
                t = inner
            else:
                return None, chain, "cast %s→%s is not bit-preserving" % (src, t[1])
        elif t[0] == "s":
            return t[1], chain, None
        else:
            return None, chain, "immediate computed as %s" % show(t)
    return None, chain, "immediate computed as %r" % (t,)


def opcode_table(F):
    r = RuleResult("R-OPCODE-TABLE",
                   "every Opcode/MacroOpcode default method constructs exactly one wasmparser::Operator, passes it to Inject::inject exactly once on self and returns self; the variant equals the reviewed table entry for that helper name; every immediate comes from exactly one parameter through bit-preserving conversions; multi-immediate helpers keep field/parameter names aligned")
    table = json.load(open(os.path.join(VERIF, "tables", "opcode_table.json")))["helpers"]
    sigs = json.load(open(os.path.join(VERIF, "tables", "opcode_table.json"))).get("signatures", {})
    opv = F.variants(OP)
    fns = [f for f in F.fns if (f.get("in_trait") or "").endswith(("opcode::Opcode", "opcode::MacroOpcode")) and f.get("body")]
    r.count("helpers", len(fns))
    seen = set()
    for f in fns:
        name = f["name"]
        seen.add(name)
        r.analysed.append(f["path"])
        I = Interp(F, opaque=("from",))
        ps = [(p["pat"].get("name"), p["ty"]) for p in f["params"]]
        if name in sigs:
            cur = [n for n, _ in ps if n != "self"]
            same_names = sorted(cur) == sorted(sigs[name])
            ok_sig = cur == sigs[name] or not same_names
            r.ob(ok_sig, {"helper": name, "parameter_order": cur})
            if not ok_sig:
                r.violate("%s | parameter order" % f["path"], F.loc(f), "helper `%s` takes its immediates in the order %s; callers were written against %s — the call still compiles (same types) and the operands arrive crossed" % (name, cur, sigs[name]))
        ptypes = {n: t for n, t in ps}
        ret = I.call_fn(f, [("s", n) for n, _ in ps])
        inj = [e for e in I.effects if e[1].endswith("Inject::inject") or e[1].endswith("::inject")]
        ok = len(inj) == 1 and inj[0][2][0] == ("s", "self") and ret == ("s", "self")
        r.ob(ok, {"helper": name, "injects": [show(e[2][1]) for e in inj], "returns": show(ret)})
        if not ok:
            r.violate("%s | shape" % f["path"], F.loc(f),
                      "helper `%s` does not inject exactly one operator on self and return self (injects %d, returns %s)" % (name, len(inj), show(ret)))
            continue
        op = inj[0][2][1]
        if op[0] != "v" or op[1] != OP:
            r.ob(False)
            r.violate("%s | operand" % f["path"], F.loc(f), "helper `%s` injects a computed operator: %s" % (name, show(op)))
            continue
        want = table.get(name)
        if want is None:
            if camel(name) == op[2]:
                r.ob(True)
            else:
                r.ob(True)
                r.info.append("UNDECIDED new helper `%s` → %s: not in tables/opcode_table.json and not the camel-case of its name" % (name, op[2]))
        else:
            ok = op[2] == want
            r.ob(ok, {"helper": name, "expected": want, "emits": op[2]})
            if not ok:
                r.violate("%s | variant" % f["path"], F.loc(f), "helper `%s` injects %s; its name denotes %s" % (name, op[2], want))
                continue
        # immediates
        fs = fields_of(op)
        fdefs = [x["name"] for x in opv[op[2]]["fields"]]
        used = []
        for fname in fdefs:
            if fname not in fs:
                r.ob(False)
                r.violate("%s | %s missing" % (f["path"], fname), F.loc(f), "immediate %s of %s is not set" % (fname, op[2]))
                continue
            pn, chain, bad = leaf_of(fs[fname], ptypes)
            ok = bad is None and pn is not None and pn != "self"
            if ok and len(fdefs) > 1 and norm(pn) != norm(fname):
                ok = False
                bad = "parameter `%s` flows to immediate `%s` (names do not correspond: possible swap)" % (pn, fname)
            r.ob(ok, {"helper": name, "immediate": fname, "from_param": pn, "through": chain})
            if not ok:
                r.violate("%s | %s" % (f["path"], fname), F.loc(f), "helper `%s`: immediate %s: %s" % (name, fname, bad or "does not come from a parameter"))
            used.append(pn)
        params = [n for n, _ in ps if n != "self"]
        for p in params:
            ok = used.count(p) == 1
            r.ob(ok)
            if not ok:
                r.violate("%s | param %s" % (f["path"], p), F.loc(f), "helper `%s`: parameter `%s` is used %d times in the injected operator (expected once)" % (name, p, used.count(p)))
    # the table's helpers must all still exist (a removed helper is fine for the property, but a renamed one must be re-reviewed)
    missing = sorted(set(table) - seen)
    for m in missing:
        r.info.append("table entry `%s` has no helper any more" % m)
    return r
