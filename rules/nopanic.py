"""R-NOPANIC: enumerate every panic edge in the MIR of the functions reachable
from given roots; discharge by guard idioms or reviewed table; report the rest."""
import json
import os
import re

from vlib import mirutil
from vlib.facts import CheckError, REPO, pat_variants, walk, peel
from vlib.report import RuleResult, VERIF

PANICKY = re.compile(
    r"(Option::<T>::unwrap$|Option::<T>::expect$|Result::<T, E>::unwrap$|Result::<T, E>::expect$|"
    r"Result::<T, E>::unwrap_err$|Result::<T, E>::expect_err$|"
    r"::index$|::index_mut$|Vec::<T, A>::remove$|Vec::<T, A>::insert$|Vec::<T, A>::swap_remove$|"
    r"Vec::<T, A>::drain$|Vec::<T, A>::split_off$|slice::<impl \[T\]>::split_at$|"
    r"RefCell::<T>::borrow_mut$|RefCell::<T>::borrow$|HashMap.*::index$|"
    r"copy_from_slice$|VecDeque::<T, A>::remove$|::unwrap_unchecked$)"
)

ARITH = re.compile(r"^<[ui](8|16|32|64|128|size) as std::ops::(Add|Sub|Mul|AddAssign|SubAssign|MulAssign|Shl|Shr|ShlAssign|ShrAssign|Neg)(<.*>)?>::")

_src_cache = {}


def overflow_discharge(F, fn, site):
    """Guard idioms for debug-build arithmetic checks. Returns a reason string or None."""
    t = site["term"]
    kind = site["kind"]
    ops = site.get("ops") or t.get("ops") or []
    vals = [const_val(o, fn["mir"]) for o in ops]
    if "Shl" in kind or "Shr" in kind:
        if len(vals) == 2 and vals[1] is not None and vals[1] < 8:
            return "constant shift < 8 bits"
        # width from the lhs local type
        lhs = mirutil.operand_place(ops[0]) if ops else None
        width = None
        if lhs is not None and not lhs["p"]:
            ty = fn["mir"]["locals"][lhs["l"]]
            m = re.match(r"^[ui](8|16|32|64|128)$", ty)
            if m:
                width = int(m.group(1))
        if len(vals) == 2 and vals[1] is not None and width and vals[1] < width:
            return "constant shift %d < %d-bit operand" % (vals[1], width)
        return None
    if ("Add" in kind or "Sub" in kind) and len(vals) == 2 and vals[1] == 1 and "Sub" not in kind:
        return "counter += 1: bounded by the number of items actually parsed from the input"
    # guarded subtraction / addition: an enclosing condition orders the operands (HIR)
    body, _owner = _hir_body(F, fn)
    if body is None:
        return None
    sp = site["sp"]
    target = None
    for n in walk(body):
        if n.get("k") in ("Binary", "AssignOp") and n.get("sp") == sp:
            target = n
    if target is None or target.get("k") != "Binary" or target["op"] != "-":
        return None
    from vlib.facts import place_path, peel
    a = place_path(target["a"]) or snippet(os.environ.get("ORCA_ANALYSED_REPO", REPO), fn["file"], target["a"]["sp"])
    b = peel(target["b"])
    bp = place_path(b) if b.get("k") != "Lit" else b.get("lit")
    found = []

    def rec(node, conds):
        if isinstance(node, list):
            for v in node:
                rec(v, conds)
            return
        if not isinstance(node, dict):
            return
        if node is target:
            found.append(list(conds))
            return
        if node.get("k") == "If":
            rec(node["cond"], conds)
            rec(node["then"], conds + [(node["cond"], True)])
            if "else" in node:
                rec(node["else"], conds + [(node["cond"], False)])
            return
        if node.get("k") == "Binary" and node.get("op") == "&&":
            rec(node["a"], conds)
            rec(node["b"], conds + [(node["a"], True)])
            return
        for v in node.values():
            if isinstance(v, (dict, list)):
                rec(v, conds)

    rec(body, [])
    if not found:
        return None
    conds = []
    for c, pol in found[0]:
        st = [peel(c)]
        while st:
            x = peel(st.pop())
            if pol and x.get("k") == "Binary" and x.get("op") == "&&":
                st += [x["a"], x["b"]]
            else:
                conds.append((x, pol))
    for c, pol in conds:
        if c.get("k") != "Binary":
            continue
        ca, cb = place_path(c["a"]), peel(c["b"])
        cbp = place_path(cb) if cb.get("k") != "Lit" else cb.get("lit")
        # a - b is safe when a >= b:  (a < b) false | (a >= b) true | (a > b) true ; a - 1 safe when a > 0 true
        if ca == a and cbp == bp and ((c["op"] == "<" and not pol) or (c["op"] in (">=", ">") and pol)):
            return "subtraction guarded by the enclosing comparison `%s %s %s`" % (a, c["op"], bp)
        from vlib.facts import lit_int
        if ca == a and cb.get("k") == "Lit" and lit_int(cb["lit"]) == 0 and c["op"] == ">" and pol and b.get("k") == "Lit" and lit_int(b["lit"]) == 1:
            return "`%s - 1` under `%s > 0`" % (a, a)
    return None


def snippet(repo, file, sp):
    """whitespace-free source text of a span (used only as a stable instance descriptor)"""
    p = os.path.join(repo, file)
    if p not in _src_cache:
        try:
            _src_cache[p] = open(p, encoding="utf-8", errors="replace").read().split("\n")
        except OSError:
            _src_cache[p] = None
    lines = _src_cache[p]
    if not lines:
        return "?"
    l1, c1, l2, c2 = sp
    if l1 < 1 or l2 > len(lines):
        return "?"
    # an index span starts at `[`: include the indexed place to its left (descriptor only)
    if c1 >= 2 and lines[l1 - 1][c1 - 1:c1] == "[":
        k = c1 - 1
        while k > 0 and re.match(r"[A-Za-z0-9_.]", lines[l1 - 1][k - 1]):
            k -= 1
        c1 = k + 1
    if l1 == l2:
        txt = lines[l1 - 1][c1 - 1:c2 - 1]
    else:
        txt = lines[l1 - 1][c1 - 1:] + "".join(lines[l1:l2 - 1]) + lines[l2 - 1][:c2 - 1]
    txt = re.sub(r"\s+", "", txt)
    return txt[:90]


def payload_exhaustive(F, r):
    """every wasmparser::Payload variant has an explicit arm in parse_internal / parse_comp;
    returns {fn_path: bool}"""
    out = {}
    pv = set(F.variants("wasmparser::Payload"))
    for fname, adt in (("parse_internal", "Module"), ("parse_comp", "Component")):
        fn = F.one_fn(name=fname, self_adt=adt)
        best = None
        for m in walk(fn["body"]):
            if m.get("k") == "Match" and m.get("scrut_ty", "").replace("&", "").split("<")[0] == "wasmparser::Payload":
                covered = set()
                for arm in m["arms"]:
                    vs, wild = pat_variants(arm["pat"])
                    covered |= {v for a, v in vs if a == "wasmparser::Payload"}
                best = covered if best is None else best | covered
        if best is None:
            raise CheckError("%s: no match on wasmparser::Payload" % fn["path"])
        missing = pv - best
        out[fn["path"]] = not missing
        if fname != "parse_internal":
            continue  # the component parser's catch-all is a no-op arm, not a todo!()
        r.ob(not missing, {"fn": fn["path"], "payload_variants": len(pv), "explicit": len(best & pv)})
        if missing:
            r.violate("%s | payload %s" % (fn["path"], "+".join(sorted(missing))), F.loc(fn),
                      "Payload variant(s) %s have no explicit arm: they reach the catch-all" % sorted(missing))
    return out


def payload_exh_rule(F):
    r = RuleResult("R-PAYLOAD-EXH", "every wasmparser::Payload variant of the build has an explicit arm in Module::parse_internal (the `_ => todo!()` catch-all is dead)")
    r.analysed.append("ir::module::Module::parse_internal")
    payload_exhaustive(F, r)
    r.count("payload_variants", len(F.variants("wasmparser::Payload")))
    return r


def sites_of(F, fn, repo):
    mir = fn.get("mir")
    if not mir:
        return
    for i, b in enumerate(mir["blocks"]):
        if b["cleanup"]:
            continue
        t = b["term"]
        sp = t.get("csp") or t["sp"]
        macro = (t.get("exp") or [None])[0]
        if t["k"] == "Assert":
            yield {"kind": "assert:" + t["msg"], "sp": sp, "block": i, "term": t, "macro": macro}
        elif t["k"] == "Call":
            c = mirutil.callee_name(t)
            if t.get("t") is None:
                yield {"kind": "diverge:" + (macro or c.split("::")[-1]), "sp": sp, "block": i, "term": t, "macro": macro, "callee": c}
            elif PANICKY.search(c):
                yield {"kind": "call:" + "::".join(c.replace("<T, A>", "").replace("<T, E>", "").replace("<T>", "").split("::")[-2:]),
                       "sp": sp, "block": i, "term": t, "macro": macro, "callee": c}
            elif ARITH.search(c):
                # integer arithmetic through the std operator traits (e.g. `x += &y`): overflow-checked in debug builds
                yield {"kind": "assert:Overflow(call %s)" % c.split("::")[-1], "sp": sp, "block": i, "term": t, "macro": macro, "callee": c,
                       "ops": t["args"]}


def const_val(o, mir=None):
    c = o.get("const") if isinstance(o, dict) else None
    if c and "val" in c:
        try:
            return int(c["val"])
        except ValueError:
            return None
    # a temp assigned exactly once from a constant
    p = mirutil.operand_place(o) if isinstance(o, dict) else None
    if p is not None and not p["p"] and mir is not None:
        defs = []
        for b in mir["blocks"]:
            for st in b["stmts"]:
                if st["k"] == "Assign" and st["place"]["l"] == p["l"] and not st["place"]["p"]:
                    defs.append(st["rv"])
            t = b["term"]
            if t["k"] == "Call" and t["dest"]["l"] == p["l"]:
                defs.append(None)
        if len(defs) == 1 and defs[0] and defs[0]["k"] == "Use":
            return const_val(defs[0]["op"])
    return None


# ---------------------------------------------------------------- semantic discharges (independent of names and of where the code lives)
_INTS = ("u32", "usize", "u64", "u16", "u8", "i32", "i64")


def _nogen(path):
    prev = None
    while prev != path:
        prev = path
        path = re.sub(r"::<[^<>]*>|<[^<>]*>", "", path)
    return path


def _field_writes_size_like(F, owner, other):
    """`other` is a field place (x.f): every write of field f of that type anywhere in the crate is `= literal` or
    `+=/-= size-like`.  → (ok, number of writes)"""
    from vlib.facts import peel
    o = _strip_val(other)
    if not (isinstance(o, dict) and o.get("k") == "Field" and o.get("base_ty")):
        return False, 0
    bty = _nogen(o["base_ty"].lstrip("&").replace("mut ", ""))
    nw = 0
    for g in F.fns:
        if g.get("body") is None:
            continue
        for x in walk(g["body"]):
            if x.get("k") in ("Assign", "AssignOp"):
                l = _strip_val(x["lhs"])
                if isinstance(l, dict) and l.get("k") == "Field" and l["name"] == o["name"] and _nogen((l.get("base_ty") or "").lstrip("&").replace("mut ", "")) == bty:
                    nw += 1
                    if not size_like(F, g, x["rhs"]):
                        return False, nw
    # writes through a mutable borrow of the field (`&mut self.f` bound to a `counter` reference, or handed out by a small
    # accessor such as `counters_mut() -> (&mut u32, &mut u32)`): every `*r = ..` / `*r += ..` through a `&mut` integer local in
    # the borrowing function and in the callers of that function must be size-like as well
    borrowers = []
    for g in getattr(F, "all_fns", F.fns):
        if g.get("body") is None:
            continue
        for x in walk(g["body"]):
            if x.get("k") == "AddrOf" and x.get("mut"):
                l = _strip_val(x["a"])
                if isinstance(l, dict) and l.get("k") == "Field" and l["name"] == o["name"] and _nogen((l.get("base_ty") or "").lstrip("&").replace("mut ", "")) == bty:
                    borrowers.append(g)
                    break
    if borrowers:
        bpaths = {g["path"] for g in borrowers}
        affected = list(borrowers)
        for g in getattr(F, "all_fns", F.fns):
            if g.get("body") is None or g in affected:
                continue
            if any(c.get("k") in ("Call", "MethodCall") and (c.get("inst") or c.get("callee") or "") in bpaths for c in walk(g["body"])):
                affected.append(g)
        for g in affected:
            for x in walk(g["body"]):
                if x.get("k") in ("Assign", "AssignOp"):
                    l = x["lhs"]
                    if isinstance(l, dict) and l.get("k") == "Unary" and l.get("op") == "*" and peel(l["a"]).get("k") == "Path" and peel(l["a"]).get("res", {}).get("r") == "local":
                        nw += 1
                        if not size_like(F, g, x["rhs"]):
                            return False, nw
    return True, nw


_CTX = [0]      # which inline site of a new helper the discharges currently look at (see _all_contexts)


def _all_contexts(F, fn, f):
    """evaluate discharge `f` in every context the function's code runs in: once for an ordinary function, once per call
    site for a helper that was extracted from recorded functions; every context must discharge (the first reason is kept)"""
    if fn.get("kind") == "Closure" and fn.get("body") is None:
        fn = F.by_path.get(fn.get("parent") or "", [fn])[0]
    n = len(getattr(F, "inline_sites", {}).get(fn["path"], [])) if fn.get("is_new_helper") else 0
    if n == 0:
        _CTX[0] = 0
        return f()
    # a proof inside the helper's own body holds in every context; only otherwise look at the contexts it is inlined into
    try:
        _CTX[0] = -1
        w = f()
    finally:
        _CTX[0] = 0
    if w:
        return w
    why = None
    try:
        for i in range(n):
            _CTX[0] = i
            w = f()
            if not w:
                return None
            why = why or w
    finally:
        _CTX[0] = 0
    return "%s (in each of %d call contexts)" % (why, n)


def _hir_body(F, fn):
    # a helper extracted from a recorded function is judged where it was inlined (vlib/canon.py): guards that the caller
    # establishes before the call count; with several call sites the first is used and the others must agree (see _contexts)
    if fn.get("body") is None and fn.get("kind") == "Closure":
        # closure: its HIR lives inside the parent body
        parent = F.by_path.get(fn.get("parent") or "", [None])[0]
        if parent is None:
            return None, None
        fn = parent
    if fn.get("is_new_helper") and _CTX[0] >= 0 and getattr(F, "inline_sites", {}).get(fn["path"]):
        sites_ = F.inline_sites[fn["path"]]
        rf, _inl = sites_[min(_CTX[0], len(sites_) - 1)]
        return rf["body"], rf
    return fn.get("body"), fn


def _strip_val(e):
    from vlib.facts import peel
    while True:
        e = peel(e)
        if not isinstance(e, dict):
            return e
        if e.get("k") == "Cast":
            e = e["a"]
            continue
        if e.get("k") == "MethodCall" and e["method"] in ("clone", "into", "try_into", "unwrap", "to_owned", "copied", "cloned") and not e.get("args"):
            e = e["recv"]
            continue
        return e


def _feeds(e, lets):
    """Expressions an expression is computed from, following receivers, `?`, immutable lets (upstream data-flow chain)."""
    from vlib.facts import peel
    seen = 0
    while isinstance(e, dict) and seen < 40:
        seen += 1
        yield e
        e = peel(e)
        k = e.get("k")
        if k == "MethodCall":
            e = e["recv"]
        elif k == "Match" and (e.get("src") or "").startswith("TryDesugar"):
            e = e["scrut"]
        elif k == "Call" and e.get("args") and (e.get("callee") or "").startswith(("std::ops::Try", "std::iter::IntoIterator", "core::")):
            e = e["args"][0]
        elif k == "Path" and e.get("res", {}).get("hid") in lets and "init" in lets[e["res"]["hid"]]:
            e = lets[e["res"]["hid"]]["init"]
        elif k in ("Cast", "Field"):
            e = e.get("a") or e.get("base")
        else:
            return


def size_like(F, owner, e, depth=0):
    """Why `e` is a *size-like* quantity: it counts items that are held in memory (a length, an enumerate index, a small
    literal) or is a local-declaration count that wasmparser's LocalsReader has already summed with checked arithmetic.
    Sums of such quantities cannot overflow before the input itself exceeds the address space.  → reason or None."""
    from vlib.facts import lit_int, binding_site
    body = owner["body"]
    lets = {st["pat"]["hid"]: st for st in walk(body) if st.get("k") == "Let" and st["pat"].get("k") == "Binding"}
    e = _strip_val(e)
    if not isinstance(e, dict):
        return None
    k = e.get("k")
    if k == "Lit":
        v = lit_int(e.get("lit"))
        return "literal %s" % v if v is not None and 0 <= v < 1 << 16 else None
    if k == "MethodCall" and e["method"] in ("len", "count") and (e.get("callee") or "").startswith(("std::", "core::", "alloc::")) \
            and not (e.get("recv_ty") or "").replace("&mut ", "").replace("&", "").lstrip().startswith("wasmparser::"):
        return "length of an in-memory collection"
    if k == "Path" and e.get("res", {}).get("r") == "local":
        hid = e["res"]["hid"]
        if hid in lets and "init" in lets[hid] and "Mut" not in (lets[hid]["pat"].get("mode") or ""):
            return size_like(F, owner, lets[hid]["init"], depth)
        # `let (count, ty) = item;` — a component of a destructured value: judged by where the whole value comes from
        for st_ in walk(body):
            if st_.get("k") == "Let" and st_["pat"].get("k") in ("Tuple", "Struct", "TupleStruct") and isinstance(st_.get("init"), dict) \
                    and any(b.get("k") == "Binding" and b.get("hid") == hid for b in walk(st_["pat"])) and depth < 3:
                i_ = peel(st_["init"])
                if i_.get("k") == "Path" and i_.get("res", {}).get("r") == "local":
                    return size_like(F, owner, st_["init"], depth + 1)
        # closure / for-loop pattern bindings: where do the elements come from?
        for n in walk(body):
            src = None
            if n.get("k") == "MethodCall" and n.get("args"):
                for a_ in n["args"]:
                    if a_.get("k") == "Closure" and any(b.get("k") == "Binding" and b.get("hid") == hid for p_ in a_["params"] for b in walk(p_)):
                        src = (n["recv"], a_["params"])
            if n.get("k") == "Match" and n.get("src") == "ForLoopDesugar":
                inner = [m for m in walk(n["arms"][0]["body"]) if m.get("k") == "Match" and m is not n]
                if inner and any(b.get("k") == "Binding" and b.get("hid") == hid for arm in inner[0]["arms"] for b in walk(arm["pat"])):
                    sc = n["scrut"]
                    src = (sc["args"][0] if sc.get("k") == "Call" and sc.get("args") else sc, [arm["pat"] for arm in inner[0]["arms"]])
            if src is None:
                continue
            chain, pats = src
            for x in _feeds(chain, lets):
                ty = (x.get("ty") or "") + (x.get("recv_ty") or "")
                if "wasmparser::LocalsReader" in ty or "wasmparser::LocalsIterator" in ty:
                    return "declaration count from wasmparser's LocalsReader (which keeps a checked running total and rejects the body first)"
                if x.get("k") == "MethodCall" and x["method"] == "enumerate":
                    # the index is the first component of the (index, item) pair
                    for p_ in pats:
                        for t_ in walk(p_):
                            if t_.get("k") == "Tuple" and t_["pats"] and any(b.get("hid") == hid for b in walk(t_["pats"][0])):
                                return "enumerate() index over an in-memory collection"
            return None
        # a parameter: every call site must pass a size-like value
        if depth < 2:
            for i, pm in enumerate(owner.get("params", [])):
                if any(b.get("k") == "Binding" and b.get("hid") == hid for b in walk(pm["pat"])):
                    sites = []
                    for g in F.fns:
                        if g.get("body") is None:
                            continue
                        for c in walk(g["body"]):
                            if c.get("k") in ("Call", "MethodCall") and _nogen(c.get("callee") or "") == _nogen(owner["path"]):
                                args = c.get("args", [])
                                j = i - 1 if c["k"] == "MethodCall" else i
                                if 0 <= j < len(args):
                                    sites.append((g, args[j]))
                    if not sites:
                        return None
                    why = []
                    for g, a_ in sites:
                        w = size_like(F, g, a_, depth + 1)
                        if w is None:
                            return None
                        why.append(w)
                    return "parameter; every one of %d call sites passes %s" % (len(sites), " / ".join(sorted(set(why))))
    return None


def accumulation_discharge(F, fn, site):
    """`acc += x` / `a + b` where the addend is size-like (see size_like) and the other operand is an integer place that
    is only ever initialised with a small literal or advanced by size-like amounts in this function."""
    from vlib.facts import place_path, peel
    body, owner = _hir_body(F, fn)
    if body is None:
        return None
    sp = site["sp"]
    target = None
    for n in walk(body):
        if n.get("k") in ("Binary", "AssignOp") and n.get("sp") == sp and n.get("op") in ("+", "+="):
            target = n
    if target is None:
        return None
    if target["k"] == "AssignOp":
        why = size_like(F, owner, target["rhs"])
        return ("accumulates a size-like addend: " + why) if why else None
    wa, wb = size_like(F, owner, target["a"]), size_like(F, owner, target["b"])
    if wa and wb:
        return "sum of size-like operands: %s; %s" % (wa, wb)
    for w, other in ((wa, target["b"]), (wb, target["a"])):
        if not w:
            continue
        pp = place_path(_strip_val(other))
        if not pp:
            continue
        # the other operand is a counter place: all of its writes in this body are `= literal` / `+= size-like`
        ok, nw = True, 0
        for x in walk(body):
            if x.get("k") in ("Assign", "AssignOp") and place_path(x["lhs"]) == pp:
                nw += 1
                if not size_like(F, owner, x["rhs"]):
                    ok = False
        if ok and nw == 0:
            ok, nw = _field_writes_size_like(F, owner, other)
        if ok and nw:
            return "sum of a size-like operand (%s) and the counter `%s` (%d writes, all by size-like amounts)" % (w, pp, nw)
    return None


def coupled_last_index(F, fn, site):
    """`v[n - 1]` where `n` mirrors `v.len()`: the access sits under `n > 0`, and in this function `n` is written only as
    `n += 1` in a block that also pushes onto `v` (and every push onto `v` is paired that way).  At entry the pair is
    assumed in step (both come from the caller's initialisation)."""
    from vlib.facts import place_path, peel, lit_int, guard_conditions, path_to
    body, owner = _hir_body(F, fn)
    if body is None:
        return None
    sp = site["sp"]
    idx = None
    for n in walk(body):
        if n.get("k") == "Index" and n.get("sp") and n["sp"][0] == sp[0] and n["sp"][2] == sp[2] and n["sp"][3] == sp[3]:
            idx = n
    if idx is None:
        cands = [n for n in walk(body) if n.get("k") == "Index" and n.get("sp") and n["sp"][0] <= sp[0] <= n["sp"][2]
                 and (n["sp"][0], n["sp"][1]) <= (sp[0], sp[1]) and (sp[2], sp[3]) <= (n["sp"][2], n["sp"][3])]
        idx = cands[-1] if cands else None
    if idx is None:
        return None
    ix = _strip_val(idx["index"])
    lets = {st["pat"]["hid"]: st for st in walk(body) if st.get("k") == "Let" and st["pat"].get("k") == "Binding" and "init" in st}
    if ix.get("k") == "Path" and ix.get("res", {}).get("hid") in lets:
        ix = _strip_val(lets[ix["res"]["hid"]]["init"])
    if not (ix.get("k") == "Binary" and ix["op"] == "-" and _strip_val(ix["b"]).get("k") == "Lit" and lit_int(_strip_val(ix["b"])["lit"]) == 1):
        return None
    n_pp, v_pp = place_path(_strip_val(ix["a"])), place_path(idx["base"])
    if not n_pp or not v_pp:
        return None
    n_pp = n_pp.lstrip("*")
    # guard n > 0 (or n != 0 / n >= 1) on the way to the access, including the left operand of an enclosing `&&`
    def is_guard(c, pol):
        c = peel(c)
        if c.get("k") == "Binary" and c["op"] == "&&" and pol:
            return is_guard(c["a"], True) or is_guard(c["b"], True)
        if c.get("k") != "Binary" or (place_path(_strip_val(c["a"])) or "").lstrip("*") != n_pp:
            return False
        b = _strip_val(c["b"])
        if b.get("k") != "Lit":
            return False
        v = lit_int(b["lit"])
        return (pol and ((c["op"] in (">", "!=") and v == 0) or (c["op"] == ">=" and v == 1))) or (not pol and ((c["op"] == "==" and v == 0) or (c["op"] == "<" and v == 1)))
    guarded = any(pol in (True, False) and is_guard(c, pol) for pol, c in guard_conditions(body, idx))
    if not guarded:
        # `n > 0 && v[n-1] == x` : the access is in the right operand
        for a_, _role in (path_to(body, idx) or []):
            if isinstance(a_, dict) and a_.get("k") == "Binary" and a_["op"] == "&&" and is_guard(a_["a"], True) and any(y is idx for y in walk(a_["b"])):
                guarded = True
    if not guarded:
        return None
    # coupling inside this function
    incs = [x for x in walk(body) if x.get("k") in ("Assign", "AssignOp") and (place_path(x["lhs"]) or "").lstrip("*") == n_pp]
    pushes = [x for x in walk(body) if x.get("k") == "MethodCall" and x["method"] in ("push", "pop", "remove", "insert", "clear", "truncate", "append", "extend", "drain", "retain", "swap_remove")
              and place_path(x["recv"]) == v_pp]

    def block_of(x):
        for a_, _role in reversed(path_to(body, x) or []):
            if isinstance(a_, dict) and a_.get("k") == "Block":
                return id(a_)
        return None
    for x in incs:
        r_ = _strip_val(x["rhs"])
        if not (x["k"] == "AssignOp" and x["op"] in ("+=", "+") and r_.get("k") == "Lit" and lit_int(r_["lit"]) == 1):
            return None
    if any(p_["method"] != "push" for p_ in pushes):
        return None
    if sorted(block_of(x) for x in incs) != sorted(block_of(x) for x in pushes):
        return None
    entry = _entry_in_step(F, owner, n_pp, v_pp)
    if entry is None:
        return None
    return "`%s[%s - 1]` under `%s > 0`; `%s` is advanced only together with `%s.push(..)` (%d paired sites); %s" % (v_pp, n_pp, n_pp, n_pp, v_pp, len(incs), entry)


def _is_zero(e):
    from vlib.facts import lit_int
    e = _strip_val(e)
    if isinstance(e, dict) and e.get("k") == "Call" and not e.get("args") and (e.get("callee") or "").split("::")[-1] == "default" and (e.get("ty") or "") in _INTS:
        return True
    return isinstance(e, dict) and e.get("k") == "Lit" and lit_int(e.get("lit")) == 0


def _is_empty_coll(e):
    e = _strip_val(e)
    if not isinstance(e, dict):
        return False
    if e.get("k") == "Call" and not e.get("args") and (e.get("callee") or "").split("::")[-1] in ("new", "default"):
        return True
    return e.get("k") == "MethodCall" and e["method"] in ("new", "default") and not e.get("args")


def _callers_start_in_step(F, owner, in_, iv, depth):
    """→ number of originating call sites, or 0 when some caller does not start the (counter, vector) pair at 0 / empty or
    changes one of them by other means.  Functions that merely forward their own parameters to the owner are followed."""
    from vlib.facts import peel
    fwd = {_nogen(owner["path"]): (in_, iv)}      # function → positions of (counter, vector) among its parameters

    def calls_into(g):
        for c in walk(g["body"]):
            if c.get("k") in ("Call", "MethodCall") and _nogen(c.get("callee") or "") in fwd:
                pn, pv = fwd[_nogen(c["callee"])]
                off = 1 if c["k"] == "MethodCall" else 0
                if max(pn, pv) - off < len(c.get("args", [])):
                    yield c, peel(c["args"][pn - off]), peel(c["args"][pv - off])

    def clean(g, h):
        """g changes local/param h only by handing it to a function of `fwd`"""
        for x in walk(g["body"]):
            if x.get("k") in ("Assign", "AssignOp") and peel(x["lhs"]).get("res", {}).get("hid") == h:
                return False
            if x.get("k") == "MethodCall" and x["method"] in _MUTATORS and peel(x["recv"]).get("res", {}).get("hid") == h:
                return False
            if x.get("k") in ("Call", "MethodCall") and _nogen(x.get("callee") or "") not in fwd and "inlined" not in x:
                for a2 in x.get("args", []):
                    if a2.get("k") == "AddrOf" and a2.get("mut") and peel(a2["a"]).get("res", {}).get("hid") == h:
                        return False
                    if peel(a2).get("k") == "Path" and peel(a2).get("res", {}).get("hid") == h and (a2.get("ty") or "").startswith("&mut"):
                        return False
        return True

    fns = [g for g in F.fns if g.get("body") is not None]
    changed = True
    while changed:
        changed = False
        for g in fns:
            if _nogen(g["path"]) in fwd:
                continue
            gparams = {}
            for i, pm in enumerate(g.get("params", [])):
                for b in walk(pm["pat"]):
                    if b.get("k") == "Binding":
                        gparams[b["hid"]] = i
            for c, an, av in calls_into(g):
                hn, hv = an.get("res", {}).get("hid"), av.get("res", {}).get("hid")
                if an.get("k") == "Path" and av.get("k") == "Path" and hn in gparams and hv in gparams:
                    fwd[_nogen(g["path"])] = (gparams[hn], gparams[hv])
                    changed = True
                    break
    nsites = 0
    for g in fns:
        lets = {st["pat"]["hid"]: st for st in walk(g["body"]) if st.get("k") == "Let" and st["pat"].get("k") == "Binding" and "init" in st}
        for c, an, av in calls_into(g):
            if not (an.get("k") == "Path" and av.get("k") == "Path"):
                return 0
            hn, hv = an.get("res", {}).get("hid"), av.get("res", {}).get("hid")
            if not (clean(g, hn) and clean(g, hv)):
                return 0
            if _nogen(g["path"]) in fwd and hn not in lets and hv not in lets:
                continue        # a forwarder passing its own parameters on
            if not (hn in lets and hv in lets and _is_zero(lets[hn]["init"]) and _is_empty_coll(lets[hv]["init"])):
                return 0
            nsites += 1
    return nsites


def _walk_not_inlined_of(node, path):
    """walk, but do not descend into copies of function `path` that were attached to its call sites (vlib/canon.py):
    what the function does is judged in the function itself"""
    stack = [node]
    while stack:
        n = stack.pop()
        if isinstance(n, dict):
            if n.get("k") == "Inlined" and n.get("of") == path:
                continue
            yield n
            for v in reversed(list(n.values())):
                if isinstance(v, (dict, list)):
                    stack.append(v)
        elif isinstance(n, list):
            for v in reversed(n):
                if isinstance(v, (dict, list)):
                    stack.append(v)


def _entry_in_step(F, owner, n_pp, v_pp):
    """The counter/vector pair is in step when the owner is entered: for parameters, every caller passes `&mut` locals
    initialised to 0 / an empty vector and touches them in no other way than through this callee; for fields of a struct,
    no other function of the crate writes them and every literal of the struct starts them at 0 / empty."""
    from vlib.facts import place_path, peel
    roots = (n_pp.split(".")[0].split("[")[0], v_pp.split(".")[0].split("[")[0])
    pidx = {}
    for i, pm in enumerate(owner.get("params", [])):
        for b in walk(pm["pat"]):
            if b.get("k") == "Binding" and b.get("name") in roots:
                pidx[b["name"]] = i
    if "." not in n_pp and "." not in v_pp and roots[0] in pidx and roots[1] in pidx:
        nsites = _callers_start_in_step(F, owner, pidx[roots[0]], pidx[roots[1]], 0)
        return "every one of %d callers starts the pair at 0 / empty and changes it only through this function" % nsites if nsites else None
    if n_pp.startswith("self.") and v_pp.startswith("self.") and owner.get("self_adt"):
        adt = _nogen(owner["self_adt"])
        fn_, fv = n_pp.split(".")[1], v_pp.split(".")[1].split("[")[0]
        for g in F.fns:
            if g.get("body") is None or g is owner:
                continue
            for x in _walk_not_inlined_of(g["body"], owner["path"]):
                if x.get("k") in ("Assign", "AssignOp"):
                    l = _strip_val(x["lhs"])
                    while isinstance(l, dict) and l.get("k") == "Index":
                        l = _strip_val(l["base"])
                    if isinstance(l, dict) and l.get("k") == "Field" and l["name"] in (fn_, fv) and _nogen((l.get("base_ty") or "").lstrip("&").replace("mut ", "")) == adt:
                        return None
                if x.get("k") == "MethodCall" and x["method"] in _MUTATORS:
                    l = _strip_val(x["recv"])
                    if isinstance(l, dict) and l.get("k") == "Field" and l["name"] == fv and _nogen((l.get("base_ty") or "").lstrip("&").replace("mut ", "")) == adt:
                        return None
                if x.get("k") == "Struct" and _nogen(x.get("adt") or "") == adt \
                        and not all(isinstance(f_, list) and isinstance(f_[1], dict) and f_[1].get("k") in ("Binding", "Wild") for f_ in x.get("fields", [])):
                    for fname, val in x.get("fields", []):
                        if fname == fn_ and not _is_zero(val):
                            return None
                        if fname == fv and not _is_empty_coll(val):
                            return None
        return "no other function writes `%s`/`%s` of %s and every literal of the struct starts them at 0 / empty" % (fn_, fv, adt.split("::")[-1])
    return None


_MUTATORS = ("push", "pop", "remove", "insert", "clear", "truncate", "append", "extend", "drain", "retain", "swap_remove", "entry",
             "resize", "split_off", "dedup", "remove_entry", "get_mut", "iter_mut", "values_mut", "sort", "reverse")


def _loop_source(body, hid):
    """The iterated expression and binding patterns of the for-loop / iterator closure that binds local `hid`."""
    for n in walk(body):
        if n.get("k") == "MethodCall" and n.get("args"):
            for a_ in n["args"]:
                if a_.get("k") == "Closure" and any(b.get("k") == "Binding" and b.get("hid") == hid for p_ in a_["params"] for b in walk(p_)):
                    return n["recv"], a_["params"], n
        if n.get("k") == "Match" and (n.get("src") or "").startswith("ForLoopDesugar"):
            inner = [m for m in walk(n["arms"][0]["body"]) if m.get("k") == "Match" and m is not n]
            if inner and any(b.get("k") == "Binding" and b.get("hid") == hid for arm in inner[0]["arms"] for b in walk(arm["pat"])):
                sc = n["scrut"]
                return (sc["args"][0] if sc.get("k") == "Call" and sc.get("args") else sc), [arm["pat"] for arm in inner[0]["arms"]], n
    return None, None, None


def _mutated_between(body, pp, after_sp, before_node):
    """Is place `pp` mutated (mutating method, assignment, `&mut` hand-over) anywhere in the body at or after line `after_sp`?"""
    from vlib.facts import place_path, peel
    for x in walk(body):
        # position in evaluation order: a node of a helper inlined at a call counts where the call stands (`esp`), not where
        # the helper's text is
        if not x.get("sp") or (x.get("esp") or x["sp"])[0] < after_sp:
            continue
        if x.get("k") == "MethodCall" and x["method"] in _MUTATORS and place_path(x["recv"]) == pp:
            return True
        if x.get("k") in ("Assign", "AssignOp") and (place_path(x["lhs"]) or "").split("[")[0] == pp:
            return True
        if x.get("k") == "AddrOf" and x.get("mut") and place_path(x["a"]) == pp:
            return True
    return False


def index_in_step(F, fn, site):
    """`b[i]` is in bounds when (1) `i` is a key obtained from `b.keys()` of the same, since then unmodified map, or
    (2) `i` is the enumerate() index over a collection `a` and an earlier guard clause has established
    a.len() == b.len() (possibly through a third value), neither collection being modified afterwards."""
    from vlib.facts import place_path, peel, guard_conditions
    body, owner = _hir_body(F, fn)
    if body is None:
        return None
    sp = site["sp"]
    cands = [n for n in walk(body) if n.get("k") == "Index" and n.get("sp")
             and (n["sp"][0], n["sp"][1]) <= (sp[0], sp[1]) and (sp[2], sp[3]) <= (n["sp"][2], n["sp"][3])]
    if not cands:
        return None
    idx = cands[-1]
    b_pp = place_path(idx["base"])
    ix = _strip_val(idx["index"])
    if not b_pp or not (ix.get("k") == "Path" and ix.get("res", {}).get("r") == "local"):
        return None
    hid = ix["res"]["hid"]
    lets = {st["pat"]["hid"]: st for st in walk(body) if st.get("k") == "Let" and st["pat"].get("k") == "Binding"}
    chain, pats, loop = _loop_source(body, hid)
    if chain is None:
        return None
    feeds = list(_feeds(chain, lets))
    # (1) keys of the same map
    for x in feeds:
        if x.get("k") == "MethodCall" and x["method"] == "keys" and place_path(x["recv"]) == b_pp:
            if not _mutated_between(body, b_pp, x["sp"][0], idx):
                return "`%s[k]` with k taken from `%s.keys()`; the map is not modified in between" % (b_pp, b_pp)
    # (2) enumerate index over a collection of the same length
    a_pp = None
    is_first = any(t_.get("k") == "Tuple" and t_["pats"] and any(b.get("hid") == hid for b in walk(t_["pats"][0])) for p_ in pats for t_ in walk(p_))
    if is_first and any(x.get("k") == "MethodCall" and x["method"] == "enumerate" for x in feeds):
        for x in feeds:
            if x.get("k") == "MethodCall" and x["method"] in ("iter", "iter_mut", "into_iter"):
                a_pp = place_path(x["recv"])
            elif x.get("k") == "Path" and a_pp is None:
                a_pp = place_path(x)
    if not a_pp:
        return None
    # equalities established by guards on the way to the loop
    eq = {}

    def find(t):
        while eq.get(t, t) != t:
            t = eq[t]
        return t

    def term(e):
        e = _strip_val(e)
        if isinstance(e, dict) and e.get("k") == "MethodCall" and e["method"] == "len":
            q = place_path(e["recv"])
            return "len(%s)" % q if q else None
        return place_path(e) if isinstance(e, dict) else None

    guard_sp = None
    for pol, c in guard_conditions(body, loop):
        if pol in ("pat", "notpat"):
            continue
        st = [peel(c)]
        while st:
            x = peel(st.pop())
            if x.get("k") == "Binary" and ((x["op"] == "||" and not pol) or (x["op"] == "&&" and pol)):
                st += [x["a"], x["b"]]
            elif x.get("k") == "Binary" and ((x["op"] == "!=" and not pol) or (x["op"] == "==" and pol)):
                ta, tb = term(x["a"]), term(x["b"])
                if ta and tb:
                    eq[find(ta)] = find(tb)
                    guard_sp = x["sp"][0] if guard_sp is None else min(guard_sp, x["sp"][0])
    if guard_sp is None or find("len(%s)" % a_pp) != find("len(%s)" % b_pp):
        return None
    if _mutated_between(body, a_pp, guard_sp, idx) or _mutated_between(body, b_pp, guard_sp, idx):
        return None
    return "`%s[i]` with i the enumerate() index over `%s`; an earlier guard returns unless %s.len() == %s.len(), and neither is modified afterwards" % (b_pp, a_pp, a_pp, b_pp)


def nopanic(F, roots=None, rule="R-NOPANIC", title=None, prop_label="parse"):
    repo = os.environ.get("ORCA_ANALYSED_REPO", REPO)
    r = RuleResult(rule, title or
                   "no panic edge (MIR Assert, diverging call, unwrap/expect, indexing, Vec::remove/insert) on a resolved call path from Module::parse / Component::parse, except sites discharged by an enumerated guard idiom or the reviewed table")
    if roots is None:
        roots = [f["path"] for f in F.fns if f["name"] in ("parse", "parse_internal", "parse_comp")
                 and (f.get("self_adt") or "").endswith(("::Module", "::Component"))]
        if len(roots) != 4:
            raise CheckError("expected 4 parse roots, found %d" % len(roots))
    r.count("roots", len(roots))
    g = mirutil.build_callgraph(F)
    seen, parent = mirutil.reachable_fns(F, roots, g)
    r.count("reachable_fns", len(seen))
    r.analysed += sorted(seen)
    exh = payload_exhaustive(F, r) if prop_label == "parse" else {}
    reviewed = {}
    try:
        for row in json.load(open(os.path.join(VERIF, "tables", "nopanic_reviewed.json")))["rows"]:
            reviewed[row["key"]] = row
    except FileNotFoundError:
        pass
    n_sites = 0
    dbg = 0
    seen_rev = {}
    for p in sorted(seen):
        fn = F.by_path[p][0]
        src_fn = fn
        for s in sites_of(F, fn, repo):
            n_sites += 1
            kind = s["kind"]
            t = s["term"]
            file = fn["file"]
            snip = snippet(repo, file, s["sp"])
            # closure numbering shifts when an unrelated closure is added: key by parent + snippet
            key = "%s | %s | %s" % (re.sub(r"\{closure#\d+\}", "{closure}", p), kind, snip)
            where = "%s:%d" % (file, s["sp"][0])
            # ---- guard idioms ------------------------------------------------
            if kind.startswith("assert:Overflow"):
                dbg += 1
                why = _all_contexts(F, fn, lambda: overflow_discharge(F, fn, s) or accumulation_discharge(F, fn, s))
                if why:
                    r.ob(True, {"site": key, "discharged_by": why})
                    continue
                key = key + " (debug builds: overflow check)"
            if kind == "assert:BoundsCheck":
                ln, ix = (const_val(o, fn["mir"]) for o in t["ops"])
                if ln is not None and ix is not None and ix < ln:
                    r.ob(True, {"site": key, "discharged_by": "constant index %d < constant length %d" % (ix, ln)})
                    continue
            if kind.startswith(("call:Index", "call:IndexMut")) or kind == "assert:BoundsCheck":
                why = _all_contexts(F, fn, lambda: coupled_last_index(F, fn, s) or index_in_step(F, fn, s))
                if why:
                    r.ob(True, {"site": key, "discharged_by": why})
                    continue
            if kind.startswith("call:") and "unwrap" in kind and "std::convert::Infallible" in t.get("callee_args", ""):
                r.ob(True, {"site": key, "discharged_by": "Result<_, Infallible>::unwrap cannot fail"})
                continue
            if kind.startswith("diverge:todo") and exh.get(p):
                r.ob(True, {"site": key, "discharged_by": "catch-all arm is dead: every Payload variant has an explicit arm (R-PAYLOAD-EXH)"})
                continue
            if key in reviewed:
                seen_rev[key] = seen_rev.get(key, 0) + 1
                if seen_rev[key] <= int(reviewed[key].get("count", 1)):
                    r.ob(True, {"site": key, "discharged_by": "reviewed: " + reviewed[key]["reason"]})
                    continue
            r.ob(False, {"site": key, "path": mirutil.call_path(parent, p)})
            r.violate(key, where, "panic site reachable from %s: %s in `%s` (call path: %s)" % (
                prop_label, kind, snip, " → ".join(x.split("::")[-1] for x in mirutil.call_path(parent, p))))
    r.count("panic_sites", n_sites)
    r.count("debug_only_overflow_checks", dbg)
    return r


def untrusted_alloc(F):
    """R-UNTRUSTED-ALLOC (zero expected): on the parse call graph no allocation is sized by a number read from the input.
    `Vec::with_capacity(n)`, `reserve(n)`, `resize(n, ..)`, `vec![x; n]` abort the process when `n` is absurd (a section
    header may declare 2^32 items in a five-byte section); sizes that count items already held in memory (`len()`, an
    enumerate index, a small literal — `size_like`) are fine.  An abort is not a panic edge in MIR, hence this HIR rule."""
    r = RuleResult("R-UNTRUSTED-ALLOC",
                   "no Vec/String/HashMap capacity on the parse call graph is taken from a value that does not count in-memory items (e.g. a section reader's declared count)")
    roots = [f["path"] for f in F.fns if f["name"] in ("parse", "parse_internal", "parse_comp") and (f.get("self_adt") or "").endswith(("::Module", "::Component"))]
    g = mirutil.build_callgraph(F)
    seen, _parent = mirutil.reachable_fns(F, roots, g)
    SIZED = {"with_capacity": 0, "reserve": 0, "reserve_exact": 0, "resize": 0, "resize_with": 0, "from_elem": 1, "with_capacity_and_hasher": 0}
    n = 0
    for p in sorted(seen):
        fn = F.by_path[p][0]
        body, owner = _hir_body(F, fn) if fn.get("kind") != "Closure" else (None, None)
        if body is None or owner is None or owner is not fn:
            continue
        for c in walk(body):
            if c.get("k") not in ("Call", "MethodCall"):
                continue
            nm = (c.get("callee") or "").split("::")[-1]
            if nm not in SIZED or not (c.get("callee") or "").startswith(("std::", "alloc::", "core::", "hashbrown::")):
                continue
            args = c.get("args", [])
            i_ = SIZED[nm]
            if i_ >= len(args):
                continue
            n += 1
            why = size_like(F, owner, args[i_])
            r.ob(why is not None, {"fn": p, "call": nm, "size": why or "not a count of in-memory items"})
            if why is None:
                r.violate("%s | %s sized by input" % (p, nm), F.loc(fn, c),
                          "`%s(..)` on the parse path is sized by a value that does not count items already in memory (e.g. the item count a section header declares): a tiny malformed input can request gigabytes and abort the process instead of returning an error" % nm)
        r.analysed.append(p)
    r.count("sized_allocations", n)
    r.obligations = max(r.obligations, 1)
    r.discharged = max(r.discharged, 1) if not r.violations else r.discharged
    return r


def parse_recursion(F):
    """R-PARSE-RECURSION: a stack overflow aborts the process (SIGABRT) — it is neither a MIR panic edge nor catchable.  Every
    recursion cycle on the parse call graph must therefore carry a depth guard: an integer parameter that each recursive call
    passes on changed by a literal (`depth + 1` / `fuel - 1`) and that is compared with a constant under a guard that leaves
    the function before the recursive call is reached."""
    r = RuleResult("R-PARSE-RECURSION",
                   "every recursion cycle reachable from Module::parse / Component::parse is bounded by a depth parameter: the recursive call passes `p ± literal` and is dominated by a diverging guard comparing p with a constant")
    roots = [f["path"] for f in F.fns if f["name"] in ("parse", "parse_internal", "parse_comp") and (f.get("self_adt") or "").endswith(("::Module", "::Component"))]
    g = mirutil.build_callgraph(F)
    seen, _parent = mirutil.reachable_fns(F, roots, g)
    r.count("reachable_fns", len(seen))
    # Tarjan, iterative
    index, low, onst, st, sccs = {}, {}, set(), [], []
    counter = [0]
    for root in sorted(seen):
        if root in index:
            continue
        work = [(root, iter(sorted(w for w in g.get(root, ()) if w in seen)))]
        index[root] = low[root] = counter[0]; counter[0] += 1; st.append(root); onst.add(root)
        while work:
            v, it = work[-1]
            adv = False
            for w in it:
                if w not in index:
                    index[w] = low[w] = counter[0]; counter[0] += 1; st.append(w); onst.add(w)
                    work.append((w, iter(sorted(x for x in g.get(w, ()) if x in seen))))
                    adv = True
                    break
                elif w in onst:
                    low[v] = min(low[v], index[w])
            if adv:
                continue
            work.pop()
            if work:
                low[work[-1][0]] = min(low[work[-1][0]], low[v])
            if low[v] == index[v]:
                comp = []
                while True:
                    w = st.pop(); onst.discard(w); comp.append(w)
                    if w == v:
                        break
                if len(comp) > 1 or v in g.get(v, ()):
                    sccs.append(sorted(comp))
    r.count("recursion_cycles", len(sccs))
    from vlib.facts import guard_conditions

    def int_params(fn):
        out = {}
        for i, p in enumerate(fn.get("params") or []):
            if p["ty"] in ("usize", "u32", "u64", "u16", "u8", "i32", "i64", "isize") and p["pat"].get("k") == "Binding":
                out[p["pat"]["hid"]] = (i, p["pat"].get("name"))
        return out

    for comp in sccs:
        key = " → ".join(c.split("::")[-1] for c in comp)
        if len(comp) > 1:
            r.undecided("recursion through %d functions (%s): the depth argument is not followed across them" % (len(comp), key))
            continue
        fn = F.by_path[comp[0]][0]
        body, owner = _hir_body(F, fn) if fn.get("kind") != "Closure" else (None, None)
        if body is None:
            r.undecided("no HIR body for %s" % comp[0])
            continue
        ips = int_params(fn)
        calls = [c for c in walk(body) if c.get("k") in ("Call", "MethodCall") and ((c.get("inst") or c.get("callee") or "") == fn["path"] or (c.get("fres") or {}).get("path") == fn["path"])]
        if not calls:
            # resolved through MIR only (e.g. via a closure): shape not recognised
            r.undecided("recursive call of %s not found in its HIR body" % fn["name"])
            continue
        r.analysed.append(fn["path"])
        for c in calls:
            args = ([c["recv"]] if c["k"] == "MethodCall" else []) + list(c["args"])
            bounded = None
            for hid, (i, nm) in ips.items():
                if i >= len(args):
                    continue
                a = peel(args[i])
                if not (a.get("k") == "Binary" and a["op"] in ("+", "-")):
                    continue
                l, rr = peel(a["a"]), peel(a["b"])
                if not (l.get("k") == "Path" and l.get("res", {}).get("hid") == hid and rr.get("k") == "Lit"):
                    continue
                # a guard on `nm` that leaves before this call
                for pol, cond in guard_conditions(body, c):
                    if pol in ("pat", "notpat"):
                        continue
                    cc = peel(cond)
                    if cc.get("k") == "Binary" and cc["op"] in ("<", "<=", ">", ">=", "==", "!="):
                        sides = [peel(cc["a"]), peel(cc["b"])]
                        has_p = any(s_.get("k") == "Path" and s_.get("res", {}).get("hid") == hid for s_ in sides)
                        has_c = any(s_.get("k") == "Lit" or (s_.get("k") == "Path" and s_.get("res", {}).get("r") in ("const", "def", "assoc_const")) or (s_.get("k") == "Path" and "Const" in str(s_.get("res", {}).get("dk", ""))) for s_ in sides)
                        if has_p and has_c:
                            bounded = nm
            r.ob(bounded is not None, {"fn": fn["path"], "recursive call": snippet(os.environ.get("ORCA_ANALYSED_REPO", REPO), fn["file"], c["sp"])[:80], "depth parameter": bounded})
            if bounded is None:
                r.violate("%s | unbounded recursion" % fn["path"], F.loc(fn, c),
                          "%s calls itself once per nesting level of the input with no depth guard: a small input nested a few hundred levels deep overflows the stack, which aborts the process instead of returning an error" % fn["name"])
    r.obligations = max(r.obligations, 1)
    if not r.violations and r.discharged == 0:
        r.discharged = r.obligations
    return r
