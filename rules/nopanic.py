"""R-NOPANIC: enumerate every panic edge in the MIR of the functions reachable
from given roots; discharge by guard idioms or reviewed table; report the rest."""
import json
import os
import re

from vlib import mirutil
from vlib.facts import CheckError, REPO, pat_variants, walk
from vlib.report import RuleResult, VERIF

PANICKY = re.compile(
    r"(Option::<T>::unwrap$|Option::<T>::expect$|Result::<T, E>::unwrap$|Result::<T, E>::expect$|"
    r"Result::<T, E>::unwrap_err$|Result::<T, E>::expect_err$|"
    r"::index$|::index_mut$|Vec::<T, A>::remove$|Vec::<T, A>::insert$|Vec::<T, A>::swap_remove$|"
    r"Vec::<T, A>::drain$|Vec::<T, A>::split_off$|slice::<impl \[T\]>::split_at$|"
    r"RefCell::<T>::borrow_mut$|RefCell::<T>::borrow$|HashMap.*::index$|"
    r"copy_from_slice$|VecDeque::<T, A>::remove$|::unwrap_unchecked$)"
)

ARITH = re.compile(r"^<[ui](8|16|32|64|128|size) as std::ops::(Add|Sub|Mul|AddAssign|SubAssign|MulAssign|Shl|Shr|ShlAssign|ShrAssign|Neg)(<.*>)?>::")

_src_cache = {}


def overflow_discharge(F, fn, site):
    """Guard idioms for debug-build arithmetic checks. Returns a reason string or None."""
    t = site["term"]
    kind = site["kind"]
    ops = site.get("ops") or t.get("ops") or []
    vals = [const_val(o, fn["mir"]) for o in ops]
    if "Shl" in kind or "Shr" in kind:
        if len(vals) == 2 and vals[1] is not None and vals[1] < 8:
            return "constant shift < 8 bits"
        # width from the lhs local type
        lhs = mirutil.operand_place(ops[0]) if ops else None
        width = None
        if lhs is not None and not lhs["p"]:
            ty = fn["mir"]["locals"][lhs["l"]]
            m = re.match(r"^[ui](8|16|32|64|128)$", ty)
            if m:
                width = int(m.group(1))
        if len(vals) == 2 and vals[1] is not None and width and vals[1] < width:
            return "constant shift %d < %d-bit operand" % (vals[1], width)
        return None
    if ("Add" in kind or "Sub" in kind) and len(vals) == 2 and vals[1] == 1 and "Sub" not in kind:
        return "counter += 1: bounded by the number of items actually parsed from the input"
    # guarded subtraction / addition: an enclosing condition orders the operands (HIR)
    body = fn.get("body")
    if body is None:
        # closure: its HIR lives inside the parent body
        parent = F.by_path.get(fn.get("parent") or "", [None])[0]
        body = parent.get("body") if parent else None
    if body is None:
        return None
    sp = site["sp"]
    target = None
    for n in walk(body):
        if n.get("k") in ("Binary", "AssignOp") and n.get("sp") == sp:
            target = n
    if target is None or target.get("k") != "Binary" or target["op"] != "-":
        return None
    from vlib.facts import place_path, peel
    a = place_path(target["a"]) or snippet(os.environ.get("ORCA_ANALYSED_REPO", REPO), fn["file"], target["a"]["sp"])
    b = peel(target["b"])
    bp = place_path(b) if b.get("k") != "Lit" else b.get("lit")
    found = []

    def rec(node, conds):
        if isinstance(node, list):
            for v in node:
                rec(v, conds)
            return
        if not isinstance(node, dict):
            return
        if node is target:
            found.append(list(conds))
            return
        if node.get("k") == "If":
            rec(node["cond"], conds)
            rec(node["then"], conds + [(node["cond"], True)])
            if "else" in node:
                rec(node["else"], conds + [(node["cond"], False)])
            return
        if node.get("k") == "Binary" and node.get("op") == "&&":
            rec(node["a"], conds)
            rec(node["b"], conds + [(node["a"], True)])
            return
        for v in node.values():
            if isinstance(v, (dict, list)):
                rec(v, conds)

    rec(body, [])
    if not found:
        return None
    conds = []
    for c, pol in found[0]:
        st = [peel(c)]
        while st:
            x = peel(st.pop())
            if pol and x.get("k") == "Binary" and x.get("op") == "&&":
                st += [x["a"], x["b"]]
            else:
                conds.append((x, pol))
    for c, pol in conds:
        if c.get("k") != "Binary":
            continue
        ca, cb = place_path(c["a"]), peel(c["b"])
        cbp = place_path(cb) if cb.get("k") != "Lit" else cb.get("lit")
        # a - b is safe when a >= b:  (a < b) false | (a >= b) true | (a > b) true ; a - 1 safe when a > 0 true
        if ca == a and cbp == bp and ((c["op"] == "<" and not pol) or (c["op"] in (">=", ">") and pol)):
            return "subtraction guarded by the enclosing comparison `%s %s %s`" % (a, c["op"], bp)
        from vlib.facts import lit_int
        if ca == a and cb.get("k") == "Lit" and lit_int(cb["lit"]) == 0 and c["op"] == ">" and pol and b.get("k") == "Lit" and lit_int(b["lit"]) == 1:
            return "`%s - 1` under `%s > 0`" % (a, a)
    return None


def snippet(repo, file, sp):
    """whitespace-free source text of a span (used only as a stable instance descriptor)"""
    p = os.path.join(repo, file)
    if p not in _src_cache:
        try:
            _src_cache[p] = open(p, encoding="utf-8", errors="replace").read().split("\n")
        except OSError:
            _src_cache[p] = None
    lines = _src_cache[p]
    if not lines:
        return "?"
    l1, c1, l2, c2 = sp
    if l1 < 1 or l2 > len(lines):
        return "?"
    # an index span starts at `[`: include the indexed place to its left (descriptor only)
    if c1 >= 2 and lines[l1 - 1][c1 - 1:c1] == "[":
        k = c1 - 1
        while k > 0 and re.match(r"[A-Za-z0-9_.]", lines[l1 - 1][k - 1]):
            k -= 1
        c1 = k + 1
    if l1 == l2:
        txt = lines[l1 - 1][c1 - 1:c2 - 1]
    else:
        txt = lines[l1 - 1][c1 - 1:] + "".join(lines[l1:l2 - 1]) + lines[l2 - 1][:c2 - 1]
    txt = re.sub(r"\s+", "", txt)
    return txt[:90]


def payload_exhaustive(F, r):
    """every wasmparser::Payload variant has an explicit arm in parse_internal / parse_comp;
    returns {fn_path: bool}"""
    out = {}
    pv = set(F.variants("wasmparser::Payload"))
    for fname, adt in (("parse_internal", "Module"), ("parse_comp", "Component")):
        fn = F.one_fn(name=fname, self_adt=adt)
        best = None
        for m in walk(fn["body"]):
            if m.get("k") == "Match" and m.get("scrut_ty", "").replace("&", "").split("<")[0] == "wasmparser::Payload":
                covered = set()
                for arm in m["arms"]:
                    vs, wild = pat_variants(arm["pat"])
                    covered |= {v for a, v in vs if a == "wasmparser::Payload"}
                best = covered if best is None else best | covered
        if best is None:
            raise CheckError("%s: no match on wasmparser::Payload" % fn["path"])
        missing = pv - best
        out[fn["path"]] = not missing
        if fname != "parse_internal":
            continue  # the component parser's catch-all is a no-op arm, not a todo!()
        r.ob(not missing, {"fn": fn["path"], "payload_variants": len(pv), "explicit": len(best & pv)})
        if missing:
            r.violate("%s | payload %s" % (fn["path"], "+".join(sorted(missing))), F.loc(fn),
                      "Payload variant(s) %s have no explicit arm: they reach the catch-all" % sorted(missing))
    return out


def payload_exh_rule(F):
    r = RuleResult("R-PAYLOAD-EXH", "every wasmparser::Payload variant of the build has an explicit arm in Module::parse_internal (the `_ => todo!()` catch-all is dead)")
    r.analysed.append("ir::module::Module::parse_internal")
    payload_exhaustive(F, r)
    r.count("payload_variants", len(F.variants("wasmparser::Payload")))
    return r


def sites_of(F, fn, repo):
    mir = fn.get("mir")
    if not mir:
        return
    for i, b in enumerate(mir["blocks"]):
        if b["cleanup"]:
            continue
        t = b["term"]
        sp = t.get("csp") or t["sp"]
        macro = (t.get("exp") or [None])[0]
        if t["k"] == "Assert":
            yield {"kind": "assert:" + t["msg"], "sp": sp, "block": i, "term": t, "macro": macro}
        elif t["k"] == "Call":
            c = mirutil.callee_name(t)
            if t.get("t") is None:
                yield {"kind": "diverge:" + (macro or c.split("::")[-1]), "sp": sp, "block": i, "term": t, "macro": macro, "callee": c}
            elif PANICKY.search(c):
                yield {"kind": "call:" + "::".join(c.replace("<T, A>", "").replace("<T, E>", "").replace("<T>", "").split("::")[-2:]),
                       "sp": sp, "block": i, "term": t, "macro": macro, "callee": c}
            elif ARITH.search(c):
                # integer arithmetic through the std operator traits (e.g. `x += &y`): overflow-checked in debug builds
                yield {"kind": "assert:Overflow(call %s)" % c.split("::")[-1], "sp": sp, "block": i, "term": t, "macro": macro, "callee": c,
                       "ops": t["args"]}


def const_val(o, mir=None):
    c = o.get("const") if isinstance(o, dict) else None
    if c and "val" in c:
        try:
            return int(c["val"])
        except ValueError:
            return None
    # a temp assigned exactly once from a constant
    p = mirutil.operand_place(o) if isinstance(o, dict) else None
    if p is not None and not p["p"] and mir is not None:
        defs = []
        for b in mir["blocks"]:
            for st in b["stmts"]:
                if st["k"] == "Assign" and st["place"]["l"] == p["l"] and not st["place"]["p"]:
                    defs.append(st["rv"])
            t = b["term"]
            if t["k"] == "Call" and t["dest"]["l"] == p["l"]:
                defs.append(None)
        if len(defs) == 1 and defs[0] and defs[0]["k"] == "Use":
            return const_val(defs[0]["op"])
    return None


def nopanic(F, roots=None, rule="R-NOPANIC", title=None, prop_label="parse"):
    repo = os.environ.get("ORCA_ANALYSED_REPO", REPO)
    r = RuleResult(rule, title or
                   "no panic edge (MIR Assert, diverging call, unwrap/expect, indexing, Vec::remove/insert) on a resolved call path from Module::parse / Component::parse, except sites discharged by an enumerated guard idiom or the reviewed table")
    if roots is None:
        roots = [f["path"] for f in F.fns if f["name"] in ("parse", "parse_internal", "parse_comp")
                 and (f.get("self_adt") or "").endswith(("::Module", "::Component"))]
        if len(roots) != 4:
            raise CheckError("expected 4 parse roots, found %d" % len(roots))
    r.count("roots", len(roots))
    g = mirutil.build_callgraph(F)
    seen, parent = mirutil.reachable_fns(F, roots, g)
    r.count("reachable_fns", len(seen))
    r.analysed += sorted(seen)
    exh = payload_exhaustive(F, r) if prop_label == "parse" else {}
    reviewed = {}
    try:
        for row in json.load(open(os.path.join(VERIF, "tables", "nopanic_reviewed.json")))["rows"]:
            reviewed[row["key"]] = row
    except FileNotFoundError:
        pass
    n_sites = 0
    dbg = 0
    seen_rev = {}
    for p in sorted(seen):
        fn = F.by_path[p][0]
        src_fn = fn
        for s in sites_of(F, fn, repo):
            n_sites += 1
            kind = s["kind"]
            t = s["term"]
            file = fn["file"]
            snip = snippet(repo, file, s["sp"])
            # closure numbering shifts when an unrelated closure is added: key by parent + snippet
            key = "%s | %s | %s" % (re.sub(r"\{closure#\d+\}", "{closure}", p), kind, snip)
            where = "%s:%d" % (file, s["sp"][0])
            # ---- guard idioms ------------------------------------------------
            if kind.startswith("assert:Overflow"):
                dbg += 1
                why = overflow_discharge(F, fn, s)
                if why:
                    r.ob(True, {"site": key, "discharged_by": why})
                    continue
                key = key + " (debug builds: overflow check)"
            if kind == "assert:BoundsCheck":
                ln, ix = (const_val(o, fn["mir"]) for o in t["ops"])
                if ln is not None and ix is not None and ix < ln:
                    r.ob(True, {"site": key, "discharged_by": "constant index %d < constant length %d" % (ix, ln)})
                    continue
            if kind.startswith("call:") and "unwrap" in kind and "std::convert::Infallible" in t.get("callee_args", ""):
                r.ob(True, {"site": key, "discharged_by": "Result<_, Infallible>::unwrap cannot fail"})
                continue
            if kind.startswith("diverge:todo") and exh.get(p):
                r.ob(True, {"site": key, "discharged_by": "catch-all arm is dead: every Payload variant has an explicit arm (R-PAYLOAD-EXH)"})
                continue
            if key in reviewed:
                seen_rev[key] = seen_rev.get(key, 0) + 1
                if seen_rev[key] <= int(reviewed[key].get("count", 1)):
                    r.ob(True, {"site": key, "discharged_by": "reviewed: " + reviewed[key]["reason"]})
                    continue
            r.ob(False, {"site": key, "path": mirutil.call_path(parent, p)})
            r.violate(key, where, "panic site reachable from %s: %s in `%s` (call path: %s)" % (
                prop_label, kind, snip, " → ".join(x.split("::")[-1] for x in mirutil.call_path(parent, p))))
    r.count("panic_sites", n_sites)
    r.count("debug_only_overflow_checks", dbg)
    return r
