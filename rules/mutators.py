"""Rules over the mutation API: R-RECALC-SET, R-WHOMAYCALL, R-IDSPACE, R-COUNTER-INV,
R-COUPLED-IMPORT-ORDER, R-REORG-INV, R-LOCALS-OWNER, R-ADDLOCAL, R-SWAP (name-aligned flows)."""
import os
import re

from vlib.facts import pat_variants, walk, peel, place_path, CheckError, REPO, lit_int, uncond_before, every_iteration, path_to, binding_site
from vlib.paths import paths, normal_paths
from vlib.report import RuleResult
from rules.nopanic import snippet

COLLS = {
    "func": {"adt": "Functions", "kind": "FuncKind", "module_field": "functions"},
    "global": {"adt": "ModuleGlobals", "kind": "GlobalKind", "module_field": "globals"},
    "memory": {"adt": "Memories", "kind": "MemKind", "module_field": "memories"},
}


def _repo():
    return os.environ.get("ORCA_ANALYSED_REPO", REPO)


def _coll_of_place(pp, fn):
    """which collection's recalculate_ids flag a place path denotes"""
    if not pp or not pp.endswith("recalculate_ids"):
        return None
    for c, d in COLLS.items():
        if pp == "self.%s.recalculate_ids" % d["module_field"] or re.search(r"\.%s\.recalculate_ids$" % d["module_field"], pp):
            return c
        if pp == "self.recalculate_ids" and (fn.get("self_adt") or "").endswith("::" + d["adt"]):
            return c
    return None


class FlagSummary:
    """sets_flag_always(fn) → set of collections whose flag is set to true on every normal path"""

    def __init__(self, F):
        self.F = F
        self.memo = {}

    def always(self, fn, depth=0):
        p = fn["path"]
        if p in self.memo:
            return self.memo[p]
        self.memo[p] = set()  # recursion guard
        if fn.get("body") is None or depth > 3:
            return set()
        F = self.F

        def classify(n):
            if n.get("k") == "Assign" and peel(n["rhs"]).get("lit") == "Bool(true)":
                c = _coll_of_place(place_path(n["lhs"]), fn)
                if c:
                    return "set:" + c
            if n.get("k") in ("Call", "MethodCall"):
                callee = n.get("inst") or n.get("callee")
                t = F.by_path.get(callee or "")
                if t and len(t) == 1 and t[0] is not fn:
                    s = self.always(t[0], depth + 1)
                    if s:
                        return ["set:" + c for c in sorted(s)]
            return None

        ps = normal_paths(paths(fn["body"], classify))
        res = None
        for ev, _ in ps:
            s = {e[4:] for e in ev if e.startswith("set:")}
            res = s if res is None else res & s
        self.memo[p] = res or set()
        return self.memo[p]


def recalc_set(F):
    r = RuleResult("R-RECALC-SET",
                   "every order-changing mutation of functions/globals/memories arms re-indexing on every path: each collection's delete sets recalculate_ids unconditionally; every function that builds an Import-kind element outside parsing, or flips an element's kind in place, sets (or always calls something that sets) the flag of that collection")
    S = FlagSummary(F)
    # (i) delete methods
    for c, d in COLLS.items():
        fn = F.one_fn(name="delete", self_adt=d["adt"])
        r.analysed.append(fn["path"])
        ok = c in S.always(fn)
        r.ob(ok, {"fn": fn["path"], "sets %s flag on every path" % c: ok})
        if not ok:
            r.violate("%s | delete" % fn["path"], F.loc(fn), "%s::delete does not set recalculate_ids on every path: after such a delete the old identity map is used although the index space changed" % d["adt"])
    # (ii) builders of Import-kind elements, (iii) set_kind callers
    n_sites = 0
    for fn in F.fns:
        if fn.get("body") is None:
            continue
        if fn["name"] in ("parse_internal", "new", "from_wasmparser", "clone", "fmt") or (fn.get("impl_trait") or "").startswith("std::"):
            continue
        needs = set()
        for n in walk(fn["body"]):
            if n.get("k") == "Call":
                fr = n.get("fres") or {}
                if fr.get("variant") == "Import":
                    for c, d in COLLS.items():
                        if (fr.get("adt") or "").endswith("::" + d["kind"]):
                            needs.add((c, "builds %s::Import" % d["kind"]))
            if n.get("k") == "MethodCall" and n["method"] == "set_kind":
                needs.add(("func", "flips a function's kind in place (set_kind)"))
        if not needs:
            continue
        mut_nodes = []
        for n in walk(fn["body"]):
            if n.get("k") == "Call" and (n.get("fres") or {}).get("variant") == "Import" and any(((n.get("fres") or {}).get("adt") or "").endswith("::" + d["kind"]) for d in COLLS.values()):
                mut_nodes.append(n)
            if n.get("k") == "MethodCall" and n["method"] == "set_kind":
                mut_nodes.append(n)

        def classify(n, fn=fn, mut_nodes=mut_nodes):
            if any(n is m for m in mut_nodes):
                return "MUT"
            if n.get("k") == "Assign" and peel(n["rhs"]).get("lit") == "Bool(true)":
                c = _coll_of_place(place_path(n["lhs"]), fn)
                if c:
                    return "set:" + c
            if n.get("k") in ("Call", "MethodCall"):
                callee = n.get("inst") or n.get("callee")
                t = F.by_path.get(callee or "")
                if t and len(t) == 1 and t[0] is not fn:
                    s = S.always(t[0], 1)
                    if s:
                        return ["set:" + c for c in sorted(s)]
            return None

        pths = normal_paths(paths(fn["body"], classify))
        for c, why in sorted(needs):
            n_sites += 1
            r.analysed.append(fn["path"])
            ok = all(("set:" + c) in ev for ev, _ in pths if "MUT" in ev)
            r.ob(ok, {"fn": fn["path"], "why": why, "flag_set_on_every_mutating_path": ok})
            if not ok:
                r.violate("%s | %s" % (fn["path"], why), F.loc(fn), "%s %s but does not arm re-indexing (recalculate_ids of the %s collection) on every path that does so" % (fn["path"], why, c))
    r.count("mutation_sites", n_sites)
    return r


def who_may_call(F):
    r = RuleResult("R-WHOMAYCALL",
                   "the raw collection adders are called only by owners that maintain the matching counter on the same path (ModuleGlobals::add ⇐ num_local_globals += 1; Functions::add_local_func ⇐ num_local_functions += 1; Memories::add_local_mem ⇐ num_local_memories += 1; *::add_import_* ⇐ Module::add_import), or by the parse-time constructor")
    table = [
        ("add", "ModuleGlobals", ("counter", "num_local_globals"), ("new",)),
        ("add_local_func", "Functions", ("counter", "num_local_functions"), ()),
        ("add_local_mem", "Memories", ("counter", "num_local_memories"), ()),
        ("add_import_func", "Functions", ("call", "add_import"), ()),
        ("add_import_mem", "Memories", ("call", "add_import"), ()),
    ]
    n_callers = 0
    for name, adt, need, exempt in table:
        callee = F.one_fn(name=name, self_adt=adt)
        for fn in F.fns:
            if fn.get("body") is None:
                continue
            sites = [c for c in walk(fn["body"]) if c.get("k") in ("MethodCall", "Call") and (c.get("inst") or c.get("callee")) == callee["path"]]
            if not sites:
                continue
            n_callers += 1
            r.analysed.append("%s → %s" % (fn["path"], callee["name"]))
            if fn["name"] in exempt and (fn.get("self_adt") or "").endswith("::" + adt):
                r.ob(True, {"caller": fn["path"], "callee": callee["path"], "exempt": "parse-time constructor"})
                continue

            def classify(n, sites=sites):
                if any(n is s for s in sites):
                    return "CALL"
                if need[0] == "counter" and n.get("k") == "AssignOp" and n["op"].startswith("+") and (place_path(n["lhs"]) or "").endswith("." + need[1]):
                    return "MAINT"
                if need[0] == "call" and n.get("k") in ("MethodCall", "Call") and (n.get("inst") or n.get("callee") or "").endswith("::" + need[1]):
                    return "MAINT"
                return None

            bad = [ev for ev, _ in normal_paths(paths(fn["body"], classify)) if "CALL" in ev and "MAINT" not in ev]
            ok = not bad
            r.ob(ok, {"caller": fn["path"], "callee": callee["path"], "maintains": need[1], "on_every_path": ok})
            if not ok:
                r.violate("%s | calls %s::%s" % (fn["path"], adt, name), F.loc(fn, sites[0]),
                          "%s calls %s::%s without maintaining `%s` on that path: the owner's bookkeeping (used by Module::add_import to choose the next id) goes stale, so a later addition can be given an id that is already taken" % (fn["path"], adt, name, need[1]))
    r.count("callers", n_callers)
    return r


ID_ADTS_PREFIX = "ir::id::"
COLLECTION_INDEX = {"imports": "ImportsID", "functions": "FunctionID", "globals": "GlobalID", "memories": "MemoryID",
                    "exports": "ExportsID", "custom_sections": "CustomSectionID", "tables": "TableID", "data": "DataSegmentID",
                    "elements": "ElementID", "modules": "ModuleID"}


def _base(ty):
    return ty.replace("&mut ", "").replace("&", "").split("<")[0]


def idspace(F):
    r = RuleResult("R-IDSPACE",
                   "no ID newtype is constructed from the payload of a different ID newtype (FunctionID(*import_id)), and an enumerate() index is wrapped only in the ID type of the collection it enumerates; each exception must be in the reviewed table")
    import json
    from vlib.report import VERIF
    reviewed = {}
    try:
        for row in json.load(open(os.path.join(VERIF, "tables", "idspace_reviewed.json")))["rows"]:
            reviewed[row["key"]] = row
    except FileNotFoundError:
        pass
    ids = {a["path"] for a in F.raw["adts"] if a["path"].startswith(ID_ADTS_PREFIX)}
    r.count("id_newtypes", len(ids))
    n_ctor = 0
    for fn in F.fns:
        if fn.get("body") is None:
            continue
        # enumerate() bindings: hid → collection field
        enum_idx = {}
        for m in walk(fn["body"]):
            if m.get("k") == "Match" and m.get("src") == "ForLoopDesugar":
                it = m["scrut"]
                coll = None
                has_enum = False
                for x in walk(it):
                    if x.get("k") == "MethodCall" and x["method"] == "enumerate":
                        has_enum = True
                    # `(0..).zip(coll.iter())`: the first tuple component is the position in coll as well
                    if x.get("k") == "MethodCall" and x["method"] == "zip" and "ops::Range" in x.get("recv_ty", ""):
                        has_enum = True
                    if x.get("k") == "Field" and x["name"] in COLLECTION_INDEX and coll is None:
                        coll = x["name"]
                    if x.get("k") == "MethodCall" and x["method"] in ("iter", "iter_mut") and coll is None:
                        # self.imports.iter() where imports is a ModuleImports: use receiver type
                        rt = _base(x.get("recv_ty", ""))
                        for fld, adt in (("imports", "ModuleImports"), ("functions", "Functions"), ("globals", "ModuleGlobals"), ("memories", "Memories"), ("exports", "ModuleExports")):
                            if rt.endswith("::" + adt):
                                coll = fld
                if has_enum and coll:
                    for lp in walk(m["arms"][0]["body"]):
                        if lp.get("k") == "Match" and lp is not m:
                            for arm in lp["arms"]:
                                p = arm["pat"]
                                if p.get("variant") == "Some":
                                    inner = p["pats"][0] if p.get("pats") else p["fields"][0][1]
                                    if inner.get("k") == "Tuple" and inner["pats"] and inner["pats"][0].get("k") == "Binding":
                                        enum_idx[inner["pats"][0]["hid"]] = coll
                            break
        # positions taken from a range `a..X.len()` (for loop or iterator closure): the variable is a position in X
        for rg in walk(fn["body"]):
            if rg.get("k") == "Struct" and (rg.get("adt") or "").endswith("ops::Range") and isinstance(rg.get("fields"), list):
                end = dict((f_[0], f_[1]) for f_ in rg["fields"]).get("end")
                e_ = peel(end) if isinstance(end, dict) else {}
                while e_.get("k") == "Cast":
                    e_ = peel(e_["a"])
                if not (e_.get("k") == "MethodCall" and e_["method"] == "len"):
                    continue
                pp = place_path(e_["recv"]) or ""
                coll_ = pp.split(".")[-1]
                if not coll_:
                    continue
                # who binds the elements of this range?
                for x in walk(fn["body"]):
                    binders = []
                    if x.get("k") == "MethodCall" and x.get("args") and any(y is rg for y in walk(x["recv"])):
                        for a_ in x["args"]:
                            if a_.get("k") == "Closure" and len(a_["params"]) == 1 and a_["params"][0].get("k") == "Binding":
                                binders.append(a_["params"][0]["hid"])
                    if x.get("k") == "Match" and x.get("src") == "ForLoopDesugar" and any(y is rg for y in walk(x["scrut"])):
                        for lp in walk(x["arms"][0]["body"]):
                            if lp.get("k") == "Match" and lp is not x:
                                for arm in lp["arms"]:
                                    p_ = arm["pat"]
                                    if p_.get("variant") == "Some" and p_.get("pats") and p_["pats"][0].get("k") == "Binding":
                                        binders.append(p_["pats"][0]["hid"])
                                break
                    for h_ in binders:
                        enum_idx.setdefault(h_, coll_)
        for n in walk(fn["body"]):
            if n.get("k") != "Call":
                continue
            fr = n.get("fres") or {}
            A = fr.get("adt") if fr.get("dk", "").startswith("Ctor") or fr.get("r") == "self" else None
            if A not in ids or not n["args"]:
                continue
            n_ctor += 1
            arg = n["args"][0]
            bad = None
            for x in walk(arg):
                if x.get("k") == "Unary" and x.get("op") == "*" and x.get("callee"):
                    B = _base(x["a"].get("ty", ""))
                    if B in ids and B != A:
                        bad = "payload of %s" % B.split("::")[-1]
                if x.get("k") == "Field" and x["name"] == "0":
                    B = _base(x.get("base_ty", ""))
                    if B in ids and B != A:
                        bad = "payload (.0) of %s" % B.split("::")[-1]
                if x.get("k") == "Path" and x.get("res", {}).get("hid") in enum_idx:
                    coll = enum_idx[x["res"]["hid"]]
                    want = COLLECTION_INDEX.get(coll)
                    if want is None:
                        bad = "position in `%s` (positions in that vector are not ids of any index space)" % coll
                    elif A.split("::")[-1] != want:
                        bad = "enumerate() index of `%s` (a %s-indexed collection)" % (coll, want)
            snip = snippet(_repo(), fn["file"], n["sp"])
            key = "%s | %s" % (fn["path"], snip)
            if bad and key in reviewed:
                r.ob(True, {"ctor": snip, "fn": fn["path"], "reviewed": reviewed[key]["reason"]})
                continue
            r.ob(bad is None, {"ctor": snip, "fn": fn["path"], "cross_space": bad})
            if fn["path"] not in r.analysed:
                r.analysed.append(fn["path"])
            if bad:
                r.violate(key, F.loc(fn, n), "%s is built from the %s: the two index spaces differ as soon as the module has imports of several kinds" % (A.split("::")[-1], bad))
        # one local wrapped into two different ID newtypes: a value cannot be an index into two spaces at once
        # (e.g. a per-kind running counter used both as MemoryID and as ImportsID — they coincide only while every import
        # is of that kind)
        wrapped = {}
        for n in walk(fn["body"]):
            if n.get("k") != "Call":
                continue
            fr = n.get("fres") or {}
            A = fr.get("adt") if fr.get("dk", "").startswith("Ctor") or fr.get("r") == "self" else None
            if A not in ids or not n["args"]:
                continue
            leaf = peel(n["args"][0])
            while isinstance(leaf, dict) and leaf.get("k") == "Cast":
                leaf = peel(leaf["a"])
            if isinstance(leaf, dict) and leaf.get("k") == "Path" and leaf.get("res", {}).get("r") == "local":
                wrapped.setdefault(leaf["res"]["hid"], {}).setdefault(A.split("::")[-1], n)
        for hid, tys in wrapped.items():
            if len(tys) > 1:
                nm = next((x["res"].get("name") for x in walk(fn["body"]) if x.get("k") == "Path" and x.get("res", {}).get("hid") == hid), "?")
                key = "%s | local `%s` as %s" % (fn["path"], nm, "+".join(sorted(tys)))
                if key in reviewed:
                    r.ob(True, {"fn": fn["path"], "reviewed": reviewed[key]["reason"]})
                    continue
                r.ob(False, {"fn": fn["path"], "local": nm, "wrapped_as": sorted(tys)})
                r.violate(key, F.loc(fn, list(tys.values())[0]), "the same value `%s` is wrapped as %s: it cannot index both spaces (they coincide only in special cases such as an import section of a single kind)" % (nm, " and ".join(sorted(tys))))
        # comparisons of a collection position with the payload of an ID of another space
        for n in walk(fn["body"]):
            if n.get("k") == "Binary" and n["op"] in ("==", "!=", "<", "<=", ">", ">="):
                sides = [n["a"], n["b"]]
                for i in (0, 1):
                    idx = peel(sides[i])
                    if idx.get("k") == "Path" and idx.get("res", {}).get("hid") in enum_idx and enum_idx[idx["res"]["hid"]] in COLLECTION_INDEX:
                        coll = enum_idx[idx["res"]["hid"]]
                        want = COLLECTION_INDEX[coll]
                        for x in walk(sides[1 - i]):
                            if x.get("k") == "Unary" and x.get("op") == "*" and x.get("callee"):
                                B = _base(x["a"].get("ty", ""))
                                if B in ids and B.split("::")[-1] != want:
                                    snip = snippet(_repo(), fn["file"], n["sp"])
                                    key = "%s | %s" % (fn["path"], snip)
                                    if key in reviewed:
                                        r.ob(True)
                                        continue
                                    r.ob(False, {"comparison": snip, "fn": fn["path"]})
                                    r.violate(key, F.loc(fn, n), "a position in `%s` (a %s-indexed collection) is compared with the payload of a %s: the two index spaces differ as soon as the module has imports of several kinds" % (coll, want, B.split("::")[-1]))
    # cursor fields: a field used as the index into a vector whose elements *carry* ids of space A (`metadata[curr_idx]`,
    # metadata: Vec<(FunctionID, usize)>) is a position in that list; an A built from arithmetic over the cursor claims the
    # list is the identity on A, which the explicit ids in it exist to deny (it holds only until an import is added)
    cursors = {}
    for fn in F.all_fns:
        if fn.get("body") is None:
            continue
        for x in walk(fn["body"]):
            if x.get("k") != "Index":
                continue
            bt = x.get("base_ty", "") or ""
            if "Vec<" not in bt:
                continue
            inner = bt[bt.index("Vec<") + 4:]
            held = [i for i in ids if i in inner and "HashMap" not in inner]
            ix = peel(x["index"])
            while isinstance(ix, dict) and ix.get("k") == "Cast":
                ix = peel(ix["a"])
            if held and isinstance(ix, dict) and ix.get("k") == "Field" and ix.get("base_ty"):
                cursors.setdefault((_base(ix["base_ty"]), ix["name"]), set()).update(held)
    r.count("cursor_fields", len(cursors))
    for fn in F.fns:
        if fn.get("body") is None:
            continue
        for n in walk(fn["body"]):
            if n.get("k") != "Call":
                continue
            fr = n.get("fres") or {}
            A = fr.get("adt") if fr.get("dk", "").startswith("Ctor") or fr.get("r") == "self" else None
            if A not in ids or not n["args"]:
                continue
            for x in walk(n["args"][0]):
                if x.get("k") == "Field" and (_base(x.get("base_ty", "") or ""), x["name"]) in cursors and A in cursors[(_base(x["base_ty"]), x["name"])]:
                    # not when the field is itself only the subscript of an Index inside the argument (`list[cur].0`)
                    inside_index = any(y.get("k") == "Index" and any(z is x for z in walk(y["index"])) for y in walk(n["args"][0]))
                    if inside_index:
                        continue
                    snip = snippet(_repo(), fn["file"], n["sp"])
                    key = "%s | %s from cursor %s" % (fn["path"], A.split("::")[-1], x["name"])
                    if key in reviewed:
                        r.ob(True, {"fn": fn["path"], "reviewed": reviewed[key]["reason"]})
                        continue
                    r.ob(False, {"ctor": snip, "fn": fn["path"], "cursor": x["name"]})
                    r.violate(key, F.loc(fn, n), "%s is computed from `%s`, the position in a list that stores %ss explicitly: position and id coincide only while the list is the identity (no imports added, nothing deleted)" % (A.split("::")[-1], x["name"], A.split("::")[-1]))
    # `impl GetID for T`: the id an element reports is its own index-space id — every ID newtype the accessor touches is one
    # and the same (an imported memory's `import_id` is its position among the imports, not among the memories)
    for g in F.fns:
        if g.get("body") is None or g["name"] != "get_id" or not (g.get("impl_trait") or "").endswith("GetID"):
            continue
        tys = set()
        for x in walk(g["body"]):
            t = (x.get("ty") or "").replace("&mut ", "").replace("&", "").strip()
            if x.get("k") in ("Binding", "Field", "Path") and t in ids:
                tys.add(t.split("::")[-1])
        ok = len(tys) == 1 and "ImportsID" not in tys
        r.ob(ok, {"get_id of": (g.get("self_adt") or "").split("::")[-1], "id types read": sorted(tys)})
        if not ok:
            r.violate("%s | mixes %s" % (g["path"], "+".join(sorted(tys))), F.loc(g),
                      "%s::get_id reads ids of %s: the id map built at encode time keys elements by this value, so an element reporting its position in another index space is remapped as a different element" % ((g.get("self_adt") or "").split("::")[-1], sorted(tys)))
    r.count("id_constructions", n_ctor)
    return r


def counter_inv(F):
    r = RuleResult("R-COUNTER-INV",
                   "the invariant asserted by FunctionBuilder::finish_module_with_tag — functions.len() == num_local_functions + imports.num_funcs — is preserved on every path of every Module mutator (Δlen = Δnum_local_functions + Δnum_funcs, callee summaries bottom-up)")
    # anchor: the assert
    fb = F.one_fn(name="finish_module_with_tag", self_adt="FunctionBuilder")
    has_assert = any("assert_eq" in (n.get("exp") or []) for n in walk(fb["body"]))
    if not has_assert:
        raise CheckError("anchor gone: finish_module_with_tag no longer asserts the function-count invariant (re-read the clause by hand)")
    memo = {}
    # functions from which ModuleImports::add is reachable through parameters (add itself, Module::add_import, helpers)
    imp_add = [f for f in F.fns if f["name"] == "add" and (f.get("self_adt") or "").endswith("::ModuleImports")]
    reach_add = {f["path"] for f in imp_add}
    grew = True
    while grew:
        grew = False
        for f in getattr(F, "all_fns", F.fns):      # helpers inlined at their call sites forward the kind as well
            if f.get("body") is None or f["path"] in reach_add:
                continue
            takes_kind = any("TypeRef" in (pm.get("ty") or "") or "module_imports::Import" in (pm.get("ty") or "") for pm in f.get("params", []))
            if takes_kind and any(x.get("k") in ("Call", "MethodCall") and (x.get("inst") or x.get("callee") or "") in reach_add for x in walk(f["body"])):
                reach_add.add(f["path"])
                grew = True

    def summary(fn, depth=0):
        p = fn["path"]
        if p in memo:
            return memo[p]
        memo[p] = {(0, 0, 0)}
        if fn.get("body") is None or depth > 4:
            return memo[p]

        def classify(n):
            k = n.get("k")
            if k == "AssignOp":
                pp = place_path(n["lhs"]) or ""
                d = 1 if n["op"].startswith("+") else (-1 if n["op"].startswith("-") else 0)
                if d and peel(n["rhs"]).get("k") == "Lit" and lit_int(peel(n["rhs"])["lit"]) == 1:
                    if pp.endswith(".num_local_functions"):
                        return [("nlf", d)]
                    if pp.endswith(".num_funcs") and not pp.endswith("num_funcs_added"):
                        return [("nf", d)]
            if k == "MethodCall" and n["method"] in ("push", "insert") and (place_path(n["recv"]) or "").endswith("functions") and "Functions" in (fn.get("self_adt") or ""):
                return [("len", 1)]
            if k == "MethodCall" and n["method"] == "push" and (place_path(n["recv"]) or "") == "self" and (fn.get("self_adt") or "").endswith("::Functions"):
                return [("len", 1)]
            if k in ("Call", "MethodCall"):
                callee = n.get("inst") or n.get("callee") or ""
                t = F.by_path.get(callee)
                if t and len(t) == 1 and t[0] is not fn:
                    nm = t[0]["name"]
                    # anything that (transitively) reaches ModuleImports::add moves num_funcs iff the import it is given
                    # is a function import: the kind is read off the TypeRef constructor at the call site
                    if t[0]["path"] in reach_add:
                        kind = None
                        from vlib.facts import binding_site as _bs
                        srcs = list(n["args"])
                        for _round in range(2):
                            # an import built into a local first (`let import = helper(.., TypeRef::Func(..), ..)`) is read
                            # through the local's initialiser
                            for a in list(srcs):
                                for x in walk(a):
                                    if x.get("k") == "Path" and x.get("res", {}).get("r") == "local" and "module_imports::Import" in (x.get("ty") or ""):
                                        _p, scr_, _k = _bs(fn["body"], x["res"]["hid"])
                                        if scr_ is not None and all(scr_ is not y for y in srcs):
                                            srcs.append(scr_)
                        for a in srcs:
                            for x in walk(a):
                                if x.get("k") == "Call" and (x.get("fres") or {}).get("adt", "").endswith("TypeRef"):
                                    kind = x["fres"].get("variant")
                        if kind == "Func":
                            return [("nf", 1)]
                        if kind is not None:
                            return None
                        return None  # generic forwarder (kind decided by its own caller): judged at the callers
                    s = summary(t[0], depth + 1)
                    if s != {(0, 0, 0)}:
                        return [("sum", tuple(sorted(s)))]
            return None

        out = set()
        for ev, _ in normal_paths(paths(fn["body"], classify)):
            vecs = {(0, 0, 0)}
            for e in ev:
                if e[0] == "sum":
                    vecs = {(a + x, b + y, c + z) for (a, b, c) in vecs for (x, y, z) in e[1]}
                elif e[0] == "len":
                    vecs = {(a + e[1], b, c) for (a, b, c) in vecs}
                elif e[0] == "nlf":
                    vecs = {(a, b + e[1], c) for (a, b, c) in vecs}
                elif e[0] == "nf":
                    vecs = {(a, b, c + e[1]) for (a, b, c) in vecs}
            out |= vecs
        memo[p] = out
        return out

    n = 0
    for fn in F.fns:
        if fn.get("body") is None or fn["kind"] == "Closure":
            continue
        sa = fn.get("self_adt") or ""
        if not sa.endswith(("::Module", "::FunctionBuilder")):
            continue
        if fn["name"] in ("parse_internal", "parse") or fn["path"] in reach_add:
            continue
        s = summary(fn)
        if s == {(0, 0, 0)}:
            continue
        n += 1
        r.analysed.append(fn["path"])
        bad = sorted(v for v in s if v[0] != v[1] + v[2])
        # a thin wrapper inherits its callee's deltas: report at the origin only
        inherited = False
        for n2 in walk(fn["body"]):
            if n2.get("k") in ("Call", "MethodCall"):
                t2 = F.by_path.get(n2.get("inst") or n2.get("callee") or "")
                if t2 and len(t2) == 1 and t2[0] is not fn and (t2[0].get("self_adt") or "").endswith(("::Module", "::FunctionBuilder")) and summary(t2[0]) == s:
                    inherited = True
        if inherited and bad:
            r.ob(True, {"fn": fn["path"], "inherits deltas of its callee": sorted(s)})
            continue
        r.ob(not bad, {"fn": fn["path"], "deltas (len, num_local_functions, num_funcs)": sorted(s)})
        if bad:
            r.violate("%s | %s" % (fn["path"], bad[0]), F.loc(fn),
                      "a path changes (functions.len, num_local_functions, imports.num_funcs) by %s: the invariant len == num_local_functions + num_funcs asserted by finish_module_with_tag no longer holds, so the next finish_module panics" % (bad[0],))
    r.count("mutators_with_effect", n)
    return r


def coupled_import_order(F):
    r = RuleResult("R-COUPLED-IMPORT-ORDER",
                   "the import section is emitted in `imports` vector order while imported functions are ordered by their position in `functions`: EITHER no function flips an existing function to FuncKind::Import in place while appending its Import at the end of `imports`, OR the ordering/emission code reads ImportedFunction.import_id")
    flippers = []
    for fn in F.fns:
        if fn.get("body") is None:
            continue
        flips = False
        adds = False
        for n in walk(fn["body"]):
            if n.get("k") == "MethodCall" and n["method"] == "set_kind":
                for x in walk(n["args"]):
                    if x.get("k") == "Call" and (x.get("fres") or {}).get("variant") == "Import" and (x["fres"].get("adt") or "").endswith("FuncKind"):
                        flips = True
            if n.get("k") in ("MethodCall", "Call") and (n.get("inst") or n.get("callee") or "").endswith("::add_import"):
                adds = True
        if flips and adds:
            flippers.append(fn)
    reads_import_id = False
    for name, adt in (("reorganise_generic", "Module"), ("encode_internal", "Module"), ("recalculate_ids", "Module")):
        fn = F.one_fn(name=name, self_adt=adt)
        r.analysed.append(fn["path"])
        for n in walk(fn["body"]):
            if n.get("k") == "Field" and n["name"] == "import_id":
                reads_import_id = True
    for fn in flippers:
        r.analysed.append(fn["path"])
        r.ob(reads_import_id, {"in-place flip + append": fn["path"], "ordering reads import_id": reads_import_id})
        if not reads_import_id:
            r.violate("%s | in-place flip with appended import" % fn["path"], F.loc(fn),
                      "%s turns an existing function into an import in place (its position in `functions` decides its function index) but appends the Import at the end of `imports` (its position there decides the import section order); nothing orders one by the other, so the i-th imported function and the i-th function import can be different entities" % fn["path"])
    if not flippers:
        r.ob(True, {"no in-place flip": True})
    r.count("in_place_flippers", len(flippers))
    return r


def reorg_inv(F):
    r = RuleResult("R-REORG-INV",
                   "reorganise_generic preserves its own loop invariant in every branch: num_deleted changes by (#remove − #insert) so that `idx - num_deleted` stays the element's current position; a branch that takes an element out of the import prefix decrements num_imported, a branch that inserts at num_imported increments it; every remove uses index idx - num_deleted")
    fn = F.one_fn(name="reorganise_generic", self_adt="Module")
    r.analysed.append(fn["path"])
    # locals
    # the two counters by role, not by name: `num_imported` is the local initialised from the u32 parameter (the insertion
    # slot for imports), `num_deleted` the other integer local that starts at 0 (how far the unvisited tail has shifted)
    names = {}
    rename = {}
    uparams = [pm["pat"] for pm in fn.get("params", []) if pm.get("ty") == "u32" and pm["pat"].get("k") == "Binding"]
    zero_locals = []
    for st in walk(fn["body"]):
        if st.get("k") == "Let" and st["pat"].get("k") == "Binding" and isinstance(st.get("init"), dict):
            i_ = peel(st["init"])
            if len(uparams) == 1 and i_.get("k") == "Path" and i_.get("res", {}).get("hid") == uparams[0]["hid"]:
                names["num_imported"] = st["pat"]["hid"]
                rename[st["pat"]["name"]] = "num_imported"
            elif i_.get("k") == "Lit" and lit_int(i_.get("lit")) == 0:
                zero_locals.append(st["pat"])
    if len(zero_locals) == 1:
        names["num_deleted"] = zero_locals[0]["hid"]
        rename[zero_locals[0]["name"]] = "num_deleted"
    if len(uparams) == 1:
        rename[uparams[0]["name"]] = "orig_num_imported"
    if set(names) != {"num_imported", "num_deleted"}:
        raise CheckError("anchor changed: reorganise_generic no longer keeps an insertion slot initialised from its u32 parameter and one shift counter starting at 0 (re-read the algorithm)")
    # the for-loop body
    loop_body = None
    for m in walk(fn["body"]):
        if m.get("k") == "Match" and m.get("src") == "ForLoopDesugar":
            for lp in walk(m["arms"][0]["body"]):
                if lp.get("k") == "Match" and lp is not m:
                    for arm in lp["arms"]:
                        if arm["pat"].get("variant") == "Some":
                            loop_body = arm["body"]
                    break
    if loop_body is None:
        raise CheckError("anchor changed: reorganise_generic has no for loop")
    # the loop index by role: the first component of the enumerate() pair
    for m in walk(fn["body"]):
        if m.get("k") == "Match" and m.get("src") == "ForLoopDesugar":
            for lp in walk(m["arms"][0]["body"]):
                if lp.get("k") == "Match" and lp is not m:
                    for arm in lp["arms"]:
                        if arm["pat"].get("variant") == "Some":
                            inner = arm["pat"]["pats"][0] if arm["pat"].get("pats") else arm["pat"]["fields"][0][1]
                            if inner.get("k") == "Tuple" and inner["pats"] and inner["pats"][0].get("k") == "Binding":
                                rename[inner["pats"][0]["name"]] = "idx"
                    break
            break

    # Case analysis on the one fact the bookkeeping depends on: does the element sit inside the original import prefix
    # (A: idx < orig_num_imported)?  For A = true and A = false separately, every path through one iteration is enumerated
    # with the branches that test A decided (whether A is tested by an `if`, kept in a bool local, or matched in a tuple),
    # and the counter updates on the path are compared with what the removals/insertions on it require.
    def norm(t):
        for a_, b_ in rename.items():
            if a_ != b_:
                t = re.sub(r"\b%s\b" % re.escape(a_), b_, t)
        return t.replace(" ", "").replace("\n", "")

    def is_atom_expr(e):
        e = peel(e)
        if e.get("k") == "Binary" and e.get("op") == "<":
            t = norm(snippet(_repo(), fn["file"], e["sp"]))
            return t.startswith("idx<orig_num_imported")
        return False

    atom_locals = set()
    for st in walk(fn["body"]):
        if st.get("k") == "Let" and st["pat"].get("k") == "Binding" and "init" in st and is_atom_expr(st["init"]):
            atom_locals.add(st["pat"]["hid"])
    pos_locals = set()
    for st in walk(fn["body"]):
        if st.get("k") == "Let" and st["pat"].get("k") == "Binding" and "init" in st and "idx-num_deleted" in norm(snippet(_repo(), fn["file"], st["init"]["sp"])):
            pos_locals.add(st["pat"]["hid"])

    def classify(n):
        if n.get("k") == "MethodCall" and n["method"] in ("remove", "insert", "push") and (place_path(n["recv"]) or "") == "items":
            if n["method"] == "push":
                return "push"
            a0 = peel(n["args"][0])
            while a0.get("k") == "Cast":
                a0 = peel(a0["a"])
            txt = norm(snippet(_repo(), fn["file"], n["args"][0]["sp"]))
            if a0.get("k") == "Path" and a0.get("res", {}).get("hid") in pos_locals:
                txt = "(idx-num_deleted)asu32"
            return "%s:%s" % (n["method"], txt)
        if n.get("k") == "AssignOp" and peel(n["rhs"]).get("k") == "Lit" and lit_int(peel(n["rhs"])["lit"]) == 1:
            l = peel(n["lhs"])
            d = "+1" if n["op"].startswith("+") else "-1"
            if l.get("k") == "Path" and l["res"].get("hid") == names["num_imported"]:
                return "imp" + d
            if l.get("k") == "Path" and l["res"].get("hid") == names["num_deleted"]:
                return "del" + d
        return None

    judged = 0
    n_paths = 0
    for A, K, D in ((True, None, False), (False, None, False), (False, "import", False), (True, "local", False),
                    (True, "import", True), (True, "local", True), (False, "import", True), (False, "local", True)):
        def val(c, A=A, K=K, D=D):
            c = peel(c)
            if K is not None and c.get("k") == "MethodCall" and c.get("method") in ("is_import", "is_local", "is_deleted") and not c.get("args"):
                return {"is_import": K == "import", "is_local": K == "local", "is_deleted": D}[c["method"]]
            if is_atom_expr(c):
                return A
            if c.get("k") == "Path" and c.get("res", {}).get("hid") in atom_locals:
                return A
            if c.get("k") == "Unary" and c.get("op") == "!":
                v = val(c["a"])
                return None if v is None else (not v)
            if c.get("k") == "Binary" and c.get("op") in ("&&", "||"):
                x, y = val(c["a"]), val(c["b"])
                if c["op"] == "&&":
                    if x is False or y is False:
                        return False
                    return True if (x is True and y is True) else None
                if x is True or y is True:
                    return True
                return False if (x is False and y is False) else None
            if c.get("k") == "DropTemps":
                return val(c.get("e") or c.get("a") or {})
            return None

        def decide_if(n):
            return val(n["cond"])

        def tail_variants(e, depth=0):
            """variant names an enum-valued expression can evaluate to under the current case (If conditions decided by
            `val` where possible); None = not recognised"""
            e = peel(e)
            if not isinstance(e, dict) or depth > 8:
                return None
            k_ = e.get("k")
            if k_ == "Block":
                if e.get("expr") is None:
                    return None
                return tail_variants(e["expr"], depth + 1)
            if k_ == "If":
                v_ = val(e["cond"])
                if v_ is True:
                    return tail_variants(e["then"], depth + 1)
                if v_ is False:
                    return tail_variants(e["else"], depth + 1) if "else" in e else None
                a_ = tail_variants(e["then"], depth + 1)
                b_ = tail_variants(e["else"], depth + 1) if "else" in e else None
                return None if a_ is None or b_ is None else a_ | b_
            if k_ == "Path" and (e.get("res") or {}).get("variant"):
                return {e["res"]["variant"]}
            if k_ in ("Call", "Struct") and ((e.get("fres") or {}).get("variant") or e.get("variant")):
                return {(e.get("fres") or {}).get("variant") or e.get("variant")}
            return None

        def select_arms(m):
            sc = peel(m.get("scrut") or {})
            if sc.get("k") in ("Call", "MethodCall") and isinstance(sc.get("inlined"), dict):
                # `match classify(&val, was_import) { Stay => .., ToLocals => .., .. }`: the helper's possible answers in this case
                vs_ = tail_variants(sc["inlined"]["body"])
                if vs_ is not None:
                    out = []
                    for i, arm in enumerate(m["arms"]):
                        pv = {leaf.get("variant") for leaf in _alts(arm["pat"]) if leaf.get("variant")}
                        if not pv or pv & vs_:
                            out.append(i)
                    return out
            if sc.get("k") != "Tup":
                # `match was_import { true if .. => .., false if .. => .., _ => .. }`
                v = val(sc)
                if v is None:
                    return None
                out = []
                for i, arm in enumerate(m["arms"]):
                    t_ = str(arm["pat"]) if arm["pat"].get("k") in ("Lit", "Expr") else ""
                    lit = True if "Bool(true)" in t_ else (False if "Bool(false)" in t_ else None)
                    if lit is None or lit == v:
                        g_ = val(arm["guard"]) if "guard" in arm else True
                        if g_ is False:
                            continue        # the arm's guard is known to fail
                        out.append(i)
                        if g_ is True:
                            break           # first arm that certainly matches: later arms are not reached
                return out
            vals = [val(e) for e in sc["elems"]]
            if all(v is None for v in vals):
                return None
            out = []
            for i, arm in enumerate(m["arms"]):
                p_ = arm["pat"]
                ok_ = True
                sure = True
                if p_.get("k") == "Tuple":
                    for v, sub in zip(vals, p_["pats"]):
                        lit = None
                        if sub.get("k") in ("Lit", "Expr"):
                            t_ = str(sub)
                            lit = True if "Bool(true)" in t_ else (False if "Bool(false)" in t_ else None)
                            if lit is None:
                                sure = False
                        elif sub.get("k") not in ("Wild", "Binding"):
                            sure = False
                        if v is None:
                            if lit is not None:
                                sure = False
                            continue
                        if lit is not None and lit != v:
                            ok_ = False
                elif p_.get("k") not in ("Wild", "Binding"):
                    sure = False
                if ok_:
                    g_ = val(arm["guard"]) if "guard" in arm else True
                    if g_ is False:
                        continue
                    out.append(i)
                    if sure and g_ is True:
                        break               # first arm that certainly matches
            return out

        seen_paths = set()
        for ev, st in paths(loop_body, classify, decide_if=decide_if, select_arms=select_arms):
            if st not in ("fall", "cont"):
                continue
            seen_paths.add(ev)
        if D:
            # deleted clause: the id map built afterwards numbers every element that is still in the list, and emission skips
            # deleted ones — so a deleted element leaves the list on every path, whatever its kind (an added import that was
            # deleted again is still `is_import()`; a converted import that was deleted is still `is_local()`)
            for ev in sorted(seen_paths):
                net = sum(1 for e in ev if e.startswith("remove:")) - sum(1 for e in ev if e.startswith("insert:")) - ev.count("push")
                okd = net == 1
                r.ob(okd, {"case": "%s import prefix, deleted %s" % ("inside" if A else "outside", K), "net removals": net})
                if not okd:
                    r.violate("%s | %s prefix deleted %s stays" % (fn["path"], "inside" if A else "outside", K), F.loc(fn),
                              "a deleted %s found %s the original import prefix is %s instead of being dropped: it keeps a slot in the old→new id map although it is not emitted, so every element behind it is referenced one too high" % (
                                  K, "inside" if A else "outside", "moved" if any(e.startswith("insert:") or e == "push" for e in ev) else "left in place"))
            continue
        if K is not None:
            # kind-specific clause: a live import met outside the original import prefix always moves the insertion slot on
            # by one (whether or not the element itself has to be moved); a live local met inside the prefix always gives its
            # slot back
            want_k = 1 if K == "import" else -1
            for ev in sorted(seen_paths):
                d_k = ev.count("imp+1") - ev.count("imp-1")
                okk = d_k == want_k
                r.ob(okk, {"case": "%s import prefix, live %s" % ("inside" if A else "outside", K), "Δnum_imported": d_k})
                if not okk:
                    r.violate("%s | %s prefix live %s | Δimp=%d" % (fn["path"], "inside" if A else "outside", K, d_k), F.loc(fn),
                              "for a live %s found %s the original import prefix a path changes num_imported by %d (needs %d): the slot where the next converted/added import is placed is off by one, so the function order no longer matches the import order" % (
                                  K, "inside" if A else "outside", d_k, want_k))
            continue
        n_paths += len(seen_paths)
        for ev in sorted(seen_paths):
            ops = list(ev)
            if not ops:
                continue
            judged += 1
            removes = sum(1 for e in ops if e.startswith("remove:"))
            inserts = sum(1 for e in ops if e.startswith("insert:"))
            pushes = ops.count("push")
            d_imp = ops.count("imp+1") - ops.count("imp-1")
            d_del = ops.count("del+1") - ops.count("del-1")
            bad_idx = [e for e in ops if e.startswith("remove:") and "idx-num_deleted" not in e] + [e for e in ops if e.startswith("insert:") and e != "insert:num_imported"]
            want_del = removes - inserts
            want_imp = (-1 if (A and removes > 0) else 0) + (1 if inserts > 0 else 0)
            ok = d_del == want_del and d_imp == want_imp and not bad_idx
            label = "%s import prefix: remove×%d insert×%d push×%d" % ("inside" if A else "outside", removes, inserts, pushes)
            r.ob(ok, {"case": label, "Δnum_imported": d_imp, "Δnum_deleted": d_del})
            if not ok:
                r.violate("%s | %s | Δimp=%d Δdel=%d" % (fn["path"], label, d_imp, d_del), F.loc(fn),
                          "for an element %s the original import prefix a path does remove×%d insert×%d push×%d with Δnum_imported=%d (needs %d) and Δnum_deleted=%d (needs %d)%s: the position bookkeeping of reorganise_generic is broken for every later element" % (
                              "inside" if A else "outside", removes, inserts, pushes, d_imp, want_imp, d_del, want_del, ("; bad index " + str(bad_idx)) if bad_idx else ""))
    r.count("branches", n_paths)
    r.count("mutating_paths", judged)
    if judged < 4:
        raise CheckError("reorganise_generic: fewer than 4 mutating paths found (%d): the algorithm changed shape beyond what this rule understands" % judged)
    return r


def locals_owner(F):
    r = RuleResult("R-LOCALS",
                   "Body.num_locals / Body.locals are written only by module_functions::add_local (parse and constructors build them whole); add_local bumps num_locals by exactly 1 and extends the run-length list by exactly one local on every path, computing the returned index before the bump; every caller passes the parameter count and the locals of the same function object")
    al = F.one_fn(name="add_local", path_contains="module_functions::add_local")
    r.analysed.append(al["path"])
    # who writes
    n_w = 0
    for fn in F.fns:
        if fn.get("body") is None:
            continue
        for n in walk(fn["body"]):
            w = None
            if n.get("k") in ("Assign", "AssignOp"):
                pp = place_path(n["lhs"]) or ""
                body_param = {pp2["pat"].get("name") for pp2 in fn["params"] if pp2["ty"].startswith("&mut")}
                if re.search(r"\.num_locals$", pp) or (pp == "num_locals" and "num_locals" in body_param):
                    w = "writes num_locals"
                if re.search(r"\.locals(\[\])?(\.\d)?$", pp) or (re.match(r"^locals(\[\])?(\.\d)?$", pp) and "locals" in body_param):
                    w = "writes locals"
            if n.get("k") == "MethodCall" and n["method"] in ("push", "insert", "remove", "clear", "pop", "extend", "truncate"):
                pp = place_path(n["recv"]) or ""
                body_param = {pp2["pat"].get("name") for pp2 in fn["params"] if pp2["ty"].startswith("&mut")}
                if re.search(r"\.locals$", pp) or (pp == "locals" and "locals" in body_param):
                    w = "mutates locals (%s)" % n["method"]
            if w:
                n_w += 1
                ok = fn is al
                r.ob(ok, {"fn": fn["path"], "what": w})
                if not ok:
                    r.violate("%s | %s" % (fn["path"], w), F.loc(fn, n), "%s %s outside add_local: the count and the run-length list can diverge, so later local indices are wrong" % (fn["path"], w))
    # by type: the run-length list is a Vec<(u32, DataType)>; any in-place mutation of one that the function did not build
    # itself (a &mut parameter or a field) outside add_local bypasses the count
    LT = "std::vec::Vec<(u32, ir::types::DataType)>"
    MUTM = ("push", "insert", "remove", "clear", "pop", "extend", "truncate", "last_mut", "first_mut", "iter_mut", "get_mut", "retain", "drain", "swap", "sort", "sort_by", "dedup", "dedup_by_key", "append", "split_off", "swap_remove")
    for fn in F.fns:
        if fn.get("body") is None or fn is al:
            continue
        fresh = {st["pat"]["hid"] for st in walk(fn["body"]) if st.get("k") == "Let" and st["pat"].get("k") == "Binding" and LT in (st["pat"].get("ty") or "") and not (st["pat"].get("ty") or "").startswith("&")}
        for n in walk(fn["body"]):
            rt = (n.get("recv_ty") or "") + " " + ((n.get("recv") or {}).get("ty") or "") if n.get("k") == "MethodCall" else ""
            if n.get("k") == "MethodCall" and (n["method"] in MUTM or n["method"].startswith(("sort", "dedup", "retain", "drain", "extend", "swap", "rotate", "resize"))) and (LT in rt or "[(u32, ir::types::DataType)]" in rt):
                root = n["recv"]
                while isinstance(root, dict) and root.get("k") in ("Field", "Index", "Unary", "AddrOf", "MethodCall"):
                    root = root.get("base") or root.get("a") or root.get("recv")
                if isinstance(root, dict) and root.get("k") == "Path" and root.get("res", {}).get("hid") in fresh:
                    continue  # building a list of its own (parse / constructors)
                pp = place_path(n["recv"]) or "?"
                key = "%s | mutates locals list (%s)" % (fn["path"], n["method"])
                if any(v.key == key or v.key == "%s | mutates locals (%s)" % (fn["path"], n["method"]) for v in r.violations):
                    continue
                n_w += 1
                r.ob(False, {"fn": fn["path"], "what": "%s.%s()" % (pp, n["method"])})
                r.violate(key, F.loc(fn, n), "%s changes a function's run-length locals list in place (`%s.%s`) outside add_local: num_locals is not updated with it, so the next add_local returns an index that is already taken" % (fn["path"], pp, n["method"]))
    r.count("local_writes", n_w)
    # parse side: Body{num_locals} is the sum of the counts of *every* locals entry that ends up in Body{locals}
    pi = F.one_fn(name="parse_internal", self_adt="Module")
    r.analysed.append(pi["path"])
    body_lits = [x for x in walk(pi["body"]) if x.get("k") == "Struct" and (x.get("adt") or "").endswith("types::Body") and "rest" not in x]
    n_cnt = 0
    for lit in body_lits:
        fs = dict(lit["fields"])
        nl = peel(fs.get("num_locals") or {})
        if nl.get("k") != "Path":
            continue
        H = nl["res"].get("hid")
        accs = [x for x in walk(pi["body"]) if x.get("k") == "AssignOp" and x["op"].startswith("+") and peel(x["lhs"]).get("res", {}).get("hid") == H]
        ok = len(accs) == 1
        why = "%d accumulation sites" % len(accs)
        if ok:
            A = accs[0]
            # enclosing iteration scope: closure body or for-loop body
            scope = None
            for anc, _ in reversed(path_to(pi["body"], A) or []):
                if isinstance(anc, dict) and anc.get("k") == "Closure":
                    scope = anc["body"]
                    break
                if isinstance(anc, dict) and anc.get("k") == "Match" and anc.get("src") == "ForLoopDesugar":
                    scope = next((a2["body"] for a2 in anc["arms"] if any(x is A for x in walk(a2["body"]))), None)
                    break
            if scope is None:
                ok, why = False, "the accumulation is not inside an iteration over the locals entries"
            else:
                ok, why = every_iteration(scope, A)
                if ok and any(x.get("k") in ("Lit",) for x in walk(A["rhs"])):
                    ok, why = False, "a literal is added instead of the entry's count"
        n_cnt += 1
        r.ob(ok, {"parse": "num_locals accumulates every entry's count", "ok": ok})
        if not ok:
            r.violate("%s | num_locals sum" % pi["path"], F.loc(pi, lit), "at parse time num_locals does not add the count of every locals entry (%s): add_local then returns indices that collide with existing locals" % why)
    r.count("parse_body_literals", n_cnt)
    # every LocalFunction is created with the parameter count of its own signature (num_args is the offset of every local index)
    n_new = 0
    for fn in F.fns:
        if fn.get("body") is None:
            continue
        for c in walk(fn["body"]):
            if c.get("k") == "Call" and (c.get("callee") or "").endswith("LocalFunction::<'a>::new") and len(c["args"]) >= 4:
                n_new += 1
                a = c["args"][3]
                txt = set()
                stack_ = [a]
                seen_h = set()
                while stack_:
                    e_ = stack_.pop()
                    for x in walk(e_):
                        if x.get("k") == "Field":
                            txt.add(x["name"])
                        if x.get("k") == "MethodCall":
                            txt.add(x["method"] + "()")
                        if x.get("k") == "Path" and x.get("res", {}).get("r") == "local":
                            txt.add(x["res"].get("name"))
                            h_ = x["res"].get("hid")
                            if h_ not in seen_h:
                                seen_h.add(h_)
                                for st in walk(fn["body"]):
                                    if st.get("k") == "Let" and st["pat"].get("hid") == h_ and "init" in st:
                                        stack_.append(st["init"])
                ok = bool(txt & {"params", "params()", "num_params", "args"}) and not (txt & {"results", "results()", "ret"})
                r.ob(ok, {"LocalFunction::new in": fn["path"], "num_args_from": sorted(t for t in txt if t)[:6]})
                if fn["path"] not in r.analysed:
                    r.analysed.append(fn["path"])
                if not ok:
                    r.violate("%s | num_args" % fn["path"], F.loc(fn, c), "a LocalFunction is created with num_args = `%s`, which is not the parameter count of its signature: every local index handed out for it later is offset wrongly" % snippet(_repo(), fn["file"], a["sp"]))
    r.count("local_function_ctors", n_new)
    # a local index is parameters + locals: any LocalID built from num_locals must add the parameter/argument count
    for fn in F.fns:
        if fn.get("body") is None:
            continue
        for c in walk(fn["body"]):
            fr = c.get("fres") or {}
            if c.get("k") == "Call" and (fr.get("adt") or "").endswith("id::LocalID") and c["args"]:
                names = set()
                stack_ = [c["args"][0]]
                seen_h = set()
                while stack_:
                    e_ = stack_.pop()
                    for x in walk(e_):
                        if x.get("k") == "Field":
                            names.add(x["name"])
                        if x.get("k") == "MethodCall":
                            names.add(x["method"] + "()")
                        if x.get("k") == "Path" and x.get("res", {}).get("r") == "local":
                            names.add(x["res"].get("name"))
                            h_ = x["res"].get("hid")
                            if h_ not in seen_h:
                                seen_h.add(h_)
                                for st in walk(fn["body"]):
                                    if st.get("k") == "Let" and st["pat"].get("hid") == h_ and "init" in st:
                                        stack_.append(st["init"])
                if "num_locals" in names:
                    ok = bool(names & {"num_params", "args", "params", "params()", "num_args"})
                    r.ob(ok, {"LocalID from num_locals in": fn["path"], "adds_parameter_count": ok})
                    if not ok:
                        r.violate("%s | LocalID(num_locals)" % fn["path"], F.loc(fn, c), "a LocalID is computed from num_locals without the parameter count: in a function with parameters it names a parameter or an earlier local")
    # shape of add_local
    def classify(n):
        if n.get("k") == "AssignOp" and n["op"].startswith("+"):
            pp = place_path(n["lhs"]) or ""
            one = peel(n["rhs"]).get("k") == "Lit" and lit_int(peel(n["rhs"])["lit"]) == 1
            if pp == "num_locals":
                return "NUM+1" if one else "NUM+?"
            if pp.startswith("locals"):
                return "RUN+1" if one else "RUN+?"
            # `*count += 1` where `count` was bound by a pattern on locals.last_mut() / get_mut(..) / iter_mut()
            root_ = n["lhs"]
            while isinstance(root_, dict) and root_.get("k") in ("Unary", "Field", "Index"):
                root_ = root_.get("a") or root_.get("base")
            if isinstance(root_, dict) and root_.get("k") == "Path" and root_.get("res", {}).get("r") == "local":
                _pat, scr_, _k = binding_site(al["body"], root_["res"]["hid"])
                sc_ = peel(scr_) if scr_ is not None else None
                if sc_ is not None and sc_.get("k") == "MethodCall" and sc_.get("method") == "last_mut" \
                        and peel(sc_["recv"]).get("k") == "Path" and peel(sc_["recv"]).get("res", {}).get("name") == "locals":
                    return "RUN+1" if one else "RUN+?"
        if n.get("k") == "MethodCall" and n["method"] == "push" and (place_path(n["recv"]) or "") == "locals":
            a = peel(n["args"][0])
            if a.get("k") == "Tup" and peel(a["elems"][0]).get("k") == "Lit" and lit_int(peel(a["elems"][0])["lit"]) == 1:
                return "PUSH1"
            return "PUSH?"
        if n.get("k") == "Let" and False:
            return None
        return None

    for ev, st in normal_paths(paths(al["body"], classify)):
        ok = ev.count("NUM+1") == 1 and (ev.count("RUN+1") + ev.count("PUSH1")) == 1 and not any(e.endswith("?") for e in ev)
        r.ob(ok, {"add_local path": list(ev)})
        if not ok:
            r.violate("%s | path %s" % (al["path"], ">".join(ev)), F.loc(al), "a path through add_local performs %s (expected exactly one num_locals += 1 and exactly one run-length extension by one local)" % list(ev))
    # index computed before the bump
    idx_line = bump_line = None
    for n in walk(al["body"]):
        if n.get("k") == "Let" and n["pat"].get("name") == "index":
            idx_line = n["sp"][0]
            reads = any(x.get("k") == "Path" and x.get("res", {}).get("name") == "num_locals" for x in walk(n["init"])) and \
                any(x.get("k") == "Path" and x.get("res", {}).get("name") == "num_params" for x in walk(n["init"]))
            r.ob(reads)
            if not reads:
                r.violate("%s | index formula" % al["path"], F.loc(al, n), "returned index is not num_params + *num_locals")
        if n.get("k") == "AssignOp" and (place_path(n["lhs"]) or "") == "num_locals" and bump_line is None:
            bump_line = n["sp"][0]
    ok = idx_line is not None and bump_line is not None and idx_line < bump_line
    r.ob(ok)
    if not ok:
        r.violate("%s | order" % al["path"], F.loc(al), "the returned index is not computed before num_locals is incremented")
    # returned value is LocalID(index as u32)
    # callers
    n_call = 0
    for fn in F.fns:
        if fn.get("body") is None:
            continue
        for c in walk(fn["body"]):
            if c.get("k") == "Call" and (c.get("callee") or "") in (al["path"],) or (c.get("k") == "Call" and (c.get("callee") or "").endswith("module_functions::add_locals")):
                n_call += 1
                args = c["args"]
                p1 = place_path(args[1]) or snippet(_repo(), fn["file"], args[1]["sp"])
                p2 = place_path(args[2]) or ""
                p3 = place_path(args[3]) or ""
                if fn["name"] == "add_locals" and "module_functions" in fn["path"]:
                    ok = p1 == "num_params" and p2 == "num_locals" and p3 == "locals"
                else:
                    m = re.match(r"^(.*)\.(params|args)\.len\(\)$", place_path(peel(args[1])) or "") if False else None
                    a1 = peel(args[1])
                    for _i in range(3):
                        # `let num_params = self.args.len();` hoisted out of a loop
                        if a1.get("k") == "Path" and a1.get("res", {}).get("r") == "local":
                            _pt, init_, kind_ = binding_site(fn["body"], a1["res"]["hid"])
                            if init_ is not None and kind_ == "let":
                                a1 = peel(init_)
                                continue
                        break
                    root1 = None
                    if a1.get("k") == "MethodCall" and a1["method"] == "len":
                        pp = place_path(a1["recv"]) or ""
                        mm = re.match(r"^(.*)\.(params|args)$", pp)
                        if mm:
                            root1 = mm.group(1)
                    ok = root1 is not None and p2 == root1 + ".body.num_locals" and p3 == root1 + ".body.locals"
                r.ob(ok, {"caller": fn["path"], "num_params": snippet(_repo(), fn["file"], args[1]["sp"]), "num_locals": p2, "locals": p3})
                if fn["path"] not in r.analysed:
                    r.analysed.append(fn["path"])
                if not ok:
                    r.violate("%s | add_local args" % fn["path"], F.loc(fn, c), "add_local is called with a parameter count / locals list that do not belong to the same function object (%s, %s, %s)" % (snippet(_repo(), fn["file"], args[1]["sp"]), p2, p3))
    r.count("add_local_callers", n_call)
    # emission: the runs handed to wasm_encoder::Function::new are the stored runs, one for one — each stored (count, type)
    # is appended once per pass of the conversion loop and nothing edits the counts of the vector being built
    for ei_ in F.find_fns(name="encode_internal", self_adt="Module"):
        for c in walk(ei_["body"]):
            if not (c.get("k") == "Call" and (c.get("callee") or "").endswith("wasm_encoder::Function::new") and c.get("args")):
                continue
            a0 = peel(c["args"][0])
            if not (a0.get("k") == "Path" and a0.get("res", {}).get("r") == "local"):
                continue
            xh = a0["res"]["hid"]
            edits = []
            for x in walk(ei_["body"]):
                if x.get("k") in ("Assign", "AssignOp"):
                    root_ = x["lhs"]
                    while isinstance(root_, dict) and root_.get("k") in ("Unary", "Field", "Index"):
                        root_ = root_.get("a") or root_.get("base")
                    root_ = peel(root_) if isinstance(root_, dict) else {}
                    if root_.get("k") == "Path" and root_.get("res", {}).get("hid") == xh and x["k"] == "AssignOp":
                        edits.append(x)
                    elif root_.get("k") == "Path" and root_.get("res", {}).get("r") == "local":
                        _pt, scr_, _k = binding_site(ei_["body"], root_["res"]["hid"])
                        if scr_ is not None and any(y.get("k") == "MethodCall" and y["method"] in ("last_mut", "iter_mut", "get_mut", "first_mut")
                                                    and peel(y["recv"]).get("res", {}).get("hid") == xh for y in walk(scr_)):
                            edits.append(x)
            pushes = [x for x in walk(ei_["body"]) if x.get("k") == "MethodCall" and x["method"] == "push" and peel(x["recv"]).get("res", {}).get("hid") == xh]
            cond_push = []
            for pu in pushes:
                loops_ = [m_ for m_ in walk(ei_["body"]) if m_.get("k") == "Match" and m_.get("src") == "ForLoopDesugar" and any(y is pu for y in walk(m_))]
                # the innermost loop around the push is the conversion loop
                loops_ = [m_ for m_ in loops_ if not any(o is not m_ and any(y is o for y in walk(m_)) for o in loops_)]
                for m_ in loops_:
                    if True:
                        lp_ = [y for y in walk(m_["arms"][0]["body"]) if y.get("k") == "Loop"]
                        inner_ = [y for y in walk(m_["arms"][0]["body"]) if y.get("k") == "Match" and y is not m_]
                        body_ = next((arm["body"] for arm in (inner_[0]["arms"] if inner_ else []) if arm["pat"].get("variant") == "Some"), None)
                        if body_ is not None and not every_iteration(body_, pu)[0]:
                            cond_push.append(pu)
            ok = not edits and not cond_push
            r.ob(ok, {"declared locals emitted run by run": ok})
            if not ok:
                bad_ = (edits + cond_push)[0]
                r.violate("%s | emitted locals edited" % ei_["path"], F.loc(ei_, bad_),
                          "the run-length list handed to wasm_encoder::Function::new is not the stored list copied run by run (%s): declared locals change count or position in the encoded function" % (
                              "a count of the vector being built is modified" if edits else "a stored run is appended only under a condition"))
    return r


WRAPPERS = ("clone", "to_owned", "to_vec", "into_boxed_slice", "leak", "to_string", "into", "as_str", "as_slice", "iter", "copied", "cloned", "collect", "unwrap_or_default")


def _leaf_param(e, param_hids):
    """if expression e is a parameter passed through value-preserving wrappers, return its hid"""
    e = peel(e)
    guard = 0
    while isinstance(e, dict) and guard < 12:
        guard += 1
        k = e.get("k")
        if k == "Path":
            h = e.get("res", {}).get("hid")
            return h if h in param_hids else None
        if k == "MethodCall" and e["method"] in WRAPPERS and not e["args"]:
            e = peel(e["recv"])
            continue
        if k == "Call":
            fr = e.get("fres") or {}
            # Some(x), newtype wrap, From::from(&x)
            if len(e["args"]) == 1 and (fr.get("variant") == "Some" or (e.get("callee") or "").endswith("From::from") or fr.get("dk", "").startswith("Ctor")):
                e = peel(e["args"][0])
                continue
            return None
        if k == "Cast":
            e = peel(e["a"])
            continue
        return None
    return None


def swap_flows(F):
    r = RuleResult("R-SWAP",
                   "name-aligned flows: within one struct literal or call, same-typed parameters are not crossed (P goes into the slot named Q while Q goes into the slot named P) and no parameter is duplicated into the slot named after an absent same-typed sibling (params↔results, mutable↔shared, module↔name swaps are invisible to the type checker)")
    n_flows = 0
    n_fns = 0
    for fn in F.fns:
        if fn.get("body") is None or fn["kind"] == "Closure" or not fn["file"].startswith("src/"):
            continue
        if (fn.get("impl_trait") or "").startswith(("std::", "core::")):
            continue
        params = {}
        for p in fn["params"]:
            if p["pat"].get("k") == "Binding" and p["pat"]["name"] != "self":
                params[p["pat"]["hid"]] = (p["pat"]["name"], p["ty"])
        by_ty = {}
        for h, (nm, ty) in params.items():
            by_ty.setdefault(ty, []).append(nm)
        if not any(len(v) > 1 for v in by_ty.values()):
            continue
        n_fns += 1
        touched = False

        def judge_group(slots, node, what):
            """slots: list of (slot_name, value_expr) of one literal / one call"""
            nonlocal n_flows, touched
            flow = {}   # slot -> param name
            for slot, val in slots:
                h = _leaf_param(val, params)
                if h is not None:
                    flow[slot] = params[h][0]
            for slot, pname in sorted(flow.items()):
                pty = [ty for (nm, ty) in params.values() if nm == pname][0]
                sibs = [x for x in by_ty[pty] if x != pname]
                if not sibs:
                    continue
                n_flows += 1
                touched = True
                bad = None
                if slot in sibs:
                    # P sits in the slot named after sibling Q
                    if flow.get(pname) == slot:
                        bad = "crossed with `%s`" % slot
                    elif slot not in flow.values() and list(flow.values()).count(pname) > 1:
                        bad = "`%s` is used twice and `%s` not at all" % (pname, slot)
                r.ob(bad is None, {"fn": fn["path"], "param": pname, "flows_to": "%s `%s`" % (what, slot)})
                if bad:
                    r.violate("%s | %s→%s" % (fn["path"], pname, slot), F.loc(fn, node),
                              "parameter `%s` is passed into %s `%s`, the name of another parameter of the same type (%s): %s" % (pname, what, slot, pty, bad))

        for n in walk(fn["body"]):
            if n.get("k") == "Struct" and "fields" in n and "rest" not in n and "pats" not in n:
                judge_group([(fname, val) for fname, val in n["fields"] if isinstance(val, dict) and val.get("k") not in (None, "Binding", "Wild")], n, "field")
            if n.get("k") in ("Call", "MethodCall"):
                callee = n.get("inst") or n.get("callee")
                t = F.by_path.get(callee or "")
                if t and len(t) == 1 and t[0].get("params"):
                    pn = [pp["pat"].get("name") for pp in t[0]["params"]]
                    args = ([n["recv"]] if n["k"] == "MethodCall" else []) + list(n["args"])
                    judge_group([(slot, a) for slot, a in zip(pn, args) if slot and slot != "self"], n, "parameter of %s" % t[0]["name"])
        if touched:
            r.analysed.append(fn["path"])
    r.count("functions_with_same_typed_params", n_fns)
    r.count("flows", n_flows)
    return r


# ---------------------------------------------------------------- R-FRESH-ID
KIND_FIELDS = {
    "Func": {"coll": "functions", "num_local": "num_local_functions", "num_imp": "num_funcs"},
    "Global": {"coll": "globals", "num_local": "num_local_globals", "num_imp": "num_globals"},
    "Memory": {"coll": "memories", "num_local": "num_local_memories", "num_imp": "num_memories"},
}


def _len_of(e):
    """if e is `<place>.len()` (possibly cast), return the place path"""
    e = peel(e)
    while isinstance(e, dict) and e.get("k") == "Cast":
        e = peel(e["a"])
    if isinstance(e, dict) and e.get("k") == "MethodCall" and e["method"] == "len" and not e["args"]:
        return place_path(e["recv"])
    return None


def fresh_ids(F):
    r = RuleResult("R-FRESH-ID",
                   "an entity appended to an index-addressed collection gets the id `collection.len()` read before the push (ids are positions: `get(id)` indexes the vector). Module::add_import: in the arm for import kind K the id offered when local entities exist is `self.<K collection>.len()`, the counters consulted are K's own, and the fallback (no locals) is imports.num_K; collection adders (ModuleGlobals::add, Functions::add_local_func, Memories::add_local_mem, Module::add_data) read len()/next_id() before pushing and return that value; the import adders assert the id they are given equals next_id()")
    # --- Module::add_import
    fn = F.one_fn(name="add_import", self_adt="Module")
    r.analysed.append(fn["path"])
    ms = [m for m in walk(fn["body"]) if m.get("k") == "Match" and (m.get("scrut_ty") or "").replace("&", "").startswith("wasmparser::TypeRef")]
    if len(ms) != 1:
        raise CheckError("add_import: expected one match on TypeRef, found %d" % len(ms))
    m = ms[0]
    # destructuring let binding the tuple
    tup_hids = None
    for st in walk(fn["body"]):
        if st.get("k") == "Let" and st.get("init") is m and st["pat"].get("k") == "Tuple":
            tup_hids = [b.get("hid") if b.get("k") == "Binding" else None for b in st["pat"]["pats"]]
    pos_then = pos_else = pos_cond = None
    if tup_hids:
        for n in walk(fn["body"]):
            if n.get("k") == "If":
                c = peel(n["cond"])
                t = peel(n["then"])
                e = peel(n.get("else") or {})
                if c.get("k") == "Binary" and c.get("op") in (">", "!=") and peel(c["a"]).get("res", {}).get("hid") in tup_hids and lit_int(peel(c["b"]).get("lit")) == 0 \
                        and t.get("res", {}).get("hid") in tup_hids and e.get("res", {}).get("hid") in tup_hids:
                    pos_cond = tup_hids.index(peel(c["a"])["res"]["hid"])
                    pos_then = tup_hids.index(t["res"]["hid"])
                    pos_else = tup_hids.index(e["res"]["hid"])
    shape = pos_then is not None
    n_arms = 0
    for arm in m["arms"]:
        if arm["body"].get("ty") == "!":
            continue
        vs = [leaf.get("variant") for leaf in _alts(arm["pat"]) if leaf.get("variant")]
        for v in vs:
            kf = KIND_FIELDS.get(v)
            if not kf:
                continue
            n_arms += 1
            body = peel(arm["body"])
            # (1) kind consistency of everything read from self in this arm
            reads = set()
            for x in walk(body):
                if x.get("k") == "Field":
                    reads.add(x["name"])
            foreign = set()
            for other, of in KIND_FIELDS.items():
                if other != v:
                    foreign |= (reads & set(of.values()))
            ok = not foreign
            r.ob(ok, {"arm": v, "reads": sorted(reads)})
            if not ok:
                r.violate("%s | %s arm reads %s" % (fn["path"], v, "+".join(sorted(foreign))), F.loc(fn, arm["body"]),
                          "add_import's %s arm consults another kind's bookkeeping (%s): the id it offers is not the next %s index" % (v, sorted(foreign), v.lower()))
            # (2) the len() of K's collection is the id when locals exist
            if shape and body.get("k") == "Tup" and len(body["elems"]) == len(tup_hids):
                lp = _len_of(body["elems"][pos_then])
                ok = lp == "self." + kf["coll"]
                r.ob(ok, {"arm": v, "id_when_locals_exist": lp or "not a len()"})
                if not ok:
                    r.violate("%s | %s id source" % (fn["path"], v), F.loc(fn, body["elems"][pos_then]),
                              "the id offered for a new imported %s when local ones exist is not `self.%s.len()` (ids are positions in that vector): a later lookup by this id addresses a different element" % (v.lower(), kf["coll"]))
                ce = place_path(body["elems"][pos_cond]) or ""
                ok = ce == "self." + kf["num_local"]
                r.ob(ok, {"arm": v, "guard_counter": ce})
                if not ok:
                    r.violate("%s | %s guard counter" % (fn["path"], v), F.loc(fn, body["elems"][pos_cond]), "the has-locals guard of the %s arm reads `%s`, not self.%s" % (v, ce, kf["num_local"]))
                ee = place_path(body["elems"][pos_else]) or ""
                ok = ee == "self.imports." + kf["num_imp"] or _len_of(body["elems"][pos_else]) == "self." + kf["coll"]
                r.ob(ok, {"arm": v, "id_when_no_locals": ee})
                if not ok:
                    r.violate("%s | %s fallback id" % (fn["path"], v), F.loc(fn, body["elems"][pos_else]), "the id offered for a new imported %s when there are no locals is `%s`, not self.imports.%s" % (v.lower(), ee, kf["num_imp"]))
            elif "guard" in arm or any(("guard" in a2) and v in [lf.get("variant") for lf in _alts(a2["pat"])] for a2 in m["arms"] if a2 is not arm):
                # guarded-arm shape: `K(..) if self.num_local_K > 0 => self.K.len() as u32,  K(..) => self.imports.num_K`
                if "guard" in arm:
                    gc = peel(arm["guard"])
                    okg = gc.get("k") == "Binary" and gc.get("op") in (">", "!=") and (place_path(gc["a"]) or "") == "self." + kf["num_local"] and lit_int(peel(gc["b"]).get("lit")) == 0
                    r.ob(okg, {"arm": v, "guard": place_path(gc.get("a") or {})})
                    if not okg:
                        r.violate("%s | %s guard counter" % (fn["path"], v), F.loc(fn, arm["guard"]), "the has-locals guard of the %s arm does not read self.%s > 0" % (v, kf["num_local"]))
                    lp = _len_of(body)
                    ok = lp == "self." + kf["coll"]
                    r.ob(ok, {"arm": v, "id_when_locals_exist": lp or "not a len()"})
                    if not ok:
                        r.violate("%s | %s id source" % (fn["path"], v), F.loc(fn, body),
                                  "the id offered for a new imported %s when local ones exist is not `self.%s.len()` (ids are positions in that vector): a later lookup by this id addresses a different element" % (v.lower(), kf["coll"]))
                else:
                    ee = place_path(body) or ""
                    ok = ee == "self.imports." + kf["num_imp"] or _len_of(body) == "self." + kf["coll"]
                    r.ob(ok, {"arm": v, "id_when_no_locals": ee})
                    if not ok:
                        r.violate("%s | %s fallback id" % (fn["path"], v), F.loc(fn, body), "the id offered for a new imported %s when there are no locals is `%s`, not self.imports.%s" % (v.lower(), ee, kf["num_imp"]))
            else:
                has_len = any(_len_of(x) == "self." + kf["coll"] for x in walk(body) if isinstance(x, dict) and x.get("k") in ("MethodCall", "Cast"))
                r.ob(has_len, {"arm": v, "shape": "unrecognised; len() of the collection present: %s" % has_len})
                if not has_len:
                    r.violate("%s | %s id source" % (fn["path"], v), F.loc(fn, body), "the %s arm of add_import never reads self.%s.len()" % (v, kf["coll"]))
    r.count("add_import_arms", n_arms)
    # --- collection adders: len()/next_id() before push, and that value is returned / stored as the element id
    adders = [("add", "ModuleGlobals", "globals"), ("add_local_func", "Functions", "functions"), ("add_local_mem", "Memories", "memories"), ("add_data", "Module", "data")]
    for name, adt, coll in adders:
        fn = F.one_fn(name=name, self_adt=adt)
        r.analysed.append(fn["path"])
        lens, pushes = [], []
        for x in walk(fn["body"]):
            if x.get("k") != "MethodCall":
                continue
            callee = x.get("inst") or x.get("callee") or ""
            if x["method"] == "len" and (place_path(x["recv"]) or "") == "self." + coll:
                lens.append(x)
            elif x["method"] == "next_id" and callee in F.by_path:
                t = F.by_path[callee][0]
                if any(y.get("k") == "MethodCall" and y["method"] == "len" and (place_path(y["recv"]) or "") == "self." + coll for y in walk(t["body"])):
                    lens.append(x)
            elif x["method"] == "push":
                pp = place_path(x["recv"]) or ""
                if pp == "self." + coll:
                    pushes.append(x)
                elif pp == "self" and callee in F.by_path:
                    t = F.by_path[callee][0]
                    if any(y.get("k") == "MethodCall" and y["method"] == "push" and (place_path(y["recv"]) or "") == "self." + coll for y in walk(t["body"])):
                        pushes.append(x)
        ok = len(lens) >= 1 and len(pushes) == 1 and all(uncond_before(fn["body"], l, pushes[0])[0] for l in lens)
        r.ob(ok, {"adder": fn["path"], "len_reads": len(lens), "pushes": len(pushes)})
        if not ok:
            r.violate("%s | len-before-push" % fn["path"], F.loc(fn), "%s::%s does not read self.%s.len() (or next_id()) unconditionally before its single push: the id it hands out is not the position the element gets" % (adt, name, coll))
            continue
        # the returned value derives from the len read
        id_hids = set()
        for st in walk(fn["body"]):
            if st.get("k") == "Let" and st["pat"].get("k") == "Binding" and any(y is lens[0] for y in walk(st.get("init") or {})):
                id_hids.add(st["pat"]["hid"])
        tail = fn["body"].get("expr") if fn["body"].get("k") == "Block" else None
        ret_h = {y["res"]["hid"] for y in walk(tail or {}) if y.get("k") == "Path" and y.get("res", {}).get("r") == "local"}
        ok = bool(id_hids & ret_h) and not any(y.get("k") == "Binary" for y in walk(tail or {}))
        r.ob(ok, {"adder": fn["path"], "returns_len_before_push": ok})
        if not ok:
            r.violate("%s | returned id" % fn["path"], F.loc(fn), "%s::%s does not return the length it read before pushing" % (adt, name))
    for name, adt in (("add_import_func", "Functions"), ("add_import_mem", "Memories")):
        fn = F.one_fn(name=name, self_adt=adt)
        r.analysed.append(fn["path"])
        ok = False
        for x in walk(fn["body"]):
            if x.get("k") == "Match" and "assert_eq" in (x.get("exp") or []) or (x.get("k") in ("Match", "If") and "assert_eq" in (x.get("exp") or [])):
                if any(y.get("k") == "MethodCall" and (y["method"] == "next_id" or (y["method"] == "len" and (place_path(y["recv"]) or "").startswith("self."))) for y in walk(x)):
                    ok = True        # next_id() is `<collection>.len()`: either spelling asserts id == position
        r.ob(ok, {"import adder": fn["path"], "asserts id == next_id()": ok})
        if not ok:
            r.violate("%s | id assertion" % fn["path"], F.loc(fn), "%s::%s no longer asserts that the id chosen by Module::add_import equals next_id(): a wrong id would be stored silently" % (adt, name))
    # raw pushes: an element enters an id-addressed collection only through code that gives it the id `len()` — the adders
    # above — or through the ReIndexable::push used by reorganise_generic (which re-appends an element it has just removed)
    OWN = {"functions": "Functions", "globals": "ModuleGlobals", "memories": "Memories"}
    n_raw = 0
    for fn_ in F.fns:
        if fn_.get("body") is None:
            continue
        for c in walk(fn_["body"]):
            if not (c.get("k") == "MethodCall" and c["method"] == "push"):
                continue
            rv = peel(c["recv"])
            if not (rv.get("k") == "Field" and rv["name"] in OWN and (rv.get("base_ty") or "").replace("&mut ", "").replace("&", "").split("<")[0].endswith("::" + OWN[rv["name"]])):
                continue
            n_raw += 1
            if (fn_.get("impl_trait") or "").endswith("ReIndexable") and fn_["name"] == "push":
                r.ob(True)
                continue
            base = place_path(rv["base"]) or "?"
            reads_len = [x for x in walk(fn_["body"]) if x.get("k") == "MethodCall" and x["method"] in ("len", "next_id")
                         and ((place_path(x["recv"]) or "") in (base + "." + rv["name"], base)) and uncond_before(fn_["body"], x, c)[0]]
            ok = bool(reads_len)
            r.ob(ok, {"raw push onto": "%s.%s" % (base, rv["name"]), "in": fn_["path"], "id taken from len() first": ok})
            if not ok:
                r.violate("%s | raw push onto %s" % (fn_["path"], rv["name"]), F.loc(fn_, c),
                          "%s pushes onto `%s` without taking the element's id from the collection's length first: whatever id the element carries is not its position, and every lookup by id (and the old→new id map built at encode) is off" % (fn_["name"], rv["name"]))
    r.count("raw_pushes", n_raw)
    # --- ModuleImports::add: an import enters the list by being appended, on every path, exactly once; slots of the list
    # are never re-used (the k-th import of a kind is the k-th function/global/memory of the prefix: R-COUPLED-IMPORT-ORDER)
    ia = F.one_fn(name="add", self_adt="ModuleImports")
    r.analysed.append(ia["path"])

    def cl_imp(n_):
        if n_.get("k") == "MethodCall" and n_["method"] in ("push", "insert", "swap", "swap_remove", "remove") and (place_path(n_["recv"]) or "") == "self.imports":
            return "PUSH" if n_["method"] == "push" else "OTHER:" + n_["method"]
        if n_.get("k") == "Assign":
            l_ = n_["lhs"]
            while isinstance(l_, dict) and l_.get("k") in ("Unary", "AddrOf"):
                l_ = l_.get("a")
            if isinstance(l_, dict) and l_.get("k") == "Index" and (place_path(l_["base"]) or "") == "self.imports":
                return "OVERWRITE"
            if isinstance(l_, dict) and l_.get("k") == "Field" and l_["name"] == "deleted" and "self.imports" in (place_path(l_) or ""):
                return "REVIVE"
        return None
    evs_ = {ev for ev, st_ in normal_paths(paths(ia["body"], cl_imp))}
    bad_ = sorted(ev for ev in evs_ if list(ev) != ["PUSH"])
    r.ob(not bad_, {"ModuleImports::add": "every path appends exactly once", "paths": len(evs_)})
    if bad_:
        r.violate("%s | not append-only %s" % (ia["path"], "/".join(bad_[0]) or "no push"), F.loc(ia),
                  "ModuleImports::add has a path that does not simply append the new import (%s): an import placed into an existing slot sits in front of imports added earlier, while the function/global/memory created for it is ordered behind them — the two orders no longer agree" % (list(bad_[0]) or "returns without pushing"))
    # --- id bases while parsing: `K(base + i)` in code reachable from parse, where `base` is a counter field that no
    # parse-reachable code ever writes, builds ids from a constant (the field's initial value): the local entities then
    # take ids 0.. although imports of that kind already hold them
    from vlib import mirutil
    roots = [f["path"] for f in F.fns if f["name"] in ("parse", "parse_internal", "parse_comp")
             and (f.get("self_adt") or "").endswith(("::Module", "::Component"))]
    seen, _ = mirutil.reachable_fns(F, roots, mirutil.build_callgraph(F))
    ids = {a["path"] for a in F.raw["adts"] if a["path"].startswith(ID_ADTS_PREFIX)}

    def writers(adt, field):
        inside, outside = [], []
        for g in F.all_fns:
            if g.get("body") is None:
                continue
            hit = False
            for x in walk(g["body"]):
                if x.get("k") in ("Assign", "AssignOp"):
                    l = peel(x["lhs"])
                    if l.get("k") == "Field" and l["name"] == field and _base(l.get("base_ty", "") or "") == adt:
                        hit = True
                # `&mut X.f` handed to a callee or bound to a `counter` reference: a write through it cannot be excluded
                if x.get("k") == "AddrOf" and x.get("mut"):
                    l = peel(x["a"])
                    if l.get("k") == "Field" and l["name"] == field and _base(l.get("base_ty", "") or "") == adt:
                        hit = True
                if x.get("k") == "Struct" and "pats" not in x and (x.get("adt") or "") == adt and isinstance(x.get("fields"), list):
                    for fname, val in x["fields"]:
                        v = peel(val) if isinstance(val, dict) else {}
                        zero = (v.get("k") == "Lit" and lit_int(v.get("lit")) == 0) or \
                               (v.get("k") == "Call" and "Default::default" in (v.get("callee") or v.get("inst") or "") and not v.get("args"))
                        if fname == field and not zero:
                            hit = True
            if hit:
                root = g["path"] if g["kind"] != "Closure" else g.get("parent", g["path"])
                (inside if (g["path"] in seen or root in seen) else outside).append(g["path"])
        return inside, outside
    n_bases = 0
    for p_ in sorted(seen):
        for fn_ in F.by_path.get(p_, []):
            if fn_.get("body") is None:
                continue
            for n in walk(fn_["body"]):
                if n.get("k") != "Call":
                    continue
                fr = n.get("fres") or {}
                A = fr.get("adt") if fr.get("dk", "").startswith("Ctor") or fr.get("r") == "self" else None
                if A not in ids or not n["args"]:
                    continue
                arg = peel(n["args"][0])
                if not (arg.get("k") == "Binary" and arg["op"] == "+"):
                    continue
                for side in (arg["a"], arg["b"]):
                    b = peel(side)
                    while isinstance(b, dict) and b.get("k") == "Cast":
                        b = peel(b["a"])
                    if not (isinstance(b, dict) and b.get("k") == "Field" and b.get("base_ty")):
                        continue
                    adt = _base(b["base_ty"])
                    if adt not in F.adts:
                        continue
                    inside, outside = writers(adt, b["name"])
                    n_bases += 1
                    ok = bool(inside) or not outside
                    r.ob(ok, {"fn": fn_["path"], "id": A.split("::")[-1], "base": "%s.%s" % (adt.split("::")[-1], b["name"]), "written while parsing by": inside[:3]})
                    if not ok:
                        r.violate("%s | %s base %s never written while parsing" % (fn_["path"], A.split("::")[-1], b["name"]), F.loc(fn_, n),
                                  "%s is computed as `%s.%s + i` during parsing, but no code reachable from parse writes that field (only %s do): the base is still its initial value, so the local entities take ids that imported ones already hold" % (A.split("::")[-1], adt.split("::")[-1], b["name"], ", ".join(o.split("::")[-1] for o in outside[:3])))
    r.count("parse_id_bases", n_bases)
    return r


def _alts(p):
    from vlib.facts import pat_alternatives
    return pat_alternatives(p)


# ---------------------------------------------------------------- R-IMPORT-ORDINAL
def import_ordinal(F):
    """Engler-style rule from this repository's own history (three repaired defects had this shape): the n-th *function*
    import is not the import at *position* n once a non-function import precedes it.  In a loop over the import list that
    filters by kind, the enumerate() position may be compared only with an ImportsID; an ordinal within a kind must be
    counted separately."""
    r = RuleResult("R-IMPORT-ORDINAL",
                   "in every loop over the import list that filters by import kind (is_function/is_global/is_memory or a TypeRef match), the enumerate() position is never compared with a per-kind index (function/global/memory index): positions among all imports and ordinals among one kind differ as soon as another kind of import precedes")
    n_loops = 0
    n_filtered = 0
    for fn in F.fns:
        if fn.get("body") is None:
            continue
        for m in walk(fn["body"]):
            if not (m.get("k") == "Match" and m.get("src") == "ForLoopDesugar"):
                continue
            sc = m["scrut"]
            over_imports = False
            enum = False
            for x in walk(sc):
                if x.get("k") == "MethodCall" and x["method"] == "enumerate":
                    enum = True
                if x.get("k") == "Field" and x["name"] == "imports":
                    over_imports = True
                t = x.get("ty") or ""
                if x.get("k") == "Path" and ("ModuleImports" in t or "Vec<ir::module::module_imports::Import" in t):
                    over_imports = True
                if x.get("k") == "MethodCall" and "ModuleImports" in (x.get("recv_ty") or ""):
                    over_imports = True
            if not over_imports:
                continue
            n_loops += 1
            if fn["path"] not in r.analysed:
                r.analysed.append(fn["path"])
            if not enum:
                r.ob(True, {"fn": fn["path"], "loop": "over imports, no position used"})
                continue
            # pattern (idx, item)
            pat = body = None
            for lp in walk(m["arms"][0]["body"]):
                if lp.get("k") == "Match" and lp is not m:
                    for arm in lp["arms"]:
                        if arm["pat"].get("variant") == "Some":
                            inner = arm["pat"]["pats"][0] if arm["pat"].get("pats") else (arm["pat"]["fields"][0][1] if arm["pat"].get("fields") else None)
                            pat, body = inner, arm["body"]
                    break
            if not pat or pat.get("k") != "Tuple" or not pat["pats"] or pat["pats"][0].get("k") != "Binding":
                r.ob(True, {"fn": fn["path"], "loop": "enumerate pattern not (idx, item)"})
                continue
            idx_h = pat["pats"][0]["hid"]
            filt = any((x.get("k") == "MethodCall" and x["method"] in ("is_function", "is_global", "is_memory", "is_table", "is_tag"))
                       or (x.get("k") in ("TupleStruct", "Struct", "Path") and (x.get("adt") or x.get("res", {}).get("adt") or "") == "wasmparser::TypeRef" and (x.get("variant") or x.get("res", {}).get("variant")))
                       for x in walk(body))
            if not filt:
                r.ob(True, {"fn": fn["path"], "loop": "no kind filter: position is an ImportsID"})
                continue
            n_filtered += 1
            bad = None
            for c in walk(body):
                if c.get("k") == "Binary" and c.get("op") in ("==", "!=", "<", ">", "<=", ">="):
                    for mine, other in ((c["a"], c["b"]), (c["b"], c["a"])):
                        if any(x.get("k") == "Path" and x.get("res", {}).get("hid") == idx_h for x in walk(mine)):
                            is_imports_id = any("ImportsID" in (x.get("ty") or "") for x in walk(other))
                            if not is_imports_id:
                                bad = c
            ok = bad is None
            r.ob(ok, {"fn": fn["path"], "loop": "kind-filtered enumerate over imports", "position_compared_with_non_ImportsID": not ok})
            if not ok:
                r.violate("%s | position-vs-ordinal" % fn["path"], F.loc(fn, bad),
                          "a loop over all imports that filters by kind compares the enumerate() position with a per-kind index: once a non-matching import precedes, the wrong import (or none) is selected")
    # (b) API functions of ModuleImports that translate a FunctionID (pre-edit index space: ids only move at encode time)
    #     count *every* function import, deleted or not
    n_api = 0
    for fn in F.find_fns(self_adt="ModuleImports"):
        if fn.get("body") is None:
            continue
        takes_fid = any("FunctionID" in (pm.get("ty") or "") for pm in fn.get("params", [])) or "FunctionID" in (fn.get("ret") or fn.get("sig") or "")
        if not takes_fid and fn["name"] not in ("set_fn_name", "get_func"):
            continue
        for m in walk(fn["body"]):
            if m.get("k") == "Match" and m.get("src") == "ForLoopDesugar" and any(x.get("k") == "Field" and x["name"] == "imports" for x in walk(m["scrut"])):
                if not any(x.get("k") == "MethodCall" and x["method"] in ("is_function",) for x in walk(m)):
                    continue
                n_api += 1
                reads_deleted = [x for x in walk(m) if x.get("k") == "Field" and x["name"] == "deleted"]
                ok = not reads_deleted
                r.ob(ok, {"fn": fn["path"], "counts_deleted_imports_too": ok})
                if not ok:
                    r.violate("%s | skips deleted" % fn["path"], F.loc(fn, reads_deleted[0]),
                              "%s counts function imports to translate a FunctionID but skips deleted ones: FunctionIDs keep their pre-edit values until encode, so after an earlier imported function was deleted the wrong import is addressed" % fn["name"])
    r.count("import_loops", n_loops)
    r.count("kind_filtered_enumerations", n_filtered)
    r.count("function_id_translations", n_api)
    return r


# ---------------------------------------------------------------- R-LOCAL-COUNT-GUARD
def local_count_guard(F):
    """Disjunctive rule.  Module::convert_import_fn_to_local turns an import into a local function without touching
    num_local_functions (the counter is only a lower bound of the number of local functions).  Therefore emission
    (encode_internal's code section, resolve_special_instrumentation's function walk) must not be switched off by a test of
    that counter — EITHER every guard that reads it is vacuous (`!n > 0` is true for every n < u32::MAX), OR every function
    that flips an element to FuncKind::Local also increments the counter."""
    r = RuleResult("R-LOCAL-COUNT-GUARD",
                   "code-section emission and special-instrumentation lowering are not disabled by `num_local_functions` being 0 unless every conversion to a local function maintains that counter (replace_import / convert_import_fn_to_local create local functions without incrementing it)")
    guards = []
    for name in ("encode_internal", "resolve_special_instrumentation"):
        fn = F.one_fn(name=name, self_adt="Module")
        r.analysed.append(fn["path"])
        for n in walk(fn["body"]):
            if n.get("k") == "If" and any(x.get("k") == "Field" and x["name"] == "num_local_functions" for x in walk(n["cond"])):
                c = peel(n["cond"])
                vacuous = c.get("k") == "Binary" and c.get("op") == ">" and peel(c["a"]).get("k") == "Unary" and peel(c["a"]).get("op") == "!" \
                    and peel(c["b"]).get("k") == "Lit" and lit_int(peel(c["b"])["lit"]) == 0
                guards.append((fn, n, vacuous))
    # who flips to Local, and do they bump the counter
    flippers = []
    for fn in F.fns:
        if fn.get("body") is None:
            continue
        for c in walk(fn["body"]):
            if c.get("k") == "MethodCall" and c["method"] == "set_kind" and any((x.get("fres") or {}).get("variant") == "Local" or x.get("res", {}).get("variant") == "Local" for x in walk(c)):
                bumps = any(x.get("k") == "AssignOp" and x["op"].startswith("+") and (place_path(x["lhs"]) or "").endswith("num_local_functions") for x in walk(fn["body"]))
                flippers.append((fn, c, bumps))
    exact = bool(flippers) and all(b for _, _, b in flippers)
    r.count("guards", len(guards))
    r.count("to_local_flippers", len(flippers))
    for fn, n, vac in guards:
        ok = vac or exact
        r.ob(ok, {"guard_in": fn["name"], "vacuous": vac, "counter_exact": exact})
        if not ok:
            r.violate("%s | num_local_functions guard" % fn["path"], F.loc(fn, n),
                      "%s is skipped when num_local_functions == 0, but %s make(s) local functions without incrementing that counter: in a module whose only local function replaced an import, the function's body is never lowered/emitted" % (
                          "code emission" if fn["name"] == "encode_internal" else "special-instrumentation lowering", ", ".join(sorted({f["name"] for f, _, b in flippers if not b})) or "?"))
    if not flippers:
        raise CheckError("no set_kind(FuncKind::Local ..) site found (anchor moved?)")
    return r


# ---------------------------------------------------------------- R-KIND-MIX
FAMILY = {}
for _k, _names in (("func", ("num_funcs", "num_funcs_added", "num_local_functions", "functions")),
                   ("global", ("num_globals", "num_globals_added", "num_local_globals", "globals")),
                   ("memory", ("num_memories", "num_memories_added", "num_local_memories", "memories")),
                   ("table", ("num_tables", "num_tables_added", "tables")),
                   ("tag", ("num_tags", "num_tags_added", "tags"))):
    for _n in _names:
        FAMILY[_n] = _k


def kind_mix(F):
    """The bookkeeping of the three re-indexable kinds is kept in parallel families of fields (num_X, num_X_added,
    num_local_X, the X collection).  An arithmetic expression, or the argument list of one call, that combines fields of
    two different families is a copy-paste slip: `imports.num_memories - imports.num_globals_added`."""
    r = RuleResult("R-KIND-MIX",
                   "no arithmetic expression and no single call's argument list combines bookkeeping fields of two different entity kinds (function/global/memory/table/tag counters and collections)")
    n = 0
    for fn in F.fns:
        if fn.get("body") is None:
            continue

        def fams(e):
            out = {}
            for x in walk(e):
                if x.get("k") == "Field" and x["name"] in FAMILY:
                    out.setdefault(FAMILY[x["name"]], x["name"])
            return out

        seen_spans = set()
        for e in walk(fn["body"]):
            judged = None
            if e.get("k") == "Binary" and e.get("op") in ("+", "-"):
                # only outermost arithmetic node
                judged = e
            elif e.get("k") in ("Call", "MethodCall") and e.get("args") and any("recalculate_ids" in (c or "") or "get_mapping_generic" in (c or "") or "reorganise_generic" in (c or "") for c in (e.get("callee"), e.get("inst"))):
                judged = e
            if judged is None:
                continue
            sp = tuple(judged["sp"])
            if any(s_[0] <= sp[0] and (s_[0], s_[1]) <= (sp[0], sp[1]) and (sp[2], sp[3]) <= (s_[2], s_[3]) and s_ != sp for s_ in seen_spans):
                continue
            seen_spans.add(sp)
            f = fams(judged)
            if not f:
                continue
            n += 1
            ok = len(f) == 1
            if fn["path"] not in r.analysed:
                r.analysed.append(fn["path"])
            r.ob(ok, {"fn": fn["path"], "line": judged["sp"][0], "families": sorted(f)})
            if not ok:
                r.violate("%s | mixes %s" % (fn["path"], "+".join(sorted(f.values()))), F.loc(fn, judged),
                          "one expression combines bookkeeping of different kinds (%s): the count/offset it computes belongs to neither index space" % ", ".join("%s (%s)" % (v, k) for k, v in sorted(f.items())))
    # an arm that handles exactly one kind (TypeRef::Memory, ExternalKind::Func …) touches that kind's counters only
    VK = {"Func": "func", "Function": "func", "Global": "global", "Memory": "memory", "Table": "table", "Tag": "tag"}
    for fn in F.fns:
        if fn.get("body") is None:
            continue
        for m in walk(fn["body"]):
            if m.get("k") != "Match" or not any(t in (m.get("scrut_ty") or "") for t in ("TypeRef", "ExternalKind")):
                continue
            for arm in m["arms"]:
                vs = {v for _a, v in pat_variants(arm["pat"])[0] if v}
                if len(vs) != 1 or next(iter(vs)) not in VK:
                    continue
                own = VK[next(iter(vs))]
                counters = {}
                for x in walk(arm["body"]):
                    if x.get("k") == "Field" and x["name"] in FAMILY and x["name"].startswith("num_"):
                        counters.setdefault(FAMILY[x["name"]], x["name"])
                if not counters:
                    continue
                n += 1
                foreign = {k_: v_ for k_, v_ in counters.items() if k_ != own}
                ok = not foreign
                r.ob(ok, {"fn": fn["path"], "arm": next(iter(vs)), "counters": sorted(counters.values())})
                if not ok:
                    r.violate("%s | %s arm uses %s" % (fn["path"], next(iter(vs)), "+".join(sorted(foreign.values()))), F.loc(fn, arm),
                              "the arm for %s reads or updates the bookkeeping of another kind (%s): the counters of the two kinds drift apart" % (next(iter(vs)), ", ".join(sorted(foreign.values()))))
    r.count("kind_expressions", n)
    return r


def write_to_copy(F):
    """R-WRITE-TO-COPY (zero expected): an assignment whose target is a by-value `mut` binding of a match / if-let pattern
    (`match *self { Global(mut id) => { id = new } }`, possible because the matched type is Copy) changes a temporary, not
    the matched value; when the binding is not read afterwards the assignment has no effect at all — a re-indexing step
    written that way silently does nothing."""
    r = RuleResult("R-WRITE-TO-COPY",
                   "no assignment targets a by-value `mut` pattern binding (a copy of part of the matched value) that is never read afterwards")
    n = 0
    for fn in F.fns:
        if fn.get("body") is None:
            continue
        for a in walk(fn["body"]):
            if a.get("k") not in ("Assign", "AssignOp"):
                continue
            l = peel(a["lhs"])
            if not (l.get("k") == "Path" and l.get("res", {}).get("r") == "local"):
                continue
            hid = l["res"]["hid"]
            pat, scr, kind = binding_site(fn["body"], hid)
            if pat is None or kind == "let":
                continue
            b = [x for x in walk(pat) if x.get("k") == "Binding" and x.get("hid") == hid]
            if not b or "Mut" not in (b[0].get("mode") or "") or (b[0].get("ty") or "").startswith("&"):
                continue
            n += 1
            from vlib.facts import sp_key
            read_after = any(x.get("k") == "Path" and x.get("res", {}).get("hid") == hid and x is not l and sp_key(x) > sp_key(a)
                             for x in walk(fn["body"]))
            r.ob(read_after, {"fn": fn["path"], "binding": b[0].get("name"), "read_after_write": read_after})
            if not read_after:
                r.violate("%s | write to by-value binding %s" % (fn["path"], b[0].get("name")), F.loc(fn, a),
                          "`%s` is a by-value `mut` binding of a pattern (a copy of part of the matched value): assigning to it changes the copy only, and nothing reads it afterwards — the update this code was meant to perform never happens" % b[0].get("name"))
            if fn["path"] not in r.analysed:
                r.analysed.append(fn["path"])
    r.count("by_value_binding_writes", n)
    r.obligations = max(r.obligations, 1)
    if not r.violations:
        r.discharged = max(r.discharged, 1)
    return r
