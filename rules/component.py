"""Component round trip: variant→encoder-method tables and section tag↔vector pairing."""
import re

from vlib.facts import walk, peel, place_path, pat_alternatives, pat_variants, CheckError
from vlib.report import RuleResult

CS = "ir::section::ComponentSection"


def nrm(s):
    return s.replace("_", "").lower()


def _enum_matches(fn, adt):
    out = []
    for m in walk(fn["body"]):
        if m.get("k") == "Match":
            ty = m.get("scrut_ty", "").replace("&mut ", "").replace("&", "").split("<")[0]
            if ty == adt:
                out.append(m)
    return out


def variant_method_tables(F):
    r = RuleResult("R-VARIANT-METHOD",
                   "in every arm that re-encodes a wasmparser::ComponentDefinedType / CanonicalFunction variant V, the wasm_encoder builder method invoked is the one named after V (snake_case), in every sub-arm; the two defined-type encoders (component.rs and wrappers::convert_component_type) agree")
    targets = [
        ("wasmparser::ComponentDefinedType", ["encode_comp", "convert_component_type"], ("wasm_encoder::ComponentDefinedTypeEncoder",)),
        ("wasmparser::CanonicalFunction", ["encode_comp"], ("wasm_encoder::CanonicalFunctionSection",)),
    ]
    per_site = {}
    for adt, fnames, recv_tys in targets:
        variants = F.variants(adt)
        for fname in fnames:
            fn = F.one_fn(name=fname) if fname != "encode_comp" else F.one_fn(name=fname, self_adt="Component")
            ms = _enum_matches(fn, adt)
            if not ms:
                raise CheckError("%s: no match over %s" % (fn["path"], adt))
            r.analysed.append("%s over %s" % (fn["path"], adt.split("::")[-1]))
            covered = {}
            for m in ms:
                for arm in m["arms"]:
                    for leaf in pat_alternatives(arm["pat"]):
                        v = leaf.get("variant")
                        if leaf.get("adt") != adt or not v:
                            continue
                        calls = [c for c in walk(arm["body"]) if c.get("k") == "MethodCall"
                                 and c.get("recv_ty", "").replace("&mut ", "").replace("&", "").split("<")[0] in recv_tys]
                        methods = sorted({c["method"] for c in calls})
                        covered[v] = methods
                        ok = bool(methods) and all(nrm(mt).startswith(nrm(v)) or nrm(v).startswith(nrm(mt).rstrip("_")) and nrm(mt) == nrm(v) for mt in methods)
                        ok = bool(methods) and all(nrm(mt) == nrm(v) or nrm(mt) == nrm(v) + "type" for mt in methods)
                        r.ob(ok, {"fn": fn["name"], "variant": v, "encoder_methods": methods})
                        if not ok:
                            r.violate("%s | %s::%s → %s" % (fn["path"], adt.split("::")[-1], v, "+".join(methods) or "nothing"), F.loc(fn, arm),
                                      "%s variant %s is re-encoded through %s (expected the builder method named after the variant in every sub-arm)" % (adt.split("::")[-1], v, methods or "no builder call"))
            missing = set(variants) - set(covered)
            for v in sorted(missing):
                r.ob(False)
                r.violate("%s | %s::%s unhandled" % (fn["path"], adt.split("::")[-1], v), F.loc(fn), "%s variant %s has no explicit arm" % (adt.split("::")[-1], v))
            per_site[(adt, fname)] = covered
            r.count("%s@%s" % (adt.split("::")[-1], fname), len(covered))
    # declaration enums (component / instance / module type declarations): an `Import` arm does not emit through the builder's
    # `export` method, nor an `Export` arm through `import` (the crossed pair only; the other arms delegate to converters)
    n_decl = 0
    for fn in F.fns:
        if fn.get("body") is None:
            continue
        for m in walk(fn["body"]):
            if m.get("k") != "Match" or not (m.get("scrut_ty") or "").replace("&", "").startswith("wasmparser::") or "TypeDeclaration" not in (m.get("scrut_ty") or ""):
                continue
            for arm in m["arms"]:
                for leaf in pat_alternatives(arm["pat"]):
                    v = leaf.get("variant")
                    if v not in ("Import", "Export"):
                        continue
                    methods = {c["method"] for c in walk(arm["body"]) if c.get("k") == "MethodCall" and "wasm_encoder::" in (c.get("recv_ty") or "")}
                    other = "export" if v == "Import" else "import"
                    own = v.lower()
                    n_decl += 1
                    crossed = other in methods and own not in methods
                    r.ob(not crossed, {"fn": fn["name"], "declaration": v, "builder methods": sorted(methods)})
                    if crossed:
                        r.violate("%s | %s declaration → %s" % (fn["path"], v, other), F.loc(fn, arm),
                                  "the %s arm of the type-declaration match emits through the builder's `%s` method: every %s of the nested type comes back as an %s" % (v, other, own, other))
    r.count("import_export_declaration_arms", n_decl)
    return r


def section_pairing(F):
    r = RuleResult("R-SECTION-PAIRING",
                   "for every ComponentSection tag T, the vector appended in the parse arm that records T is the Component field indexed by the encode arm for T; each encode arm advances its own cursor by one per emitted item over the range cursor..cursor+num; parse records as many items as it appends")
    pc = F.one_fn(name="parse_comp", self_adt="Component")
    ec = F.one_fn(name="encode_comp", self_adt="Component")
    r.analysed += [pc["path"], ec["path"]]
    tags = set(F.variants(CS))
    # final struct literal: local → field
    local_to_field = {}
    for n in walk(pc["body"]):
        if n.get("k") == "Struct" and (n.get("adt") or "").endswith("::Component") and "rest" not in n:
            for fname, val in n["fields"]:
                for x in walk(val):
                    if x.get("k") == "Path" and x.get("res", {}).get("r") == "local":
                        local_to_field.setdefault(x["res"]["name"], fname)
    if not local_to_field:
        raise CheckError("parse_comp: Component literal not found")
    parse_tbl = {}
    # a *record call* is any call that is handed a ComponentSection variant (add_to_sections, a method of a log struct,
    # a read-and-record helper...): tag = that variant; vectors = the IR vectors appended in the same arm or handed to
    # the call by `&mut`; count = the integer argument (or, when the callee computes it, the callee's own record call)
    pm = None
    for m in walk(pc["body"]):
        if m.get("k") == "Match" and m.get("scrut_ty", "").split("<")[0] == "wasmparser::Payload":
            pm = m
    if pm is None:
        raise CheckError("parse_comp: no match on Payload")

    def tag_of(c):
        for a_ in c.get("args", []):
            for x in walk(a_):
                if x.get("k") == "Path" and x.get("res", {}).get("adt") == CS and x["res"].get("variant"):
                    return x["res"]["variant"]
        return None

    def is_record(c):
        return c.get("k") in ("Call", "MethodCall") and tag_of(c) is not None and not (c.get("callee") or "").startswith(("std::", "core::", "alloc::"))

    def arms_with_calls(node):
        # innermost arms (payload arms or nested custom-section arms) containing a record call
        for mm in walk(node):
            if mm.get("k") == "Match":
                for arm in mm["arms"]:
                    calls = [c for c in walk(arm["body"]) if is_record(c)]
                    inner = [x for x in walk(arm["body"]) if x.get("k") == "Match" and any(is_record(c2) for a2 in x["arms"] for c2 in walk(a2["body"]))]
                    if calls and not inner:
                        yield arm, calls

    def int_arg(c):
        for a_ in c.get("args", []):
            if (a_.get("ty") or "") in ("u32", "usize", "u64", "i32") :
                return peel(a_)
        return None

    def helper_count_ok(c):
        """The record call hands the vector to a helper which appends and records: inside the helper, the record call
        that forwards the helper's own section parameter must carry a non-literal count next to append/extend, or 1 next to push."""
        from vlib.facts import lit_int
        cal = c.get("inst") or c.get("callee") or ""
        hs = [f for f in F.fns if f["path"].split("<")[0] == cal.split("<")[0] and f.get("body") is not None] or \
             [f for f in F.fns if f.get("body") is not None and cal.endswith("::" + f["name"]) and "component" in f["path"]]
        if len(hs) != 1:
            return None, None
        h = hs[0]
        phids = {b_["hid"] for pm_ in h.get("params", []) for b_ in walk(pm_["pat"]) if b_.get("k") == "Binding"}
        meths = {x["method"] for x in walk(h["body"]) if x.get("k") == "MethodCall" and x["method"] in ("append", "push", "extend")
                 and peel(x["recv"]).get("k") == "Path" and peel(x["recv"])["res"].get("hid") in phids}
        inner = [x for x in walk(h["body"]) if x.get("k") in ("Call", "MethodCall") and x is not h["body"]
                 and any(peel(a_).get("k") == "Path" and peel(a_).get("res", {}).get("hid") in phids and CS in (a_.get("ty") or "") for a_ in x.get("args", []))]
        cnts = [int_arg(x) for x in inner]
        cnts = [x for x in cnts if x is not None]
        if not meths or len(cnts) != 1:
            return None, meths
        cnt = cnts[0]
        if meths == {"push"}:
            return cnt.get("k") == "Lit" and lit_int(cnt["lit"]) == 1, meths
        return cnt.get("k") != "Lit", meths

    for arm, calls in arms_with_calls(pm):
        for c in calls:
            tag = tag_of(c)
            cnt = int_arg(c)
            vecs = []
            for x in walk(arm["body"]):
                if x.get("k") == "MethodCall" and x["method"] in ("append", "push", "extend"):
                    pp = place_path(x["recv"])
                    if pp and pp in local_to_field:
                        vecs.append((pp, x["method"]))
            handed = []
            for a_ in c.get("args", []):
                pa = peel(a_)
                if pa.get("k") == "Path" and pa.get("res", {}).get("name") in local_to_field and "Vec<" in (a_.get("ty") or pa.get("ty") or "") \
                        and CS.split("::")[-1] not in (a_.get("ty") or pa.get("ty") or ""):
                    handed.append(pa["res"]["name"])
            hk = None
            if handed and cnt is None:
                hk, hm = helper_count_ok(c)
                for v in handed:
                    vecs.append((v, "helper:" + "/".join(sorted(hm or ["?"]))))
            parse_tbl[tag] = (vecs, cnt, arm, hk)
    r.count("parse_tags", len(parse_tbl))
    enc_tbl = {}
    em = None
    for m in walk(ec["body"]):
        if m.get("k") == "Match" and m.get("scrut_ty", "").replace("&", "").split("<")[0] == CS:
            em = m
    if em is None:
        raise CheckError("encode_comp: no match on ComponentSection")
    inside = {id(x) for x in walk(em)}
    outer_ints = {st["pat"]["hid"] for st in walk(ec["body"]) if st.get("k") == "Let" and id(st) not in inside and st["pat"].get("k") == "Binding"
                  and (st["pat"].get("ty") or "") in ("u32", "usize", "u64", "i32") and "Mut" in (st["pat"].get("mode") or "")}
    ir_fields = set(local_to_field.values())
    # `num`: the integer bound together with the section tag by the pattern that feeds the match
    num_hids = set()
    sc = peel(em["scrut"]) if "scrut" in em else None
    if sc is not None and sc.get("k") == "Path" and sc.get("res", {}).get("r") == "local":
        from vlib.facts import binding_site
        pat_, _scr, _k = binding_site(ec["body"], sc["res"]["hid"])
        if pat_ is not None:
            num_hids = {b["hid"] for b in walk(pat_) if b.get("k") == "Binding" and (b.get("ty") or "").lstrip("&") in ("u32", "usize", "u64")}
    for arm in em["arms"]:
        for leaf in pat_alternatives(arm["pat"]):
            if leaf.get("adt") == CS and leaf.get("variant"):
                fields = set()
                for x in walk(arm["body"]):
                    # any read of an IR vector of the component (indexing, slicing, iterating): `self.<field>` outside assertions
                    if x.get("k") == "Field" and peel(x["base"]).get("k") == "Path" and peel(x["base"])["res"].get("name") == "self" \
                            and x["name"] in ir_fields and not any("assert" in e_ for e_ in (x.get("exp") or [])):
                        fields.add(x["name"])
                for x in walk(arm["body"]):
                    if x.get("k") == "Index":
                        pp = place_path(x["base"]) or ""
                        if pp.startswith("self."):
                            fields.add(pp.split(".")[1])
                    if x.get("k") == "MethodCall" and x["method"] in ("get_by_id", "get") and (place_path(x["recv"]) or "").startswith("self."):
                        fields.add((place_path(x["recv"]) or "").split(".")[1])
                # cursors: integer locals that live across sections (declared outside the section match) and are written here
                cursors = set()
                for x in walk(arm["body"]):
                    if x.get("k") in ("AssignOp", "Assign"):
                        l = peel(x["lhs"])
                        if l.get("k") == "Path" and l.get("res", {}).get("hid") in outer_ints:
                            cursors.add(l["res"]["name"])
                enc_tbl[leaf["variant"]] = (fields, cursors, arm)
    r.count("encode_tags", len(enc_tbl))
    used_cursors = {}
    for t in sorted(tags):
        p = parse_tbl.get(t)
        e = enc_tbl.get(t)
        if p is None or e is None:
            r.ob(False)
            r.violate("%s | tag %s" % (pc["path"] if p is None else ec["path"], t), F.loc(pc if p is None else ec),
                      "ComponentSection::%s is %s" % (t, "never recorded by parse_comp" if p is None else "not replayed by encode_comp"))
            continue
        vecs, cnt, parm, hk = p
        pf = {local_to_field[v] for v, _ in vecs}
        ef, cursors, earm = e
        ok = len(pf) == 1 and pf <= ef and len(ef) == 1
        r.ob(ok, {"tag": t, "parse_appends_to": sorted(pf), "encode_indexes": sorted(ef), "cursor": sorted(cursors)})
        if not ok:
            r.violate("%s | %s vectors" % (ec["path"], t), F.loc(ec, earm),
                      "ComponentSection::%s: parse appends to %s but encode replays from %s" % (t, sorted(pf), sorted(ef)))
        has_loop = any(x.get("k") == "Match" and x.get("src") == "ForLoopDesugar" for x in walk(earm["body"]))
        ok = len(cursors) == 1 if has_loop else len(cursors) <= 1
        r.ob(ok)
        if not ok:
            r.violate("%s | %s cursor" % (ec["path"], t), F.loc(ec, earm), "encode arm for %s advances cursors %s (expected exactly one)" % (t, sorted(cursors)))
        for c in cursors:
            used_cursors.setdefault(c, []).append(t)
        # the cursor ends `num` further: `+= 1` once per replayed item, or `+= num` / `= cursor + num` once after the loop
        if len(cursors) == 1 and has_loop:
            bad = _cursor_advance(ec, earm, outer_ints, num_hids)
            r.ob(bad is None, {"tag": t, "cursor advance": "by num" if bad is None else bad[1]})
            if bad is not None:
                r.violate("%s | %s cursor" % (ec["path"], t), F.loc(ec, bad[0]),
                          "encode arm for %s: %s — after this section the cursor does not point past the %s items it replayed, so the next section of the same kind replays the wrong items" % (t, bad[1], t))
        # count recorded equals items appended: `push` ⇒ literal 1, `append(temp)` ⇒ temp.len()
        meths = {m for _, m in vecs}
        if cnt is None:
            if hk is None:
                r.undecided("parse arm for %s: the count recorded by the callee could not be related to the items appended" % t)
                continue
            okc = hk
        elif meths == {"push"}:
            from vlib.facts import lit_int
            okc = cnt.get("k") == "Lit" and lit_int(cnt["lit"]) == 1
        else:
            okc = cnt.get("k") != "Lit"
        r.ob(okc, {"tag": t, "count_expr_kind": (cnt or {}).get("k"), "append_methods": sorted(meths)})
        if not okc:
            r.violate("%s | %s count" % (pc["path"], t), F.loc(pc, parm), "parse records a count for %s that does not match the number of items appended" % t)
    for c, ts in used_cursors.items():
        ok = len(ts) == 1
        r.ob(ok)
        if not ok:
            r.violate("%s | cursor %s shared" % (ec["path"], c), F.loc(ec), "cursor %s is shared by sections %s" % (c, ts))
    return r


def _cursor_advance(fn, arm, cursor_hids, num_hids):
    """None when every write of the arm's cursor is a recognised advance by `num` in total; otherwise (node, why).
    Only positive contradictions are reported: a literal step other than 1, a per-item step that is conditional, a
    whole-run step inside the item loop, an assignment of something other than cursor + num."""
    from vlib.facts import lit_int, every_iteration
    lets = {st["pat"]["hid"]: st for st in walk(arm["body"]) if st.get("k") == "Let" and st["pat"].get("k") == "Binding" and "init" in st
            and "Mut" not in (st["pat"].get("mode") or "")}

    def strip(e):
        while True:
            e = peel(e)
            if e.get("k") == "Cast":
                e = e["a"]
                continue
            if e.get("k") == "Path" and e.get("res", {}).get("hid") in lets:
                e = lets[e["res"]["hid"]]["init"]
                continue
            if e.get("k") == "MethodCall" and e["method"] in ("clone", "into", "try_into", "unwrap") and not e.get("args"):
                e = e["recv"]
                continue
            return e

    def is_num(e):
        e = strip(e)
        return e.get("k") == "Path" and e.get("res", {}).get("hid") in num_hids

    def is_cur(e, h):
        e = strip(e)
        return e.get("k") == "Path" and e.get("res", {}).get("hid") == h

    loops = [m for m in walk(arm["body"]) if m.get("k") == "Match" and m.get("src") == "ForLoopDesugar"]
    in_loop = set()
    for m in loops:
        in_loop |= {id(x) for x in walk(m["arms"][0]["body"])}
    for x in walk(arm["body"]):
        if x.get("k") not in ("AssignOp", "Assign"):
            continue
        l = peel(x["lhs"])
        if not (l.get("k") == "Path" and l.get("res", {}).get("hid") in cursor_hids):
            continue
        h = l["res"]["hid"]
        inside = id(x) in in_loop
        if x["k"] == "AssignOp":
            if x["op"] not in ("+=", "+"):
                return x, "the cursor is updated with `%s`" % x["op"]
            rhs = strip(x["rhs"])
            if rhs.get("k") == "Lit":
                if lit_int(rhs["lit"]) != 1:
                    return x, "the cursor is stepped by %s per item" % lit_int(rhs["lit"])
                if not inside:
                    return x, "the cursor is stepped by one outside the item loop (once per section instead of once per item)"
                outer = [m for m in loops if id(x) in {id(y) for y in walk(m["arms"][0]["body"])}][0]
                lp = [y for y in walk(outer["arms"][0]["body"]) if y.get("k") == "Loop"][0]
                per_item = None
                for mm in walk(lp["body"]):
                    if mm.get("k") == "Match" and mm is not outer:
                        for a2 in mm["arms"]:
                            if a2["pat"].get("variant") == "Some":
                                per_item = a2["body"]
                        break
                if per_item is not None and any(y is x for y in walk(per_item)) and not every_iteration(per_item, x)[0]:
                    return x, "the per-item step of the cursor is skipped on some iterations"
            elif is_num(rhs):
                if inside:
                    return x, "the cursor is advanced by the whole run inside the item loop"
            # other right-hand sides: not understood, no verdict
        else:
            rhs = strip(x["rhs"])
            if rhs.get("k") == "Binary" and rhs.get("op") == "+":
                a, b = rhs["a"], rhs["b"]
                if (is_cur(a, h) and is_num(b)) or (is_cur(b, h) and is_num(a)):
                    if inside:
                        return x, "the cursor is advanced by the whole run inside the item loop"
                    continue
            if is_num(rhs) or rhs.get("k") == "Lit":
                return x, "the cursor is overwritten with %s instead of being advanced by the run length" % ("the run length" if is_num(rhs) else "a constant")
            # other right-hand sides: not understood, no verdict
    return None


# ---------------------------------------------------------------- R-NEST-TRACK / R-REC-DISPATCH
def nest_track(F):
    """parse_all yields the payloads of everything nested below a component inline.  An activation of parse_comp must
    therefore (1) open a nesting level for every ModuleSection/ComponentSection payload it meets — both in its own match
    arms and while it is skipping the payloads of a nested item — and (2) close one level per End.  Otherwise sections
    that follow a deeply nested item are attributed to an outer component."""
    from vlib.facts import conditional_ancestors, pat_variants
    r = RuleResult("R-NEST-TRACK",
                   "Component::parse_comp opens one nesting level for every ModuleSection/ComponentSection payload in its stream (in the handling arms and in the skip branch alike) and closes one per End; nothing else touches the nesting stack")
    fn = F.one_fn(name="parse_comp", self_adt="Component")
    r.analysed.append(fn["path"])
    stacks = [st["pat"]["hid"] for st in walk(fn["body"]) if st.get("k") == "Let" and st["pat"].get("k") == "Binding" and "Encoding>" in (st["pat"].get("ty") or "")]
    if len(stacks) == 0 and any(st.get("k") == "Let" and st["pat"].get("k") == "Binding" and st["pat"].get("ty") in ("usize", "u32", "u64", "i32")
                                and any(x.get("k") == "AssignOp" and peel(x["lhs"]).get("res", {}).get("hid") == st["pat"]["hid"] for x in walk(fn["body"]))
                                for st in walk(fn["body"])):
        # the nesting is tracked by a depth counter instead of a stack of encodings (the stack's elements are never read):
        # a representation this rule's push/pop clauses are not written for — not decided, no alarm
        r.undecided("parse_comp tracks nesting with a counter, not a Vec<Encoding> stack: open/close pairing not decided for this representation")
        return r
    if len(stacks) != 1:
        raise CheckError("parse_comp: expected one local nesting stack (Vec<Encoding>), found %d" % len(stacks))
    H = stacks[0]

    def on_stack(n, methods):
        return n.get("k") == "MethodCall" and n["method"] in methods and peel(n["recv"]).get("res", {}).get("hid") == H

    pushes = [n for n in walk(fn["body"]) if on_stack(n, ("push",))]
    pops = [n for n in walk(fn["body"]) if on_stack(n, ("pop",))]
    others = [n for n in walk(fn["body"]) if on_stack(n, ("clear", "truncate", "insert", "remove", "drain", "extend", "append"))]
    ok = not others
    r.ob(ok)
    if not ok:
        r.violate("%s | foreign stack edit" % fn["path"], F.loc(fn, others[0]), "the nesting stack is edited by `%s`" % others[0]["method"])
    # skip branch: `if !stack.is_empty() { .. continue }`
    skip_if = None
    for n in walk(fn["body"]):
        if n.get("k") == "If" and any(on_stack(x, ("is_empty",)) for x in walk(n["cond"])) and any(x.get("k") == "Continue" for x in walk(n["then"])):
            skip_if = n
    if skip_if is None:
        raise CheckError("parse_comp: skip branch `if !stack.is_empty() { continue }` not found")
    for variant in ("ModuleSection", "ComponentSection"):
        # in the skip branch
        found = False
        for mm in walk(skip_if["then"]):
            arms = []
            if mm.get("k") == "Match":
                arms = mm["arms"]
            elif mm.get("k") == "If" and peel(mm["cond"]).get("k") == "LetExpr":
                arms = [{"pat": peel(mm["cond"])["pat"], "body": mm["then"]}]
            for arm in arms:
                if any(v == variant for _, v in pat_variants(arm["pat"])[0]) and any(on_stack(x, ("push",)) and not conditional_ancestors(arm["body"], x) for x in walk(arm["body"])):
                    found = True
        r.ob(found, {"skip branch opens a level for": variant, "ok": found})
        if not found:
            r.violate("%s | skip-branch %s" % (fn["path"], variant), F.loc(fn, skip_if),
                      "while skipping the payloads of a nested item, a %s payload does not open a nesting level: its End closes the enclosing level early and the sections that follow a doubly nested item are attributed to this (outer) component" % variant)
        # in the handling arm
        found = 0
        for mm in walk(fn["body"]):
            if mm.get("k") == "Match" and "Payload" in (mm.get("scrut_ty") or "") and not any(x is mm for x in walk(skip_if)):
                for arm in mm["arms"]:
                    if any(v == variant for _, v in pat_variants(arm["pat"])[0]):
                        found = sum(1 for x in walk(arm["body"]) if on_stack(x, ("push",)) and not conditional_ancestors(arm["body"], x))
        ok = found == 1
        r.ob(ok, {"handling arm opens exactly one level for": variant, "pushes": found})
        if not ok:
            r.violate("%s | arm %s" % (fn["path"], variant), F.loc(fn), "the %s arm opens %d nesting levels (expected exactly 1, unconditionally)" % (variant, found))
    # End pops once, guarded only by End-ness and non-emptiness
    ok = len(pops) == 1
    if ok:
        conds = conditional_ancestors(fn["body"], pops[0]) or []
        kinds = []
        for c in conds:
            cd = peel(c.get("cond") or {})
            if cd.get("k") == "LetExpr" and any(v == "End" for _, v in pat_variants(cd["pat"])[0]):
                kinds.append("end")
            elif cd.get("k") == "Match" and any(any(v == "End" for _, v in pat_variants(a_["pat"])[0]) and "Bool(true)" in str(peel(a_["body"]).get("lit"))
                                               for a_ in cd.get("arms", [])) and any(x is pops[0] for x in walk(c.get("then") or {})):
                kinds.append("end")       # `if matches!(payload, Payload::End(..)) { .. }`
            elif c.get("k") == "Match" and "Payload" in (c.get("scrut_ty") or "") and any(
                    any(v == "End" for _, v in pat_variants(a_["pat"])[0]) and any(x is pops[0] for x in walk(a_["body"])) for a_ in c.get("arms", [])):
                kinds.append("end")       # `match payload { Payload::End(..) => { .. } .. }`
            elif any(on_stack(x, ("is_empty",)) for x in walk(c.get("cond") or {})):
                kinds.append("nonempty")
            elif c.get("k") == "Match" and c.get("src") == "ForLoopDesugar":
                pass
            else:
                kinds.append("other")
        ok = "end" in kinds and "other" not in kinds
    r.ob(ok, {"End closes one level": ok})
    if not ok:
        r.violate("%s | End pop" % fn["path"], F.loc(fn), "a Payload::End does not close exactly one nesting level (pops=%d)" % len(pops))
    r.count("stack_pushes", len(pushes))
    # configuration is inherited: a bool parameter of parse_comp (`enable_multi_memory`) is handed on unchanged to the
    # recursive parse of a nested component and to the parse of a nested core module — a literal there makes the meaning of the
    # caller's flag depend on the nesting depth
    flags = [(i, pm["pat"]["hid"], pm["pat"].get("name")) for i, pm in enumerate(fn.get("params") or []) if pm.get("ty") == "bool" and pm["pat"].get("k") == "Binding"]
    for c in walk(fn["body"]):
        if c.get("k") != "Call":
            continue
        tgt_ = F.by_path.get(c.get("inst") or c.get("callee") or "")
        if not tgt_ or len(tgt_) != 1 or tgt_[0]["name"] not in ("parse_comp", "parse_internal"):
            continue
        for _i, hid_, nm_ in flags:
            j = next((k_ for k_, pm in enumerate(tgt_[0].get("params") or []) if pm.get("ty") == "bool" and pm["pat"].get("name") == nm_), None)
            if j is None or j >= len(c["args"]):
                continue
            a_ = peel(c["args"][j])
            okf = a_.get("k") == "Path" and a_.get("res", {}).get("hid") == hid_
            if a_.get("k") == "Lit":
                r.ob(False, {"nested parse": tgt_[0]["name"], "flag": nm_, "passed": "a literal"})
                r.violate("%s | %s not forwarded to %s" % (fn["path"], nm_, tgt_[0]["name"]), F.loc(fn, c),
                          "the nested call of %s is given a literal for `%s` instead of the caller's value: what a module may contain depends on how deeply it is nested" % (tgt_[0]["name"], nm_))
            elif okf:
                r.ob(True, {"nested parse": tgt_[0]["name"], "flag": nm_, "passed": "forwarded"})
            else:
                r.undecided("%s: `%s` reaches %s through an expression that is not followed" % (fn["path"], nm_, tgt_[0]["name"]))
    # the recursive parse is handed the bytes of the nested component together with the absolute offset those bytes start
    # at: nested_bytes(wasm, &R, start) cuts R out of the current slice, so the callee's `start` is exactly R.start
    # (parser ranges are absolute); anything else makes every range of a deeper item relative to the wrong origin
    for c in walk(fn["body"]):
        if c.get("k") == "Call" and (c.get("callee") or "").endswith("parse_comp") and len(c["args"]) >= 4:
            nb = [x for x in walk(c["args"][0]) if x.get("k") == "Call" and (x.get("callee") or "").endswith("nested_bytes")]
            rng = None
            if nb and len(nb[0]["args"]) >= 2:
                rng = place_path(nb[0]["args"][1])
            if rng is None:
                # the slice is cut in place (`wasm.get(R.start - start .. R.end - start)`, possibly through lets / let-else):
                # R is the range whose .start/.end the bytes argument derives from
                from vlib.facts import binding_site
                seen_, todo_, cands = set(), [c["args"][0]], set()
                while todo_ and len(seen_) < 40:
                    e_ = todo_.pop()
                    for y in walk(e_):
                        if y.get("k") == "Field" and y["name"] in ("start", "end") and place_path(y["base"]):
                            cands.add(place_path(y["base"]))
                        if y.get("k") == "Path" and y.get("res", {}).get("r") == "local" and y["res"]["hid"] not in seen_:
                            seen_.add(y["res"]["hid"])
                            _p, scr_, _k = binding_site(fn["body"], y["res"]["hid"])
                            if scr_ is not None:
                                todo_.append(scr_)
                if len(cands) == 1:
                    rng = next(iter(cands))
                elif not cands:
                    r.undecided("parse_comp: how the bytes of a nested component are cut out of the input was not recognised")
                    continue
            # which argument is the offset: the position of the parameter this function itself subtracts from parser ranges
            # (handed to nested_bytes / used in `R.start - start`); parse_comp may take other usize parameters (a depth)
            st_arg = None
            off_hids = set()
            for x in walk(fn["body"]):
                if x.get("k") == "Call" and (x.get("callee") or "").endswith("nested_bytes") and len(x["args"]) >= 3:
                    v_ = peel(x["args"][2])
                    if v_.get("k") == "Path" and v_.get("res", {}).get("r") == "local":
                        off_hids.add(v_["res"]["hid"])
                if x.get("k") == "Binary" and x.get("op") == "-" and peel(x["a"]).get("k") == "Field" and peel(x["a"])["name"] in ("start", "end"):
                    v_ = peel(x["b"])
                    if v_.get("k") == "Path" and v_.get("res", {}).get("r") == "local":
                        off_hids.add(v_["res"]["hid"])
            off_idx = [i for i, pm in enumerate(fn.get("params") or []) if pm["pat"].get("hid") in off_hids]
            if len(off_idx) == 1 and off_idx[0] < len(c["args"]):
                st_arg = c["args"][off_idx[0]]
            else:
                us = [a_ for a_ in c["args"][1:] if a_.get("ty") == "usize"]
                if len(us) == 1:
                    st_arg = us[0]
                else:
                    r.undecided("parse_comp: which of its %d usize arguments is the absolute offset was not recognised" % len(us))
                    continue
            ok = rng is not None and st_arg is not None and peel(st_arg).get("k") == "Field" and place_path(st_arg) == rng + ".start"
            r.ob(ok, {"nested start offset": place_path(st_arg) if st_arg is not None and peel(st_arg).get("k") == "Field" else "computed", "range": rng})
            if not ok:
                r.violate("%s | nested start offset" % fn["path"], F.loc(fn, c), "the recursive parse of a nested component does not receive `<range>.start` of the very range its bytes were cut from as the new absolute offset: items nested one level further are sliced at the wrong position")
    # recursion uses a fresh activation (no stack is shared between levels) or, if a stack parameter exists, passes its own
    for c in walk(fn["body"]):
        if c.get("k") == "Call" and (c.get("callee") or "").endswith("parse_comp"):
            shared = [a for a in c["args"] if "Encoding>" in (a.get("ty") or "")]
            for a in shared:
                root = peel(a)
                ok = root.get("k") == "Path" and root.get("res", {}).get("hid") == H
                r.ob(ok)
                if not ok:
                    r.violate("%s | recursive stack" % fn["path"], F.loc(fn, c), "the recursive parse of a nested component is handed a stack that is not this activation's own")
    return r


def rec_dispatch(F):
    """Sibling rule: every place that re-emits a recursion group chooses between `.rec(group)` and per-type `.subtype(..)`
    by the group's explicitness; an unconditional `.rec(..)` turns every plain type into an explicit one-element group
    (a different type section, and a different type identity under iso-recursive equality)."""
    from vlib.facts import conditional_ancestors
    r = RuleResult("R-REC-DISPATCH",
                   "every `.rec(..)` emission of a type group is guarded by the group's explicitness (is_explicit / is_explicit_rec_group()); implicit groups are emitted type by type")
    n = 0
    for fn in F.fns:
        if fn.get("body") is None:
            continue
        for c in walk(fn["body"]):
            if c.get("k") == "MethodCall" and c["method"] == "rec" and "wasm_encoder" in (c.get("inst") or c.get("callee") or ""):
                n += 1
                if fn["path"] not in r.analysed:
                    r.analysed.append(fn["path"])
                conds = conditional_ancestors(fn["body"], c) or []
                ok = False
                for a in conds:
                    cd = a.get("cond") or {}
                    for x in walk(cd):
                        if (x.get("k") == "MethodCall" and x["method"] == "is_explicit_rec_group") or \
                           (x.get("k") == "Path" and x.get("res", {}).get("name") == "is_explicit") or (x.get("k") == "Field" and x["name"] == "is_explicit"):
                            ok = True
                r.ob(ok, {"fn": fn["path"], "rec_emission_line": c["sp"][0], "guarded_by_explicitness": ok})
                if not ok:
                    r.violate("%s | unconditional rec" % fn["path"], F.loc(fn, c), "a type group is emitted with `.rec(..)` without checking that it is an explicit recursion group: plain types come back as one-element rec groups")
    # the module's own types reach the type section only as subtypes built by encode_type (`.subtype(..)` / `.rec(..)`): the
    # shorthand builders (`.function(..)`, `.array(..)`, `.struct_(..)`) cannot express is_final / shared / a supertype
    mi = F.find_fns(name="encode_internal", self_adt="Module")
    for fn in mi:
        short = [c for c in walk(fn["body"]) if c.get("k") == "MethodCall" and "CoreTypeEncoder" in (c.get("recv_ty") or "")
                 and c["method"] in ("function", "func_type", "array", "struct_", "cont")]
        r.ob(not short, {"fn": fn["path"], "shorthand type builders": [c["method"] for c in short]})
        for c in short:
            r.violate("%s | shorthand .%s" % (fn["path"], c["method"]), F.loc(fn, c),
                      "a module type is written with the shorthand builder `.%s(..)` instead of the subtype built by encode_type: is_final, shared and the supertype of such a type are not encoded" % c["method"])
    r.count("rec_emissions", n)
    if n < 3:
        raise CheckError("expected ≥3 `.rec(..)` emission sites (module, component core types ×2, module-type declarations), found %d" % n)
    return r



def name_section_guard(F):
    """R-NAME-GUARD: if the emission of the component name section is conditional, the condition must take every name
    map that is appended to it into account (otherwise a component that only names the omitted kinds loses the section)."""
    r = RuleResult("R-NAME-GUARD",
                   "Component::encode_comp emits the component-name section unconditionally, or under a condition that mentions every name map it appends")
    fn = F.one_fn(name="encode_comp", self_adt="Component")
    r.analysed.append(fn["path"])
    from vlib.facts import conditional_ancestors
    appended = set()
    for c in walk(fn["body"]):
        if c.get("k") == "MethodCall" and "ComponentNameSection" in (c.get("recv_ty") or "") and c["args"]:
            for x in walk(c["args"][0]):
                if x.get("k") == "Field" and (x["name"].endswith("_names") or x["name"].endswith("_name")):
                    appended.add(x["name"])
    sinks = [c for c in walk(fn["body"]) if c.get("k") == "MethodCall" and c["method"] == "section" and c["args"] and "ComponentNameSection" in (c["args"][0].get("ty") or "")]
    if len(sinks) != 1 or len(appended) < 8:
        raise CheckError("encode_comp: name section emission not found (sinks=%d, name maps=%d)" % (len(sinks), len(appended)))
    r.count("name_maps_appended", len(appended))
    conds = conditional_ancestors(fn["body"], sinks[0]) or []
    mentioned = set()
    for c_ in conds:
        cd = c_.get("cond") or {}
        stack_, seen = [cd], set()
        while stack_:
            e_ = stack_.pop()
            for x in walk(e_):
                if x.get("k") == "Field":
                    mentioned.add(x["name"])
                if x.get("k") == "Path" and x.get("res", {}).get("r") == "local" and x["res"]["hid"] not in seen:
                    seen.add(x["res"]["hid"])
                    for st in walk(fn["body"]):
                        if st.get("k") == "Let" and st["pat"].get("hid") == x["res"]["hid"] and "init" in st:
                            stack_.append(st["init"])
    # parse side: every kind of component-name subsection is collected into a map of its own (two kinds sharing one map are
    # merged: one kind's names leak into the other's subsection and its own subsection vanishes)
    pc = F.one_fn(name="parse_comp", self_adt="Component")
    r.analysed.append(pc["path"])
    for m_ in walk(pc["body"]):
        if not (m_.get("k") == "Match" and (m_.get("scrut_ty") or "").replace("&", "").split("<")[0] == "wasmparser::ComponentName"):
            continue
        tgt = {}
        for arm in m_["arms"]:
            vs_ = [v for a, v in pat_variants(arm["pat"])[0] if a == "wasmparser::ComponentName"]
            dst = set()
            for x in walk(arm["body"]):
                if x.get("k") == "AddrOf" and x.get("mut") and peel(x["a"]).get("k") == "Path" and peel(x["a"]).get("res", {}).get("r") == "local":
                    dst.add(peel(x["a"])["res"].get("name"))
                if x.get("k") == "Assign" and peel(x["lhs"]).get("k") == "Path" and peel(x["lhs"]).get("res", {}).get("r") == "local":
                    dst.add(peel(x["lhs"])["res"].get("name"))
            for v in vs_:
                if len(dst) == 1:
                    tgt[v] = next(iter(dst))
        by_dst = {}
        for v, d in tgt.items():
            by_dst.setdefault(d, []).append(v)
        clash = {d: sorted(vs) for d, vs in by_dst.items() if len(vs) > 1}
        r.ob(not clash, {"component name kinds collected": len(tgt), "kinds sharing one map": clash})
        if clash:
            d0 = sorted(clash)[0]
            r.violate("%s | name kinds %s share %s" % (pc["path"], "+".join(clash[d0]), d0), F.loc(pc, m_),
                      "component-name subsections %s are both collected into `%s`: the names of one kind are re-emitted under the other and its own subsection is lost" % (clash[d0], d0))
    # only guards that talk about names at all are judged (an enclosing `match section_kind` is not a names guard)
    guards_names = bool(mentioned & appended)
    missing = sorted(appended - mentioned) if guards_names else []
    ok = not missing
    r.ob(ok, {"name section guarded": guards_names, "maps_not_considered": missing})
    if not ok:
        r.violate("%s | name guard misses %s" % (fn["path"], "+".join(missing)), F.loc(fn, sinks[0]), "the component-name section is emitted only if some of the name maps are non-empty, but %s are appended to it without being considered: a component that names only those loses its name section" % missing)
    return r


# ---------------------------------------------------------------- R-CONVERTER-SIBLINGS
def converter_siblings(F):
    """The component converters (process_alias, convert_instance_type, convert_component_type, convert_module_type_declaration,
    the arms of encode_comp …) re-encode the same wasmparser items in several places.  For every struct-like variant that two
    or more of them match, each must *use* the same fields of it: a converter that binds or drops a field its sibling
    re-encodes (e.g. the `kind` of an outer alias) silently replaces it by a constant."""
    from vlib.facts import pat_alternatives
    r = RuleResult("R-CONVERTER-SIBLINGS",
                   "two converters that match the same wasmparser struct-variant use the same fields of it (print_* functions and From impls excluded)")
    use = {}
    for fn in F.fns:
        if fn.get("body") is None or fn["name"].startswith("print") or fn.get("impl_trait"):
            continue
        if not (fn["path"].startswith("ir::wrappers::") or fn["name"] in ("encode_comp",)):
            continue
        for m in walk(fn["body"]):
            if m.get("k") != "Match":
                continue
            for arm in m["arms"]:
                for leaf in pat_alternatives(arm["pat"]):
                    adt = leaf.get("adt") or ""
                    if leaf.get("k") == "Struct" and adt.startswith("wasmparser::") and not adt.endswith("::Operator") and leaf.get("variant"):
                        bound = {fname: sub["hid"] for fname, sub in leaf["fields"] if sub.get("k") == "Binding"}
                        refs = {x["res"]["hid"] for x in walk(arm["body"]) if x.get("k") == "Path" and x.get("res", {}).get("r") == "local"}
                        used = frozenset(f for f, h in bound.items() if h in refs)
                        use.setdefault((adt, leaf["variant"]), []).append((fn, arm, used))
    n = 0
    for (adt, variant), sites in sorted(use.items()):
        fns = {s[0]["path"] for s in sites}
        if len(fns) < 2:
            continue
        n += 1
        union = frozenset().union(*[u for _, _, u in sites])
        for fn, arm, used in sites:
            ok = used == union
            r.ob(ok, {"variant": "%s::%s" % (adt.split("::")[-1], variant), "converter": fn["name"], "uses": sorted(used)})
            if not ok:
                r.violate("%s | %s::%s ignores %s" % (fn["path"], adt.split("::")[-1], variant, "+".join(sorted(union - used))), F.loc(fn, arm),
                          "%s re-encodes %s::%s without its field(s) %s, which the sibling converter(s) %s do re-encode: the field is replaced by a constant" % (
                              fn["name"], adt.split("::")[-1], variant, sorted(union - used), sorted({s[0]["name"] for s in sites if s[0] is not fn})))
        r.analysed.append("%s::%s in %s" % (adt.split("::")[-1], variant, sorted(f.split("::")[-1] for f in fns)))
    r.count("shared_variants", n)
    return r


# ---------------------------------------------------------------- R-COUPLED-COUNT
def coupled_counts(F):
    """Component keeps `num_modules` next to `modules` (ComponentIterator::new sizes its walk by the counter, encode walks the
    vector).  The pair is discovered from the parse-time literal (`num_X: <vec>.len()` beside `X: <vec>`); every method of the
    type that pushes onto the vector must bump the counter by one on the same path, and nothing else may write the counter."""
    from vlib.paths import paths, normal_paths
    r = RuleResult("R-COUPLED-COUNT",
                   "a counter field initialised from the length of a sibling vector field stays in step: every push onto the vector is accompanied by `counter += 1` on the same path")
    pairs = set()
    for fn in F.fns:
        if fn.get("body") is None:
            continue
        lets = {st["pat"]["hid"]: st for st in walk(fn["body"]) if st.get("k") == "Let" and st["pat"].get("k") == "Binding" and "init" in st}
        for lit in walk(fn["body"]):
            if lit.get("k") != "Struct" or not (lit.get("adt") or "").endswith(("::Component", "::Module")) or "rest" in lit:
                continue
            fields = dict((f_[0], f_[1]) for f_ in lit.get("fields", []) if isinstance(f_, list))
            vec_of = {}
            for fname, val in fields.items():
                v = peel(val)
                if v.get("k") == "Path" and v.get("res", {}).get("r") == "local" and "Vec<" in (v.get("ty") or ""):
                    vec_of[v["res"]["hid"]] = fname
            for fname, val in fields.items():
                v = peel(val)
                if v.get("k") == "Path" and v.get("res", {}).get("hid") in lets:
                    v = peel(lets[v["res"]["hid"]]["init"])
                if v.get("k") == "MethodCall" and v["method"] == "len":
                    rv = peel(v["recv"])
                    if rv.get("k") == "Path" and rv.get("res", {}).get("hid") in vec_of:
                        pairs.add((lit["adt"], fname, vec_of[rv["res"]["hid"]]))
    r.count("pairs", len(pairs))
    for adt, cnt, vec in sorted(pairs):
        r.analysed.append("%s: %s ↔ %s" % (adt.split("::")[-1], cnt, vec))
        for fn in F.fns:
            if fn.get("body") is None or (fn.get("self_adt") or "") != adt:
                continue

            def classify(n, cnt=cnt, vec=vec):
                if n.get("k") == "MethodCall" and n["method"] == "push" and (place_path(n["recv"]) or "") == "self." + vec:
                    return "PUSH"
                if n.get("k") == "AssignOp" and n["op"] in ("+=", "+") and (place_path(n["lhs"]) or "") == "self." + cnt:
                    return "INC"
                if n.get("k") == "Assign" and (place_path(n["lhs"]) or "") == "self." + cnt:
                    return "SET"
                return None
            evs = {ev for ev, _ in normal_paths(paths(fn["body"], classify))}
            if not any(evs):
                continue
            ok = all(ev.count("PUSH") == ev.count("INC") and "SET" not in ev for ev in evs)
            r.ob(ok, {"fn": fn["path"], "paths": sorted(map(list, evs))})
            if not ok:
                r.violate("%s | %s vs %s" % (fn["path"], cnt, vec), F.loc(fn),
                          "%s changes `%s` and `%s` out of step (paths %s): code that sizes its walk by the counter (the component iterator) and code that walks the vector (encode) then disagree about which elements exist" % (
                              fn["name"], vec, cnt, sorted(map(list, evs))))
    return r
