"""Component round trip: variant→encoder-method tables and section tag↔vector pairing."""
import re

from vlib.facts import walk, peel, place_path, pat_alternatives, CheckError
from vlib.report import RuleResult

CS = "ir::section::ComponentSection"


def nrm(s):
    return s.replace("_", "").lower()


def _enum_matches(fn, adt):
    out = []
    for m in walk(fn["body"]):
        if m.get("k") == "Match":
            ty = m.get("scrut_ty", "").replace("&mut ", "").replace("&", "").split("<")[0]
            if ty == adt:
                out.append(m)
    return out


def variant_method_tables(F):
    r = RuleResult("R-VARIANT-METHOD",
                   "in every arm that re-encodes a wasmparser::ComponentDefinedType / CanonicalFunction variant V, the wasm_encoder builder method invoked is the one named after V (snake_case), in every sub-arm; the two defined-type encoders (component.rs and wrappers::convert_component_type) agree")
    targets = [
        ("wasmparser::ComponentDefinedType", ["encode_comp", "convert_component_type"], ("wasm_encoder::ComponentDefinedTypeEncoder",)),
        ("wasmparser::CanonicalFunction", ["encode_comp"], ("wasm_encoder::CanonicalFunctionSection",)),
    ]
    per_site = {}
    for adt, fnames, recv_tys in targets:
        variants = F.variants(adt)
        for fname in fnames:
            fn = F.one_fn(name=fname) if fname != "encode_comp" else F.one_fn(name=fname, self_adt="Component")
            ms = _enum_matches(fn, adt)
            if not ms:
                raise CheckError("%s: no match over %s" % (fn["path"], adt))
            r.analysed.append("%s over %s" % (fn["path"], adt.split("::")[-1]))
            covered = {}
            for m in ms:
                for arm in m["arms"]:
                    for leaf in pat_alternatives(arm["pat"]):
                        v = leaf.get("variant")
                        if leaf.get("adt") != adt or not v:
                            continue
                        calls = [c for c in walk(arm["body"]) if c.get("k") == "MethodCall"
                                 and c.get("recv_ty", "").replace("&mut ", "").replace("&", "").split("<")[0] in recv_tys]
                        methods = sorted({c["method"] for c in calls})
                        covered[v] = methods
                        ok = bool(methods) and all(nrm(mt).startswith(nrm(v)) or nrm(v).startswith(nrm(mt).rstrip("_")) and nrm(mt) == nrm(v) for mt in methods)
                        ok = bool(methods) and all(nrm(mt) == nrm(v) or nrm(mt) == nrm(v) + "type" for mt in methods)
                        r.ob(ok, {"fn": fn["name"], "variant": v, "encoder_methods": methods})
                        if not ok:
                            r.violate("%s | %s::%s → %s" % (fn["path"], adt.split("::")[-1], v, "+".join(methods) or "nothing"), F.loc(fn, arm),
                                      "%s variant %s is re-encoded through %s (expected the builder method named after the variant in every sub-arm)" % (adt.split("::")[-1], v, methods or "no builder call"))
            missing = set(variants) - set(covered)
            for v in sorted(missing):
                r.ob(False)
                r.violate("%s | %s::%s unhandled" % (fn["path"], adt.split("::")[-1], v), F.loc(fn), "%s variant %s has no explicit arm" % (adt.split("::")[-1], v))
            per_site[(adt, fname)] = covered
            r.count("%s@%s" % (adt.split("::")[-1], fname), len(covered))
    return r


def section_pairing(F):
    r = RuleResult("R-SECTION-PAIRING",
                   "for every ComponentSection tag T, the vector appended in the parse arm that records T is the Component field indexed by the encode arm for T; each encode arm advances its own cursor by one per emitted item over the range cursor..cursor+num; parse records as many items as it appends")
    pc = F.one_fn(name="parse_comp", self_adt="Component")
    ec = F.one_fn(name="encode_comp", self_adt="Component")
    r.analysed += [pc["path"], ec["path"]]
    tags = set(F.variants(CS))
    # final struct literal: local → field
    local_to_field = {}
    for n in walk(pc["body"]):
        if n.get("k") == "Struct" and (n.get("adt") or "").endswith("::Component") and "rest" not in n:
            for fname, val in n["fields"]:
                for x in walk(val):
                    if x.get("k") == "Path" and x.get("res", {}).get("r") == "local":
                        local_to_field.setdefault(x["res"]["name"], fname)
    if not local_to_field:
        raise CheckError("parse_comp: Component literal not found")
    parse_tbl = {}
    # each add_to_sections call: tag + enclosing arm's appended vector
    pm = None
    for m in walk(pc["body"]):
        if m.get("k") == "Match" and m.get("scrut_ty", "").split("<")[0] == "wasmparser::Payload":
            pm = m
    if pm is None:
        raise CheckError("parse_comp: no match on Payload")

    def arms_with_calls(node):
        # innermost arms (payload arms or nested custom-section arms) containing an add_to_sections call
        for mm in walk(node):
            if mm.get("k") == "Match":
                for arm in mm["arms"]:
                    calls = [c for c in walk(arm["body"]) if c.get("k") == "Call" and (c.get("callee") or "").endswith("::add_to_sections")]
                    inner = [x for x in walk(arm["body"]) if x.get("k") == "Match" and any(
                        c2.get("k") == "Call" and (c2.get("callee") or "").endswith("::add_to_sections") for a2 in x["arms"] for c2 in walk(a2["body"]))]
                    if calls and not inner:
                        yield arm, calls

    for arm, calls in arms_with_calls(pm):
        for c in calls:
            tag = None
            for x in walk(c["args"][1]):
                if x.get("k") == "Path" and x.get("res", {}).get("adt") == CS:
                    tag = x["res"].get("variant")
            cnt = peel(c["args"][3])
            vecs = []
            for x in walk(arm["body"]):
                if x.get("k") == "MethodCall" and x["method"] in ("append", "push", "extend"):
                    pp = place_path(x["recv"])
                    if pp and pp in local_to_field:
                        vecs.append((pp, x["method"]))
            parse_tbl[tag] = (vecs, cnt, arm)
    r.count("parse_tags", len(parse_tbl))
    enc_tbl = {}
    em = None
    for m in walk(ec["body"]):
        if m.get("k") == "Match" and m.get("scrut_ty", "").replace("&", "").split("<")[0] == CS:
            em = m
    if em is None:
        raise CheckError("encode_comp: no match on ComponentSection")
    for arm in em["arms"]:
        for leaf in pat_alternatives(arm["pat"]):
            if leaf.get("adt") == CS and leaf.get("variant"):
                fields = set()
                for x in walk(arm["body"]):
                    if x.get("k") == "Index":
                        pp = place_path(x["base"]) or ""
                        if pp.startswith("self."):
                            fields.add(pp.split(".")[1])
                    if x.get("k") == "MethodCall" and x["method"] in ("get_by_id", "get") and (place_path(x["recv"]) or "").startswith("self."):
                        fields.add((place_path(x["recv"]) or "").split(".")[1])
                cursors = set()
                for x in walk(arm["body"]):
                    if x.get("k") == "AssignOp" and x["op"].startswith("+"):
                        l = peel(x["lhs"])
                        if l.get("k") == "Path" and l["res"].get("name", "").startswith("last_processed"):
                            cursors.add(l["res"]["name"])
                enc_tbl[leaf["variant"]] = (fields, cursors, arm)
    r.count("encode_tags", len(enc_tbl))
    used_cursors = {}
    for t in sorted(tags):
        p = parse_tbl.get(t)
        e = enc_tbl.get(t)
        if p is None or e is None:
            r.ob(False)
            r.violate("%s | tag %s" % (pc["path"] if p is None else ec["path"], t), F.loc(pc if p is None else ec),
                      "ComponentSection::%s is %s" % (t, "never recorded by parse_comp" if p is None else "not replayed by encode_comp"))
            continue
        vecs, cnt, parm = p
        pf = {local_to_field[v] for v, _ in vecs}
        ef, cursors, earm = e
        ok = len(pf) == 1 and pf <= ef and len(ef) == 1
        r.ob(ok, {"tag": t, "parse_appends_to": sorted(pf), "encode_indexes": sorted(ef), "cursor": sorted(cursors)})
        if not ok:
            r.violate("%s | %s vectors" % (ec["path"], t), F.loc(ec, earm),
                      "ComponentSection::%s: parse appends to %s but encode replays from %s" % (t, sorted(pf), sorted(ef)))
        has_loop = any(x.get("k") == "Match" and x.get("src") == "ForLoopDesugar" for x in walk(earm["body"]))
        ok = len(cursors) == 1 if has_loop else len(cursors) == 0
        r.ob(ok)
        if not ok:
            r.violate("%s | %s cursor" % (ec["path"], t), F.loc(ec, earm), "encode arm for %s advances cursors %s (expected exactly one)" % (t, sorted(cursors)))
        for c in cursors:
            used_cursors.setdefault(c, []).append(t)
        # count recorded equals items appended: `push` ⇒ literal 1, `append(temp)` ⇒ temp.len()
        meths = {m for _, m in vecs}
        if meths == {"push"}:
            from vlib.facts import lit_int
            okc = cnt.get("k") == "Lit" and lit_int(cnt["lit"]) == 1
        else:
            okc = cnt.get("k") != "Lit"
        r.ob(okc, {"tag": t, "count_expr_kind": cnt.get("k"), "append_methods": sorted(meths)})
        if not okc:
            r.violate("%s | %s count" % (pc["path"], t), F.loc(pc, parm), "parse records a count for %s that does not match the number of items appended" % t)
    for c, ts in used_cursors.items():
        ok = len(ts) == 1
        r.ob(ok)
        if not ok:
            r.violate("%s | cursor %s shared" % (ec["path"], c), F.loc(ec), "cursor %s is shared by sections %s" % (c, ts))
    return r
