"""R-FIELDS-COVER and field-pairing rules (types, name section, custom sections, struct→struct copies)."""
import re

from vlib.facts import walk, peel, place_path, pat_alternatives, pat_variants, every_iteration, CheckError, diverges
from vlib.report import RuleResult

TYPES = "ir::module::module_types::Types"


def types_cover(F):
    r = RuleResult("R-FIELDS-COVER(Types)",
                   "for every Types variant, encode_type, Hash::hash and PartialEq::eq bind and use every field except `tag` (the `..` rest pattern hides nothing else), and hash/eq use the same field set")
    variants = F.variants(TYPES)
    sites = {
        "encode_type": F.one_fn(name="encode_type", self_adt="Module"),
        "hash": [f for f in F.fns if f["name"] == "hash" and (f.get("self_adt") or "") == TYPES and (f.get("impl_trait") or "").endswith("hash::Hash")],
        "eq": [f for f in F.fns if f["name"] == "eq" and (f.get("self_adt") or "") == TYPES and (f.get("impl_trait") or "").endswith("cmp::PartialEq")],
    }
    for k in ("hash", "eq"):
        if len(sites[k]) != 1:
            raise CheckError("anchor: impl %s for Types: %d candidates" % (k, len(sites[k])))
        sites[k] = sites[k][0]
    used = {}
    for label, fn in sites.items():
        r.analysed.append(fn["path"])
        per_variant = {}
        unclear = {}
        for m in walk(fn["body"]):
            if m.get("k") != "Match":
                continue
            for arm in m["arms"]:
                # eq matches on a tuple (self, other): take the first component's pattern
                pats = [arm["pat"]]
                if arm["pat"].get("k") == "Tuple":
                    pats = [arm["pat"]["pats"][0]]
                for p in pats:
                    for leaf in pat_alternatives(p):
                        if leaf.get("k") == "Struct" and leaf.get("adt") == TYPES and leaf.get("variant"):
                            bound = {}
                            for fname, sub in leaf["fields"]:
                                if sub.get("k") == "Binding":
                                    bound[fname] = sub["hid"]
                            refs = _effective_refs(label, arm, leaf)
                            if label == "encode_type":
                                refs = refs | _escaping_refs(fn["body"], m, arm)
                            esc, opaque = _struct_escape_refs(label, fn["body"], m, arm)
                            refs = refs | esc
                            todo = diverges(arm["body"])
                            prev = per_variant.get(leaf["variant"], (set(), False))
                            # several matches may each handle part of a variant's fields (`match self {V{a,..} => ..}` for the
                            # definition, a helper's match for the shared attributes): the uses add up
                            per_variant[leaf["variant"]] = (prev[0] | {f for f, h in bound.items() if h in refs}, todo or prev[1])
                            if opaque:
                                unclear.setdefault(leaf["variant"], set()).update(bound)
        used[label] = per_variant
        for v, vd in variants.items():
            want = {f["name"] for f in vd["fields"]} - {"tag"}
            got, todo = per_variant.get(v, (set(), False))
            if todo:
                r.ob(True)
                r.info.append("%s: Types::%s is not encodable (todo!())" % (label, v))
                continue
            ok = got == want
            if not ok and (want - got) <= unclear.get(v, set()) and not (got - want):
                r.undecided("%s of Types::%s: field(s) %s leave a helper inside a value whose later use is not followed" % (label, v, sorted(want - got)))
                continue
            r.ob(ok, {"site": label, "variant": v, "fields_used": sorted(got)})
            if not ok:
                r.violate("%s | %s %s" % (fn["path"], v, "+".join(sorted(want - got)) or "extra:" + "+".join(sorted(got - want))), F.loc(fn),
                          "%s of Types::%s ignores field(s) %s%s" % (label, v, sorted(want - got), (" and uses " + str(sorted(got - want))) if got - want else ""))
    for v in variants:
        a = used["hash"].get(v, (set(), False))[0]
        b = used["eq"].get(v, (set(), False))[0]
        ok = a == b
        r.ob(ok)
        if not ok:
            r.violate("hash/eq coherence | %s" % v, F.loc(sites["hash"]), "Hash and PartialEq of Types::%s use different field sets (%s vs %s): equal types could get different dedup slots" % (v, sorted(a), sorted(b)))
    r.count("types_variants", len(variants))
    return r


def _struct_escape_refs(label, body, m, arm):
    """A helper (inlined at its call) whose value is `match self { V{a, b, ..} => S { a, b: *b } }`: the bindings leave the
    match as fields of an S.  They count as used where the caller (1) destructures that S and hashes / compares the pieces, or
    (2) compares the whole S with the S the same helper builds for the other operand (derived PartialEq: field by field).
    → (hids credited, opaque) — opaque: the value does leave in a struct but neither use was recognised."""
    tails = [t for t in _tail_values(arm["body"]) if isinstance(t, dict) and t.get("k") == "Struct" and isinstance(t.get("fields"), list) and "pats" not in t]
    tup_tails = [t for t in _tail_values(arm["body"]) if isinstance(t, dict) and t.get("k") == "Tup"]
    if not tails and tup_tails:
        # the same with a tuple instead of a struct: components are matched by position
        tails = [{"k": "Struct", "adt": "#tuple", "fields": [[str(i_), el] for i_, el in enumerate(tup_tails[0]["elems"])]}]
    if not tails:
        return set(), False
    holder = None
    for c in walk(body):
        if c.get("k") in ("Call", "MethodCall") and isinstance(c.get("inlined"), dict):
            hb = peel(c["inlined"]["body"])
            while isinstance(hb, dict) and hb.get("k") == "Block" and not hb.get("stmts") and hb.get("expr") is not None:
                hb = peel(hb["expr"])
            if hb is m:
                holder = c
    if holder is None:
        return set(), False
    out = set()
    lit = tails[0]
    S = lit.get("adt")
    by_field = {fname: _local_hids(val) for fname, val in lit["fields"] if isinstance(val, dict)}
    recognised = False
    # (1) `let S { a, b } = helper(self);` then a.hash(..) / a == ..
    for st in walk(body):
        is_struct_pat = st.get("k") == "Let" and "init" in st and peel(st["init"]) is holder and st["pat"].get("k") == "Struct" and st["pat"].get("adt") == S
        is_tuple_pat = st.get("k") == "Let" and "init" in st and peel(st["init"]) is holder and st["pat"].get("k") == "Tuple" and S == "#tuple"
        if is_struct_pat or is_tuple_pat:
            recognised = True
            pat_fields = st["pat"]["fields"] if is_struct_pat else [[str(i_), sp_] for i_, sp_ in enumerate(st["pat"]["pats"])]
            for fname, sub in pat_fields:
                if sub.get("k") != "Binding":
                    continue
                for c in walk(body):
                    hit = False
                    if c.get("k") in ("Call", "MethodCall"):
                        cal = (c.get("callee") or "") + " " + (c.get("inst") or "")
                        if label == "hash" and ("hash::Hash::hash" in cal or "hash::Hasher::write" in cal) and sub["hid"] in _local_hids(c):
                            hit = True
                        if label != "hash" and sub["hid"] in _local_hids(c):
                            hit = True
                    if c.get("k") == "Binary" and c.get("op") in ("==", "!=") and sub["hid"] in _local_hids(c):
                        hit = True
                    if hit:
                        out |= by_field.get(fname, set())
    # (1') `helper(self).hash(state)`: the whole struct is hashed (derived Hash: field by field)
    if label == "hash":
        for c in walk(body):
            if c.get("k") in ("Call", "MethodCall"):
                cal = (c.get("callee") or "") + " " + (c.get("inst") or "")
                if "hash::Hash::hash" in cal:
                    operands = ([c.get("recv")] if c.get("k") == "MethodCall" else []) + list(c.get("args") or [])
                    for o_ in operands:
                        o_ = peel(o_) if isinstance(o_, dict) else {}
                        while isinstance(o_, dict) and o_.get("k") == "AddrOf":
                            o_ = peel(o_["a"])
                        if o_ is holder:
                            recognised = True
                            for hs in by_field.values():
                                out |= hs
    # (2) `helper(self) == helper(other)`
    for c in walk(body):
        sides = None
        if c.get("k") == "Binary" and c.get("op") in ("==", "!="):
            sides = (peel(c["a"]), peel(c["b"]))
        elif c.get("k") == "MethodCall" and "cmp::PartialEq::eq" in (c.get("callee") or "") and c.get("args"):
            sides = (peel(c["recv"]), peel(c["args"][0]))
        if not sides:
            continue
        for x, y in (sides, sides[::-1]):
            while isinstance(x, dict) and x.get("k") in ("AddrOf",):
                x = peel(x["a"])
            while isinstance(y, dict) and y.get("k") in ("AddrOf",):
                y = peel(y["a"])
            if x is holder and isinstance(y, dict) and isinstance(y.get("inlined"), dict) and y["inlined"].get("of") == holder["inlined"].get("of"):
                recognised = True
                for hs in by_field.values():
                    out |= hs
    return out, not recognised


def _local_hids(e):
    return {x["res"]["hid"] for x in walk(e) if x.get("k") == "Path" and x.get("res", {}).get("r") == "local"}


def _effective_refs(label, arm, leaf):
    """Which pattern bindings does the arm body *effectively* use?
    hash: the binding reaches a Hash::hash / Hasher::write* call (receiver or argument subtree);
    eq:   the binding is compared (== / != / PartialEq::eq|ne) with the SAME-NAMED field of the other operand;
    encode_type: the binding occurs inside the argument subtree of some call (a bare `let _ = f;` is not a use)."""
    body = arm["body"]
    out = set()
    if label == "hash":
        for c in walk(body):
            if c.get("k") in ("Call", "MethodCall"):
                cal = (c.get("callee") or "") + " " + (c.get("inst") or "")
                if "hash::Hash::hash" in cal or "hash::Hasher::write" in cal or "hash::Hash::hash_slice" in cal:
                    out |= _local_hids(c)
        return out
    if label == "eq":
        other = {}
        pat = arm["pat"]
        if pat.get("k") == "Tuple" and len(pat["pats"]) > 1:
            for q in pat_alternatives(pat["pats"][1]):
                if q.get("k") == "Struct":
                    for fname, sub in q["fields"]:
                        if sub.get("k") == "Binding":
                            other[sub["hid"]] = fname
        mine = {sub["hid"]: fname for fname, sub in leaf["fields"] if sub.get("k") == "Binding"}
        for c in walk(body):
            sides = None
            if c.get("k") == "Binary" and c.get("op") in ("==", "!="):
                sides = (c["a"], c["b"])
            elif c.get("k") == "MethodCall" and ("cmp::PartialEq::eq" in (c.get("callee") or "") or "cmp::PartialEq::ne" in (c.get("callee") or "")) and c.get("args"):
                sides = (c["recv"], c["args"][0])
            if not sides:
                continue
            a, b = _local_hids(sides[0]), _local_hids(sides[1])
            for x, y in ((a, b), (b, a)):
                for h in x:
                    if h in mine and any(other.get(o) == mine[h] for o in y):
                        out.add(h)
        if not other:
            # not the (self, other) tuple idiom: fall back to plain reference inside a comparison
            for c in walk(body):
                if c.get("k") == "Binary" and c.get("op") in ("==", "!="):
                    out |= _local_hids(c)
        return out
    for c in walk(body):
        if c.get("k") in ("Call", "MethodCall", "Struct"):
            out |= _local_hids(c)
    return out


def _escaping_refs(body, m, arm):
    """Bindings of the arm that leave the match as (components of) its value and are used in a call / struct literal
    afterwards: `let (a, b) = match ty { V { x, y } => (x, y), .. }; f(a, b)`."""
    out = set()
    dest = None
    for st in walk(body):
        if st.get("k") == "Let" and "init" in st and peel(st["init"]) is m:
            dest = st["pat"]
    if dest is None:
        return out
    used_later = set()
    inside = {id(x) for x in walk(m)}
    for c in walk(body):
        if c.get("k") in ("Call", "MethodCall", "Struct") and id(c) not in inside:
            used_later |= _local_hids(c)
    for tv in _tail_values(arm["body"]):
        if tv.get("k") == "Tup" and dest.get("k") == "Tuple" and len(tv["elems"]) == len(dest["pats"]):
            for el, dp in zip(tv["elems"], dest["pats"]):
                if any(b.get("k") == "Binding" and b["hid"] in used_later for b in walk(dp)):
                    out |= _local_hids(el)
        elif dest.get("k") == "Binding" and dest["hid"] in used_later:
            out |= _local_hids(tv)
    return out


def nrm(s):
    return s.replace("_", "").lower()


def name_pairing(F):
    r = RuleResult("R-NAME-PAIRING",
                   "every wasmparser::Name subsection kind stored by parse_internal is re-emitted by encode_internal through the NameSection method of the same kind, from the field it was stored in")
    pi = F.one_fn(name="parse_internal", self_adt="Module")
    ei = F.one_fn(name="encode_internal", self_adt="Module")
    r.analysed += [pi["path"], ei["path"]]
    NAME = "wasmparser::Name"
    kinds = set(F.variants(NAME)) - {"Unknown"}
    # parse: arm X → assigned local
    stored = {}
    for m in walk(pi["body"]):
        if m.get("k") == "Match" and m.get("scrut_ty", "").split("<")[0] == NAME:
            for arm in m["arms"]:
                for leaf in pat_alternatives(arm["pat"]):
                    if leaf.get("adt") == NAME and leaf.get("variant"):
                        tgt = None
                        for x in walk(arm["body"]):
                            if x.get("k") == "Assign":
                                l = peel(x["lhs"])
                                if l.get("k") == "Path" and l["res"].get("r") == "local":
                                    tgt = l["res"]["name"]
                        stored[leaf["variant"]] = tgt
    # Module literal: local → field
    l2f = {}
    for n in walk(pi["body"]):
        if n.get("k") == "Struct" and (n.get("adt") or "").endswith("module::Module") and "rest" not in n:
            for fname, val in n["fields"]:
                v = peel(val)
                if v.get("k") == "Path" and v.get("res", {}).get("r") == "local":
                    l2f[v["res"]["name"]] = fname
    # encode: method → self field
    emitted = {}
    for c in walk(ei["body"]):
        if c.get("k") == "MethodCall" and (c.get("inst") or "").startswith("wasm_encoder::NameSection::"):
            pp = place_path(c["args"][0]) if c["args"] else None
            emitted[c["method"]] = pp
    r.count("name_kinds", len(kinds))
    for X in sorted(kinds):
        if X == "Function":
            ok = "functions" in emitted
            r.ob(ok, {"kind": X, "emitted via": "names.functions(&function_names)"})
            if not ok:
                r.violate("%s | Function" % ei["path"], F.loc(ei), "function names are not re-emitted")
            continue
        loc = stored.get(X)
        if X == "Module":
            ok = "module" in emitted and loc is not None
            r.ob(ok, {"kind": X, "stored_in": loc})
            if not ok:
                r.violate("%s | Module" % ei["path"], F.loc(ei), "module name is not stored/re-emitted")
            continue
        field = l2f.get(loc)
        meth = [m for m, pp in emitted.items() if pp == "self.%s" % field]
        def singular(m):
            m = nrm(m)
            return m[:-3] + "y" if m.endswith("ies") else m.rstrip("s")
        ok = field is not None and len(meth) == 1 and singular(meth[0]) == singular(X)
        r.ob(ok, {"kind": X, "stored_in_field": field, "emitted_by": meth})
        if not ok:
            r.violate("%s | %s" % (ei["path"], X), F.loc(ei), "name subsection %s is stored in field `%s` but re-emitted by %s" % (X, field, meth or "nothing"))
    # a name subsection that is emitted under a condition is conditioned on *its own* field: `if !self.data_names.is_empty()
    # { names.data(&self.data_names) }` — a guard that reads any other field of the module (another kind's names, a re-index
    # flag) drops names that are still stored whenever that other state says so
    from vlib.facts import guard_conditions
    for c in walk(ei["body"]):
        if not (c.get("k") == "MethodCall" and "NameSection" in (c.get("recv_ty") or "") and c.get("args")):
            continue
        src_f = {x["name"] for a_ in c["args"] for x in walk(a_) if x.get("k") == "Field" and x["name"].endswith("_names")}
        if len(src_f) != 1:
            continue
        own = next(iter(src_f))
        for pol, cond in guard_conditions(ei["body"], c):
            if pol in ("pat", "notpat"):
                continue
            # every field of the module the condition reads (first component of a `self.`-rooted place)
            gf = set()
            for x in walk(cond):
                if x.get("k") == "Field":
                    pp = place_path(x) or ""
                    if pp.startswith("self.") and pp.count(".") >= 1:
                        gf.add(pp.split(".")[1])
            if not gf:
                continue
            ok = gf == {own}
            r.ob(ok, {"subsection from": own, "guarded by": sorted(gf)})
            if not ok:
                r.violate("%s | %s guarded by %s" % (ei["path"], own, "+".join(sorted(gf - {own}))), F.loc(ei, c),
                          "the name subsection built from `%s` is emitted only under a condition on `%s`: these names are dropped whenever that other state says so, although they are still stored" % (own, sorted(gf - {own})))
    return r


ALIAS = {"minimum": "initial", "val_type": "content_type"}


def struct_copy_pairing(F):
    r = RuleResult("R-COPY-PAIRING",
                   "wherever encode_internal builds a wasm_encoder struct field from a field of the parsed wasmparser struct, the two fields are the same-named (or documented alias: minimum↔initial, val_type↔content_type) field — no swap such as `maximum: ty.initial`; custom sections copy name→name and data→data")
    ei = F.one_fn(name="encode_internal", self_adt="Module")
    r.analysed.append(ei["path"])
    n = 0
    for s in walk(ei["body"]):
        if s.get("k") != "Struct" or "rest" in s or not (s.get("adt") or "").startswith("wasm_encoder::"):
            continue
        for fname, val in s["fields"]:
            # the last field read in the value expression (X.g, X.g.clone(), from(X.g), *X.g)
            reads = [x for x in walk(val) if x.get("k") == "Field" and not x["name"].isdigit()]
            if not reads:
                continue
            g = reads[0]  # outermost field read (pre-order)
            src_ty = g.get("base_ty", "").replace("&mut ", "").replace("&", "").split("<")[0]
            src = F.adts.get(src_ty)
            if not src:
                continue
            src_fields = {f["name"] for v in src["variants"] for f in v["fields"]}
            want = ALIAS.get(fname, fname) if ALIAS.get(fname, fname) in src_fields else (fname if fname in src_fields else None)
            if want is None:
                continue
            n += 1
            ok = g["name"] == want
            r.ob(ok, {"dest": "%s.%s" % (s["adt"].split("::")[-1], fname), "source_field": "%s.%s" % (src_ty.split("::")[-1], g["name"])})
            if not ok:
                r.violate("%s | %s.%s←%s" % (ei["path"], s["adt"].split("::")[-1], fname, g["name"]), F.loc(ei, s),
                          "%s.%s is filled from %s.%s (expected .%s)" % (s["adt"].split("::")[-1], fname, src_ty.split("::")[-1], g["name"], want))
    # a destination field filled with a constant although the source struct (the one the sibling fields are copied from)
    # has a field of that name: the attribute is silently reset on re-encoding
    for s_ in walk(ei["body"]):
        if s_.get("k") != "Struct" or "rest" in s_ or not (s_.get("adt") or "").startswith("wasm_encoder::"):
            continue
        srcs = {}
        for fname, val in s_["fields"]:
            for x in walk(val):
                if x.get("k") == "Field" and not x["name"].isdigit():
                    st = x.get("base_ty", "").replace("&mut ", "").replace("&", "").split("<")[0]
                    if st in F.adts and st.startswith("wasmparser::"):
                        srcs[st] = srcs.get(st, 0) + 1
                    break
        if not srcs:
            continue
        src_ty = max(srcs, key=srcs.get)
        if srcs[src_ty] < 2:
            continue
        src_fields = {f["name"] for v in F.adts[src_ty]["variants"] for f in v["fields"]}
        for fname, val in s_["fields"]:
            v = peel(val)
            const = v.get("k") == "Lit" or (v.get("k") == "Path" and v.get("res", {}).get("variant") == "None")
            want = ALIAS.get(fname, fname)
            if const and (want in src_fields or fname in src_fields):
                n += 1
                r.ob(False, {"dest": "%s.%s" % (s_["adt"].split("::")[-1], fname), "constant": True})
                r.violate("%s | %s.%s constant" % (ei["path"], s_["adt"].split("::")[-1], fname), F.loc(ei, s_),
                          "%s.%s is hard-coded although %s has a `%s` field that the sibling fields are copied from: the attribute is lost on re-encoding" % (s_["adt"].split("::")[-1], fname, src_ty.split("::")[-1], want if want in src_fields else fname))
    r.count("copied_fields", n)
    return r


def custom_sections(F):
    r = RuleResult("R-CUSTOM-SECTIONS",
                   "CustomSections.custom_sections is written only by new/add/delete/get_section_data_mut; parse pushes (name, data) in payload order, construction keeps tuple order (.0→name, .1→data), and encode iterates the vector front to back without sorting/reversing/deduplicating")
    CSADT = "ir::types::CustomSections"
    allowed = {"new", "add", "delete", "get_section_data_mut"}
    n_w = 0
    for fn in F.fns:
        if fn.get("body") is None or (fn.get("impl_trait") or "").startswith(("std::", "core::")):
            continue
        for n in walk(fn["body"]):
            w = False
            if n.get("k") == "MethodCall" and n["method"] in ("push", "remove", "insert", "clear", "sort", "sort_by", "reverse", "dedup", "retain", "swap", "truncate", "pop", "drain", "extend", "append", "sort_by_key", "swap_remove"):
                pp = place_path(n["recv"]) or ""
                if pp.endswith(".custom_sections") and "CustomSections" in n.get("recv_ty", "") + (fn.get("self_adt") or "") and "Vec<ir::types::CustomSection" in n.get("recv_ty", ""):
                    w = True
            if n.get("k") == "Index" and (place_path(n["base"]) or "").endswith(".custom_sections") and "Vec<ir::types::CustomSection" in n.get("base_ty", ""):
                # index read or write; writes are caught through to_mut / assignment parents: treat get_section_data_mut specially
                pass
            if n.get("k") == "Struct" and n.get("adt") == CSADT and "rest" not in n:
                w = True
            if w:
                n_w += 1
                ok = (fn.get("self_adt") or "") == CSADT and fn["name"] in allowed
                r.ob(ok, {"fn": fn["path"], "mutates": "custom_sections"})
                if fn["path"] not in r.analysed:
                    r.analysed.append(fn["path"])
                if not ok:
                    r.violate("%s | writes custom_sections" % fn["path"], F.loc(fn, n), "%s mutates the custom section list outside the documented API (new/add/delete/get_section_data_mut)" % fn["path"])
    r.count("writers", n_w)
    # order-changing calls inside the allowed API
    for name in allowed:
        fn = F.one_fn(name=name, self_adt="CustomSections")
        bad = [n["method"] for n in walk(fn["body"]) if n.get("k") == "MethodCall" and n["method"] in ("sort", "sort_by", "sort_by_key", "reverse", "dedup", "swap", "rev", "insert", "swap_remove", "retain")]
        r.ob(not bad, {"fn": fn["path"], "order_changing_calls": bad})
        if bad:
            r.violate("%s | reorders" % fn["path"], F.loc(fn), "%s changes the relative order of custom sections (%s)" % (name, bad))
    # add(): appends on every path (never replaces an existing entry)
    addf = F.one_fn(name="add", self_adt="CustomSections")
    pushes = [c for c in walk(addf["body"]) if c.get("k") == "MethodCall" and c["method"] == "push" and (place_path(c["recv"]) or "").endswith(".custom_sections")]
    oka = len(pushes) == 1 and every_iteration(addf["body"], pushes[0])[0]
    repl = [x for x in walk(addf["body"]) if x.get("k") == "Assign" and "custom_sections" in (place_path(x["lhs"]) or "")]
    r.ob(oka and not repl, {"add appends on every path": oka, "replaces_in_place": bool(repl)})
    if not (oka and not repl):
        r.violate("%s | add is not an append" % addf["path"], F.loc(addf), "CustomSections::add does not append the new section on every path (%s): an existing section can be overwritten / the new one dropped" % ("assigns an existing slot" if repl else (every_iteration(addf["body"], pushes[0])[1] if pushes else "no push")))
    # any state kept next to the list (caches, indexes) must be refreshed by every mutator
    extra = [f_["name"] for v in F.adt(CSADT)["variants"] for f_ in v["fields"] if f_["name"] != "custom_sections"]
    for fld in extra:
        for mname in ("add", "delete"):
            mf = F.one_fn(name=mname, self_adt="CustomSections")
            touches = any((x.get("k") in ("Assign", "AssignOp") and ("." + fld) in (place_path(x["lhs"]) or "")) or
                          (x.get("k") == "MethodCall" and ("." + fld) in (place_path(x["recv"]) or "") and x["method"] in ("clear", "insert", "remove", "take", "push", "retain", "replace", "get_mut", "borrow_mut", "set"))
                          for x in walk(mf["body"]))
            r.ob(touches, {"derived state": fld, "maintained by": mname, "ok": touches})
            if not touches:
                r.violate("%s | stale %s" % (mf["path"], fld), F.loc(mf), "CustomSections::%s changes the section list but not the derived state `%s`: lookups answered from it (get_id) go stale" % (mname, fld))
    # a component replays its custom sections at their recorded place in the section layout: every emission of a custom
    # section in encode_comp sits in the arm of the layout dispatch for ComponentSection::CustomSection (a second emission
    # anywhere else — "owned payloads again at the end" — duplicates sections)
    ec = F.one_fn(name="encode_comp", self_adt="Component")
    r.analysed.append(ec["path"])
    arms_cs = []
    for m_ in walk(ec["body"]):
        if m_.get("k") == "Match" and "ComponentSection" in (m_.get("scrut_ty") or ""):
            for a_ in m_["arms"]:
                if any(v == "CustomSection" for _, v in pat_variants(a_["pat"])[0]):
                    arms_cs.append(a_)
    sites = [x for x in walk(ec["body"]) if x.get("k") == "Struct" and (x.get("adt") or "").startswith("wasm_encoder::") and (x.get("adt") or "").endswith("CustomSection") and "pats" not in x]
    if not arms_cs:
        r.undecided("encode_comp: the layout dispatch on ComponentSection was not found; emission sites of custom sections not judged")
    else:
        inside = {id(x) for a_ in arms_cs for x in walk(a_["body"])}
        stray = [x for x in sites if id(x) not in inside]
        r.ob(not stray, {"custom section emission sites in encode_comp": len(sites), "outside the layout arm": len(stray)})
        if stray:
            r.violate("%s | custom section emitted outside the layout" % ec["path"], F.loc(ec, stray[0]),
                      "encode_comp emits custom sections at a second place, outside the arm that replays them at their recorded position: a section that is also in the layout (every parsed one, modified or not) is written twice")
    # new(): tuple .0 → name, .1 → data
    new = F.one_fn(name="new", self_adt="CustomSections")
    okn = False
    for c in walk(new["body"]):
        if c.get("k") == "Call" and (c.get("callee") or "").endswith("CustomSection::<'a>::new_borrowed") or (c.get("k") == "Call" and (c.get("callee") or "").endswith("new_borrowed")):
            a0, a1 = peel(c["args"][0]), peel(c["args"][1])
            okn = a0.get("k") == "Field" and a0["name"] == "0" and a1.get("k") == "Field" and a1["name"] == "1"
            if not okn and a0.get("k") == "Path" and a1.get("k") == "Path":
                # destructured instead of projected: `.map(|(name, data)| CustomSection::new_borrowed(name, data))` —
                # the arguments are the first and second binding of one tuple pattern
                from vlib.facts import binding_site
                p0, _s0, _k0 = binding_site(new["body"], a0.get("res", {}).get("hid"))
                tup = next((t for t in walk(p0 or {}) if t.get("k") == "Tuple" and len(t.get("pats") or []) == 2), None)
                if tup is None:
                    for cl_ in walk(new["body"]):
                        if cl_.get("k") == "Closure":
                            for pp_ in cl_.get("params") or []:
                                for t in walk(pp_):
                                    if t.get("k") == "Tuple" and len(t.get("pats") or []) == 2:
                                        tup = t
                if tup is not None:
                    okn = tup["pats"][0].get("hid") == a0.get("res", {}).get("hid") and tup["pats"][1].get("hid") == a1.get("res", {}).get("hid")
    r.ob(okn)
    if not okn:
        r.violate("%s | tuple order" % new["path"], F.loc(new), "CustomSections::new does not map tuple .0→name and .1→data")
    nb = F.one_fn(name="new_borrowed", self_adt="CustomSection")
    okb = False
    for s in walk(nb["body"]):
        if s.get("k") == "Struct" and (s.get("adt") or "").endswith("types::CustomSection") and "rest" not in s:
            fs = dict(s["fields"])
            nv, dv = peel(fs["name"]), fs["data"]
            okb = nv.get("k") == "Path" and nv["res"].get("name") == "name" and any(x.get("k") == "Path" and x.get("res", {}).get("name") == "data" for x in walk(dv))
    r.ob(okb)
    if not okb:
        r.violate("%s | fields" % nb["path"], F.loc(nb), "CustomSection::new_borrowed does not store name→name, data→data")
    # parse pushes (name(), data()) and encode copies name→name, data→data in a plain forward loop
    pi = F.one_fn(name="parse_internal", self_adt="Module")
    pushes = 0
    for pf in (pi, F.one_fn(name="parse_comp", self_adt="Component")):
        for c in walk(pf["body"]):
            if c.get("k") == "MethodCall" and c["method"] == "push" and (place_path(c["recv"]) or "") == "custom_sections":
                t = peel(c["args"][0])
                pushes += 1
                # both components come from the section reader itself (name() / data()): its ranges are absolute offsets of the
                # outermost binary, so re-slicing the current (possibly nested) buffer with them reads other bytes
                def through_let(e_, pf=pf):
                    e_ = peel(e_)
                    for _ in range(3):
                        if e_.get("k") == "Path" and e_.get("res", {}).get("r") == "local":
                            st_ = [s_ for s_ in walk(pf["body"]) if s_.get("k") == "Let" and s_["pat"].get("k") == "Binding" and s_["pat"]["hid"] == e_["res"]["hid"] and "init" in s_]
                            if st_:
                                e_ = peel(st_[0]["init"])
                                continue
                        break
                    return e_
                if t.get("k") == "Path":
                    t = through_let(t)
                e0, e1 = (through_let(t["elems"][0]), through_let(t["elems"][1])) if t.get("k") == "Tup" and len(t.get("elems", [])) == 2 else ({}, {})
                ok = e0.get("k") == "MethodCall" and e0.get("method") == "name" and e1.get("k") == "MethodCall" and e1.get("method") == "data" \
                    and place_path(e0["recv"]) == place_path(e1["recv"])
                r.ob(ok)
                if not ok:
                    r.violate("%s | push shape" % pf["path"], F.loc(pf, c), "custom section is not stored as (reader.name(), reader.data())")
    r.count("parse_pushes", pushes)
    # every custom-section kind except the name section is stored, unconditionally
    KC = "wasmparser::KnownCustom"
    for m in walk(pi["body"]):
        if m.get("k") == "Match" and (m.get("scrut_ty") or "").replace("&", "").split("<")[0] == KC:
            for arm in m["arms"]:
                vs = {v for a_, v in pat_variants(arm["pat"])[0] if v}
                wild = pat_variants(arm["pat"])[1]
                if vs == {"Name"}:
                    continue
                ps = [c for c in walk(arm["body"]) if c.get("k") == "MethodCall" and c["method"] == "push" and (place_path(c["recv"]) or "") == "custom_sections"]
                okp = bool(ps) and all(every_iteration(arm["body"], c)[0] for c in ps)
                label = "+".join(sorted(vs)) or ("_" if wild else "?")
                r.ob(okp, {"custom kind": label, "stored_unconditionally": okp})
                if not okp:
                    why = "is not stored" if not ps else "is stored only %s" % every_iteration(arm["body"], ps[0])[1]
                    r.violate("%s | custom kind %s" % (pi["path"], label), F.loc(pi, arm["body"]), "a custom section of kind %s %s: it disappears from the module without any edit" % (label, why))
    ei = F.one_fn(name="encode_internal", self_adt="Module")
    # emission: every stored section reaches module.section(..) on every iteration of the loop
    for m in walk(ei["body"]):
        if m.get("k") == "Match" and m.get("src") == "ForLoopDesugar" and any((place_path(x.get("recv", {})) or "") == "self.custom_sections" for x in walk(m["scrut"]) if x.get("k") == "MethodCall"):
            for lp in walk(m["arms"][0]["body"]):
                if lp.get("k") == "Match" and lp is not m:
                    for arm in lp["arms"]:
                        if arm["pat"].get("variant") == "Some":
                            sinks = [c for c in walk(arm["body"]) if c.get("k") == "MethodCall" and c["method"] == "section"]
                            oks = bool(sinks) and every_iteration(arm["body"], sinks[0])[0]
                            r.ob(oks, {"custom emission": "every stored section is written", "ok": oks})
                            if not oks:
                                r.violate("%s | custom emission skipped" % ei["path"], F.loc(ei, arm["body"]), "a stored custom section is written %s: some sections present in the IR are missing from the encoded module" % (every_iteration(arm["body"], sinks[0])[1] if sinks else "never"))
                    break
    okE = False
    for m in walk(ei["body"]):
        if m.get("k") == "Match" and m.get("src") == "ForLoopDesugar":
            it = m["scrut"]
            calls = [x["method"] for x in walk(it) if x.get("k") == "MethodCall"]
            if any((place_path(x.get("recv", {})) or "") == "self.custom_sections" for x in walk(it) if x.get("k") == "MethodCall"):
                bad = [c for c in calls if c in ("rev", "sorted", "skip", "take", "filter", "step_by")]
                lits = [s for s in walk(m) if s.get("k") == "Struct" and (s.get("adt") or "").endswith("wasm_encoder::CustomSection")]
                if lits and not bad:
                    fs = dict(lits[0]["fields"])
                    nf = [x["name"] for x in walk(fs["name"]) if x.get("k") == "Field"]
                    df = [x["name"] for x in walk(fs["data"]) if x.get("k") == "Field"]
                    okE = nf[:1] == ["name"] and df[:1] == ["data"]
    r.ob(okE)
    if not okE:
        r.violate("%s | custom emission" % ei["path"], F.loc(ei), "custom sections are not emitted by a plain forward loop copying name→name and data→data")
    return r


# ---------------------------------------------------------------- R-TYPE-FIELD-FLOW
TYPE_DEST_SRC = {"is_final": "is_final", "supertype_idx": "super_type", "shared": "shared", "mutable": "mutable", "element_type": "fields"}


def _tail_values(e):
    """value expressions an expression can evaluate to (through block/if/match tails; diverging arms dropped)"""
    e = peel(e)
    if not isinstance(e, dict):
        return []
    if e.get("k") == "Block":
        return _tail_values(e["expr"]) if e.get("expr") is not None else []
    if e.get("k") == "If":
        return _tail_values(e["then"]) + (_tail_values(e["else"]) if "else" in e else [])
    if e.get("k") == "Match" and e.get("src") not in ("ForLoopDesugar",):
        out = []
        for a2 in e["arms"]:
            if not diverges(a2["body"]):
                out += _tail_values(a2["body"])
        return out
    return [e]


def _origins(fn, seed):
    """Propagate 'which field of the matched value does this local come from' through lets (incl. tuple destructuring of a
    match/if result), pattern matches on such locals, for-loops, and closure parameters of iterator adaptors.
    seed: hid → origin name.  '#idx' marks enumerate() positions (neutral)."""
    origin = dict(seed)

    def of(e):
        out = set()
        for x in walk(e):
            if x.get("k") == "Path" and x.get("res", {}).get("r") == "local" and x["res"].get("hid") in origin:
                out.add(origin[x["res"]["hid"]])
        out.discard("#idx")
        return out

    def bind(pat, src):
        ch = False
        if len(src) == 1:
            o = next(iter(src))
            for b in walk(pat):
                if b.get("k") == "Binding" and b["hid"] not in origin:
                    origin[b["hid"]] = o
                    ch = True
        return ch

    changed = True
    rounds = 0
    while changed and rounds < 12:
        changed = False
        rounds += 1
        for n in walk(fn["body"]):
            k = n.get("k")
            if k == "Let" and "init" in n:
                pat = n["pat"]
                if pat.get("k") == "Tuple":
                    vals = [v for v in _tail_values(n["init"]) if v.get("k") == "Tup" and len(v.get("elems", [])) == len(pat["pats"])]
                    for i, sub in enumerate(pat["pats"]):
                        src = set()
                        for v in vals:
                            src |= of(v["elems"][i])
                        changed |= bind(sub, src)
                else:
                    changed |= bind(pat, of(n["init"]))
            elif k == "LetExpr":
                changed |= bind(n["pat"], of(n["init"]))
            elif k == "Match" and n.get("src") == "ForLoopDesugar":
                src = of(n["scrut"])
                enum = any(x.get("k") == "MethodCall" and x["method"] == "enumerate" for x in walk(n["scrut"]))
                for inner in walk(n["arms"][0]["body"]):
                    if inner.get("k") == "Match" and inner is not n:
                        for a2 in inner["arms"]:
                            if a2["pat"].get("variant") == "Some":
                                bs = [b for b in walk(a2["pat"]) if b.get("k") == "Binding"]
                                for i, b in enumerate(bs):
                                    if b["hid"] in origin:
                                        continue
                                    if enum and i == 0 and len(bs) > 1:
                                        origin[b["hid"]] = "#idx"
                                        changed = True
                                    elif len(src) == 1:
                                        origin[b["hid"]] = next(iter(src))
                                        changed = True
                        break
            elif k == "Match":
                src = of(n["scrut"])
                for a2 in n["arms"]:
                    changed |= bind(a2["pat"], src)
            elif k == "MethodCall" and n["args"] and any(a_.get("k") == "Closure" for a_ in n["args"]):
                src = of(n["recv"])
                enum = any(x.get("k") == "MethodCall" and x["method"] == "enumerate" for x in walk(n["recv"]))
                for a_ in n["args"]:
                    if a_.get("k") == "Closure":
                        for pat in a_.get("params", []):
                            bs = [b for b in walk(pat) if b.get("k") == "Binding"]
                            for i, b in enumerate(bs):
                                if b["hid"] in origin:
                                    continue
                                if enum and i == 0 and len(bs) > 1:
                                    origin[b["hid"]] = "#idx"
                                    changed = True
                                elif len(src) == 1:
                                    origin[b["hid"]] = next(iter(src))
                                    changed = True
    return origin


def type_field_flow(F):
    """In Module::encode_type every attribute of the emitted subtype is a pure copy/conversion of the like-named Types field:
    is_final←is_final, supertype_idx←super_type, shared←shared, mutable←mutable(+position), element_type←fields(+position) —
    no other field mixed in, no boolean/arithmetic operator, no literal.  Origins are followed through lets (including a
    tuple assembled per match arm and destructured after the match), nested matches, loops and iterator closures, so the
    rule does not depend on whether the SubType literal is built per arm or once after the match."""
    r = RuleResult("R-TYPE-FIELD-FLOW",
                   "Module::encode_type copies each attribute of a type to the like-named attribute of the encoded subtype without combining it with another field, an operator or a literal (is_final, supertype, shared, per-field mutability and storage type)")
    fn = F.one_fn(name="encode_type", self_adt="Module")
    r.analysed.append(fn["path"])
    seed = {}
    per_variant_ok = {}
    for m in walk(fn["body"]):
        if m.get("k") != "Match":
            continue
        for arm in m["arms"]:
            for leaf in pat_alternatives(arm["pat"]):
                if leaf.get("k") == "Struct" and leaf.get("adt") == TYPES and leaf.get("variant"):
                    for fname, sub in leaf["fields"]:
                        for b in walk(sub):
                            if b.get("k") == "Binding":
                                seed[b["hid"]] = fname
    if not seed:
        raise CheckError("encode_type: no match over Types with bound fields found")
    origin = _origins(fn, seed)
    n = 0
    for lit in walk(fn["body"]):
        if lit.get("k") != "Struct" or "rest" in lit or not (lit.get("adt") or "").startswith("wasm_encoder::"):
            continue
        for d, val in lit["fields"]:
            want = TYPE_DEST_SRC.get(d)
            if want is None:
                continue
            n += 1
            used = {origin.get(x["res"]["hid"], "?" + x["res"].get("name", "")) for x in walk(val) if x.get("k") == "Path" and x.get("res", {}).get("r") == "local"}
            used.discard("#idx")
            ops = [x.get("op") for x in walk(val) if x.get("k") == "Binary"] + ["!" for x in walk(val) if x.get("k") == "Unary" and x.get("op") == "!"]
            lits = [x.get("lit") for x in walk(val) if x.get("k") == "Lit"]
            ok = used == {want} and not ops and not lits
            r.ob(ok, {"dest": d, "from": sorted(used), "operators": ops})
            if not ok:
                r.violate("%s | %s" % (fn["path"], d), F.loc(fn, val),
                          "encode_type computes `%s` from %s%s%s instead of copying the type's own `%s`: the encoded type is not the one requested" % (
                              d, sorted(used) or "nothing", (" with operator(s) " + ",".join(ops)) if ops else "", (" and literal(s) " + ",".join(lits)) if lits else "", want))
    r.count("copied_attributes", n)
    # writer/reader agreement on how a supertype index is packed: what the adders store with PackedIndex::from_<K>_index the
    # encoder must read back with as_<K>_index — an index packed as another kind reads back as None and the supertype is lost
    import re as _re
    packs = {}
    for g in F.fns:
        if g.get("body") is None or not (g.get("self_adt") or "").endswith("ModuleTypes"):
            continue
        for c in walk(g["body"]):
            if c.get("k") in ("Call", "MethodCall"):
                m_ = _re.search(r"PackedIndex::from_([a-z_]+)_index$", (c.get("callee") or ""))
                if m_:
                    packs.setdefault(m_.group(1), []).append((g, c))
    reads = set()
    for c in walk(fn["body"]):
        if c.get("k") in ("Call", "MethodCall"):
            m_ = _re.search(r"PackedIndex::as_([a-z_]+)_index$", (c.get("callee") or ""))
            if m_:
                reads.add(m_.group(1))
    if packs and reads:
        for kind, sites in sorted(packs.items()):
            for g, c in sites:
                ok = kind in reads
                r.ob(ok, {"stored by": g["name"], "packed as": kind, "encoder reads": sorted(reads)})
                if not ok:
                    r.violate("%s | supertype packed as %s" % (g["path"], kind), F.loc(g, c),
                              "%s stores the supertype with PackedIndex::from_%s_index but encode_type only reads as_%s_index: the declared supertype is silently dropped from the encoded type" % (g["name"], kind, "/".join(sorted(reads))))
    return r


def call_arg_names(F):
    """R-ARG-NAMES: at a call of a function from another crate (the encoder's builders above all) two arguments that are
    plain field reads `x.f`, `y.g` are not handed to the parameters named `g` and `f` respectively.  Only a *crossed* pair is
    reported (both names exist on the other side): `mty.import(import.name, import.module, ..)` for
    `fn import(&mut self, module: &str, name: &str, ..)`.  Same-typed string/index parameters make such a swap invisible to
    the type checker."""
    r = RuleResult("R-ARG-NAMES",
                   "no call of a foreign function passes field `f` for the parameter named `g` while passing field `g` for the parameter named `f`")
    n_calls = n_pairs = 0

    def field_name(e):
        e = peel(e)
        while isinstance(e, dict):
            if e.get("k") == "MethodCall" and e["method"] in ("clone", "to_owned", "to_string", "as_str", "as_ref", "into", "as_slice", "borrow", "to_vec", "copied", "cloned") and not e.get("args"):
                e = peel(e["recv"])
            elif e.get("k") in ("AddrOf",) or (e.get("k") == "Unary" and e.get("op") == "*"):
                e = peel(e["a"])
            elif e.get("k") == "Cast":
                e = peel(e["a"])
            else:
                break
        if isinstance(e, dict) and e.get("k") == "Field" and not e["name"].isdigit():
            return e["name"]
        return None
    for fn in F.fns:
        if fn.get("body") is None:
            continue
        for c in walk(fn["body"]):
            if c.get("k") not in ("Call", "MethodCall") or not isinstance(c.get("pnames"), list):
                continue
            pn = list(c["pnames"])
            if c["k"] == "MethodCall" and pn and pn[0] == "self":
                pn = pn[1:]
            args = list(c.get("args") or [])
            if len(pn) != len(args) or len(args) < 2:
                continue
            fl = [field_name(a) for a in args]
            if sum(1 for f_ in fl if f_) < 2:
                continue
            n_calls += 1
            if fn["path"] not in r.analysed:
                r.analysed.append(fn["path"])
            for i in range(len(args)):
                for j in range(i + 1, len(args)):
                    if not (fl[i] and fl[j] and pn[i] and pn[j]) or fl[i] == fl[j] or pn[i] == pn[j]:
                        continue
                    n_pairs += 1
                    crossed = fl[i] == pn[j] and fl[j] == pn[i]
                    r.ob(not crossed)
                    if crossed:
                        r.violate("%s | %s(%s↔%s)" % (fn["path"], (c.get("callee") or "?").split("::")[-1], pn[i], pn[j]), F.loc(fn, c),
                                  "`%s` receives field `%s` for its parameter `%s` and field `%s` for its parameter `%s`: the two are crossed" % (
                                      (c.get("callee") or "?").split("::")[-1], fl[i], pn[i], fl[j], pn[j]))
    r.count("foreign_calls_with_field_arguments", n_calls)
    r.count("argument_pairs", n_pairs)
    r.obligations = max(r.obligations, 1)
    if not r.violations:
        r.discharged = r.obligations
    return r


def foreign_fields_cover(F):
    """R-FOREIGN-FIELDS: a parsed wasmparser struct is re-encoded field by field.  Where a function reads two or more named
    fields of such a struct, it reads all of them — a field that is skipped (`case.refines` replaced by `None`) is silently
    reset on re-encoding.  Fields whose type is an enum with a single variant carry no information and are exempt."""
    r = RuleResult("R-FOREIGN-FIELDS",
                   "every function that reads two or more named fields of a wasmparser struct reads all of its fields (single-variant enum fields excepted)")
    n = 0
    for fn in F.fns:
        if fn.get("body") is None:
            continue
        # scope: the component encoders, which rebuild every item field by field (the module encoder converts whole values
        # through `From` impls and reads single fields only for its side-effect records)
        if not (fn.get("file") or "").endswith(("ir/component.rs", "ir/wrappers.rs")):
            continue
        use = {}
        for x in walk(fn["body"]):
            if x.get("k") == "Field" and not x["name"].isdigit():
                bt = (x.get("base_ty") or "").replace("&mut ", "").replace("&", "").split("<")[0]
                if bt.startswith("wasmparser::") and bt in F.adts:
                    use.setdefault(bt, set()).add(x["name"])
            # fields bound by a destructuring pattern count as read
            if x.get("k") == "Struct" and "pats" not in x and isinstance(x.get("fields"), list) and (x.get("adt") or "").startswith("wasmparser::") and x.get("adt") in F.adts \
                    and x["fields"] and isinstance(x["fields"][0], list) and isinstance(x["fields"][0][1], dict) and x["fields"][0][1].get("k") in ("Binding", "Wild", "Struct", "Tuple", "TupleStruct", "Ref"):
                names_ = {f_[0] for f_ in x["fields"] if isinstance(f_[1], dict) and f_[1].get("k") != "Wild"}
                use.setdefault(x["adt"], set()).update(names_)
                if "rest" not in x and not x.get("has_rest"):
                    pass
        for bt, fs in sorted(use.items()):
            vs_ = F.adts[bt]["variants"]
            if len(vs_) != 1:
                continue
            allf = {}
            for f_ in vs_[0]["fields"]:
                allf[f_["name"]] = f_.get("ty") or ""
            if len(fs) < 2 or len(allf) < 3:
                continue
            missing = []
            for nm, ty in allf.items():
                if nm in fs or nm.isdigit():
                    continue
                t_ = ty.replace("&", "").split("<")[0]
                if t_ in F.adts and len(F.adts[t_]["variants"]) == 1 and F.adts[t_].get("kind") == "enum":
                    continue        # a single-variant enum: nothing to lose
                if t_.endswith("ops::Range"):
                    continue        # a byte range of the input: position, not content
                missing.append(nm)
            n += 1
            if fn["path"] not in r.analysed:
                r.analysed.append(fn["path"])
            r.ob(not missing, {"fn": fn["path"], "struct": bt.split("::")[-1], "reads": sorted(fs), "skips": missing})
            if missing:
                r.violate("%s | %s skips %s" % (fn["path"], bt.split("::")[-1], "+".join(sorted(missing))), F.loc(fn),
                          "%s reads fields %s of wasmparser::%s but never `%s`: that part of the parsed item is dropped (reset to a constant) when it is re-encoded" % (fn["name"], sorted(fs), bt.split("::")[-1], "`, `".join(sorted(missing))))
    r.count("foreign_structs_read", n)
    r.obligations = max(r.obligations, 1)
    if not r.violations and r.discharged == 0:
        r.discharged = r.obligations
    return r


def parse_arm_faithful(F):
    """R-PARSE-ARM: what the reader delivered is what the IR stores.
    (a) No match arm over a `wasmparser` enum elides its payload by value: an arm whose guard reads a bound payload that
        its body then never mentions stores nothing of that payload for the values the guard selects, so two different
        inputs become one IR value (the crate has no such arm; a guard here is always a value test on parsed content).
    (b) Where the reader's enum and the IR's enum carry the same name (`wasmparser::ElementItems` → `ElementItems`, …)
        the IR variant is chosen by the reader's variant alone: one arm constructs one IR variant.  An arm that inspects
        the payload and sometimes constructs a *different* variant re-spells the input (an expression segment becomes an
        index segment and loses its element type)."""
    r = RuleResult("R-PARSE-ARM",
                   "in every match over a wasmparser enum: no arm's guard consumes a bound payload that the arm's body drops; and in a conversion between same-named reader/IR enums each arm constructs exactly one IR variant")
    n_match = n_arm = n_homo = 0
    for fn in F.fns:
        if fn.get("body") is None or fn.get("kind") == "Closure" and False:
            continue
        for m in walk(fn["body"]):
            if m.get("k") != "Match" or "wasmparser::" not in (m.get("scrut_ty") or ""):
                continue
            n_match += 1
            rd = (m["scrut_ty"].split("<")[0]).replace("&", "").replace("mut ", "").strip()
            rd_name = rd.split("::")[-1]
            for arm in m["arms"]:
                n_arm += 1
                binds = {b["hid"]: b["name"] for b in walk(arm["pat"]) if b.get("k") == "Binding"}
                b_ = peel(arm["body"])
                predicate_or_reject = (b_.get("k") == "Lit" and (b_.get("ty") == "bool" or "Bool" in (b_.get("lit") or ""))) or (arm["body"].get("ty") == "bool") or diverges(arm["body"])
                if arm.get("guard") is not None and binds and not predicate_or_reject:
                    g = {y["res"]["hid"] for y in walk(arm["guard"]) if y.get("k") == "Path" and y.get("res", {}).get("r") == "local"}
                    bd = {y["res"]["hid"] for y in walk(arm["body"]) if y.get("k") == "Path" and y.get("res", {}).get("r") == "local"}
                    dropped = sorted(binds[h] for h in binds if h in g and h not in bd)
                    r.ob(not dropped, {"fn": fn["path"], "arm": sorted(v for _a, v in pat_variants(arm["pat"])[0]), "guard-only payload": dropped})
                    if dropped:
                        r.violate("%s | %s arm drops payload %s after testing it" % (fn["path"], "/".join(sorted(v for _a, v in pat_variants(arm["pat"])[0])), ",".join(dropped)), F.loc(fn, arm["pat"]),
                                  "the `%s` arm tests the parsed payload `%s` in its guard and then stores nothing of it: every input the guard selects is stored as if the payload were absent, and is re-encoded in a different form (or, where the form matters for typing, as an invalid module)" % (
                                      "/".join(sorted(v for _a, v in pat_variants(arm["pat"])[0])), ",".join(dropped)))
                # (b)
                made = set()
                for y in walk(arm["body"]):
                    for k_ in ("fres", "res"):
                        d_ = y.get(k_)
                        if isinstance(d_, dict) and d_.get("variant") and (d_.get("adt") or "").startswith("ir::") and d_["adt"].split("::")[-1] == rd_name:
                            made.add(d_["variant"])
                    if y.get("k") == "Struct" and y.get("variant") and (y.get("adt") or "").startswith("ir::") and y["adt"].split("::")[-1] == rd_name:
                        made.add(y["variant"])
                if made:
                    n_homo += 1
                    ok = len(made) == 1
                    r.ob(ok, {"fn": fn["path"], "reader arm": sorted(v for _a, v in pat_variants(arm["pat"])[0]), "IR variants constructed": sorted(made)})
                    if not ok:
                        r.violate("%s | %s arm constructs %s" % (fn["path"], "/".join(sorted(v for _a, v in pat_variants(arm["pat"])[0])), "+".join(sorted(made))), F.loc(fn, arm["pat"]),
                                  "the `%s` arm of the %s conversion constructs more than one IR variant (%s): which one is stored depends on the payload's contents, so some inputs are re-spelled as another kind and lose what only their own kind carries (the element type of an expression segment)" % (
                                      "/".join(sorted(v for _a, v in pat_variants(arm["pat"])[0])), rd_name, ", ".join(sorted(made))))
    r.count("reader_matches", n_match)
    r.count("reader_arms", n_arm)
    r.count("same_name_arms", n_homo)
    if n_match < 100:
        raise CheckError("matches over wasmparser enums not found (facts changed?): %d" % n_match)
    return r


def name_index_selects(F):
    """R-NAME-INDEX: while the function-name subsection is parsed, the function that receives a name is *selected by the
    index the entry carries*: each write of a name happens to an element that was looked up with a value derived from
    `naming.index` (`get_mut(rel_idx)`, `[idx]`, `.nth(idx)`), or under an equality test against such a value.  A write
    whose target comes from merely advancing an iterator pairs the k-th entry with the k-th function: name maps may
    omit functions, so every name after the first omitted one lands on the wrong function.  Helpers the arm calls are
    followed (two levels), with the parameters that receive an index-derived argument counted as index-derived."""
    from vlib.facts import binding_site, guard_conditions
    r = RuleResult("R-NAME-INDEX",
                   "in parse_internal's wasmparser::Name::Function arm every name write addresses its function through the entry's index (indexed lookup or equality guard), never through iteration order alone")
    pi = F.one_fn(name="parse_internal", self_adt="Module")
    r.analysed.append(pi["path"])
    count = [0]

    def analyse(owner, body, idx_hids, depth):
        def idx_derived(e, d=0):
            if d > 4 or not isinstance(e, (dict, list)):
                return False
            for y in walk(e):
                if y.get("k") == "Field" and y["name"] == "index":
                    return True
                if y.get("k") == "Path" and y.get("res", {}).get("r") == "local" and y["res"].get("hid") in idx_hids:
                    return True
            for y in walk(e):
                if y.get("k") == "Path" and y.get("res", {}).get("r") == "local":
                    _p, scr, _k = binding_site(body, y["res"]["hid"])
                    if scr is not None and scr is not e and _k != "for" and idx_derived(scr, d + 1):
                        return True
            return False

        for x in walk(body):
            if x.get("k") in ("Call", "MethodCall") and depth < 2:
                cs = F.by_path.get(x.get("inst") or x.get("callee") or "") or []
                if len(cs) == 1 and cs[0].get("body") is not None and cs[0] is not owner and cs[0].get("file", "").startswith("src/") and cs[0]["name"] not in ("add_to_namemap",):
                    args = ([x["recv"]] if x.get("k") == "MethodCall" else []) + (x.get("args") or [])
                    pms = cs[0].get("params", [])
                    if len(pms) == len(args) and any(idx_derived(a) for a in args):
                        sub = set()
                        for pm, a in zip(pms, args):
                            if idx_derived(a):
                                for b in walk(pm["pat"]):
                                    if b.get("k") == "Binding":
                                        sub.add(b["hid"])
                        if cs[0]["path"] not in r.analysed:
                            r.analysed.append(cs[0]["path"])
                        analyse(cs[0], cs[0]["body"], sub, depth + 1)
            if x.get("k") != "Assign":
                continue
            pp = place_path(x["lhs"]) or ""
            if not (pp.endswith(".custom_name") or pp.endswith(".name") or pp.endswith(".func_name")):
                continue
            count[0] += 1
            root = peel(x["lhs"])
            while isinstance(root, dict) and root.get("k") in ("Field", "Index", "Deref", "Unary", "MethodCall"):
                if root.get("k") == "Index" and idx_derived(root["index"]):
                    break
                if root.get("k") == "MethodCall" and idx_derived(root.get("args") or []):
                    break
                root = peel(root.get("base") or root.get("recv") or root.get("a") or root.get("e") or {})
            by_lookup = False
            if isinstance(root, dict) and root.get("k") in ("Index", "MethodCall"):
                by_lookup = True
            elif isinstance(root, dict) and root.get("k") == "Path" and root.get("res", {}).get("r") == "local":
                _p, scr, kind = binding_site(body, root["res"]["hid"])
                if scr is not None and kind != "for" and idx_derived(scr):
                    by_lookup = True
            by_eq = False
            for pol, cond in guard_conditions(body, x):
                if pol is True:
                    for c in walk(cond):
                        if c.get("k") == "Binary" and c.get("op") == "==" and (idx_derived(c["a"]) or idx_derived(c["b"])):
                            by_eq = True
                        if c.get("k") == "MethodCall" and c["method"] == "eq" and idx_derived([c["recv"]] + (c.get("args") or [])):
                            by_eq = True
                elif pol == "pat":
                    if idx_derived(cond[1]) and not (peel(cond[1]).get("k") == "Path"):
                        by_lookup = True
            ok = by_lookup or by_eq
            r.ob(ok, {"in": owner["name"], "write": pp, "selected by": "indexed lookup" if by_lookup else ("equality with the entry's index" if by_eq else "iteration order")})
            if not ok:
                r.violate("%s | %s written by iteration order" % (owner["path"], pp.split(".")[-1]), F.loc(owner, x),
                          "the function-name parser writes `%s` to an element that is not looked up by, or compared for equality with, the entry's index: the k-th name goes to the k-th function, and a name map that omits a function shifts every later name onto the wrong one" % pp)

    found_arm = False
    for m in walk(pi["body"]):
        if m.get("k") != "Match" or (m.get("scrut_ty") or "").split("<")[0] != "wasmparser::Name":
            continue
        for arm in m["arms"]:
            if ("wasmparser::Name", "Function") not in pat_variants(arm["pat"])[0]:
                continue
            found_arm = True
            analyse(pi, arm["body"], set(), 0)
    r.count("name_writes", count[0])
    if not found_arm:
        r.undecided("the wasmparser::Name::Function arm is not in parse_internal's own body (moved into a helper): name writes not analysed")
    elif count[0] < 2:
        r.undecided("fewer than two function-name writes found under the Name::Function arm (%d): the arm was restructured beyond what this rule follows" % count[0])
    return r


def namemap_copy_complete(F):
    """R-NAMEMAP-COPY: the converters that copy a parsed name map into the encoder's name map copy *every* decoded entry:
    inside the copy loop the `append` is not under an `if`, and no `continue` precedes it.  (A `break` on a decoding error
    ends the map — that is the documented behaviour for a malformed custom section — and is not a filter.)  A filter on
    the way (de-duplication by name, a bounds test) silently drops names the module carries."""
    from vlib.facts import path_to, conditional_ancestors, sp_before
    r = RuleResult("R-NAMEMAP-COPY",
                   "every loop that copies a wasmparser name map into a wasm_encoder (Indirect)NameMap appends each decoded entry unconditionally: no `if` around the append, no `continue` before it")
    n = 0
    for fn in F.fns:
        if fn.get("body") is None or not fn.get("file", "").endswith("ir/wrappers.rs"):
            continue
        for x in walk(fn["body"]):
            if not (x.get("k") == "MethodCall" and x["method"] == "append" and "wasm_encoder" in ((x["recv"].get("ty") or "") + (x.get("callee") or "") + (x.get("inst") or "")) and "NameMap" in ((x["recv"].get("ty") or "") + (x.get("callee") or "") + (x.get("inst") or ""))):
                continue
            pth = path_to(fn["body"], x) or []
            loops = [a for a, _ in pth if isinstance(a, dict) and a.get("k") == "Loop"]
            if not loops:
                continue
            lp = loops[-1]
            n += 1
            if fn["path"] not in r.analysed:
                r.analysed.append(fn["path"])
            conds = [c for c in (conditional_ancestors(lp, x) or []) if c.get("k") == "If" and peel(c.get("cond") or {}).get("k") != "LetExpr"]
            conts = []
            for y in walk(lp):
                if y.get("k") == "Continue" and y.get("sp") and sp_before(y, x):
                    inner = [a for a, _ in (path_to(lp, y) or []) if isinstance(a, dict) and a.get("k") in ("Loop", "Closure") and a is not lp]
                    if not inner:
                        conts.append(y)
            ok = not conds and not conts
            r.ob(ok, {"fn": fn["path"], "append": "unconditional" if ok else ("under an if" if conds else "after a continue")})
            if not ok:
                r.violate("%s | filtered copy" % fn["path"], F.loc(fn, (conds or conts)[0]),
                          "%s does not append every decoded entry of the name map (%s): names the input carries are dropped from the output" % (
                              fn["name"], "the append is under an `if`" if conds else "a `continue` skips entries before the append"))
    r.count("copy_loops", n)
    if n < 1:
        r.undecided("no loop in ir/wrappers.rs appends to a wasm_encoder name map: the copy was restated in a form this rule does not follow")
    return r
