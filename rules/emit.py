"""Encoder-side rules over Module::encode_internal: R-EMIT-MAPPED, R-MAP-ARGS,
R-MISS-LOUD, R-DEL-GUARD, R-SECTION-ORDER, R-TAG-EMIT, R-IDEMPOTENT-ENCODE."""
import os
import re

from vlib import mirutil
from vlib.facts import diverges, walk, peel, place_path, pat_variants, pat_alternatives, CheckError, REPO, uncond_before, sp_before, conditional_ancestors, lca, path_to, binding_site
from vlib.report import RuleResult
from rules.nopanic import snippet

KINDS = ("func", "global", "memory")
SELF_FIELD_KIND = {"functions": "func", "globals": "global", "memories": "memory"}


def enc_fn(F):
    return F.one_fn(name="encode_internal", self_adt="Module")


LEAF_FIELD_KIND = {
    "function_index": "func", "global_index": "global",
    "mem": "memory", "src_mem": "memory", "dst_mem": "memory", "memory": "memory", "memory_index": "memory",
}
LEAF_VARIANT_KIND = {("InitInstr", "Global"): "global", ("InitInstr", "RefFunc"): "func"}
_PK_CACHE = {}


def _is_u32_map(ty):
    return "HashMap<u32, u32" in (ty or "")


def _binding_origins(fn):
    """hid → kind for pattern bindings whose origin names an index space: a struct-pattern field called
    function_index/global_index/mem/src_mem/dst_mem/memory_index, or the payload of InitInstr::Global/RefFunc."""
    out = {}
    for p in walk(fn.get("body") or {}):
        k = p.get("k")
        if k == "Struct" and "fields" in p and p.get("adt") and isinstance(p["fields"], list):
            for item in p["fields"]:
                if not (isinstance(item, list) and len(item) == 2 and isinstance(item[1], dict)):
                    continue
                fname, sub = item
                for b in walk(sub):
                    if b.get("k") == "Binding" and fname in LEAF_FIELD_KIND:
                        out[b["hid"]] = LEAF_FIELD_KIND[fname]
        elif k == "TupleStruct" and p.get("variant"):
            key = ((p.get("adt") or "").split("::")[-1], p["variant"])
            if key in LEAF_VARIANT_KIND:
                for b in walk(p):
                    if b.get("k") == "Binding":
                        out[b["hid"]] = LEAF_VARIANT_KIND[key]
    return out


def _leaf_kind_of_key(arg, origins):
    kinds = set()
    for n in walk(arg):
        if n.get("k") == "Field" and n["name"] in LEAF_FIELD_KIND and "MemArg" in (n.get("base_ty") or "MemArg"):
            if n["name"] == "memory":
                kinds.add("memory")
        if n.get("k") == "Path" and n.get("res", {}).get("r") == "local" and n["res"].get("hid") in origins:
            kinds.add(origins[n["res"]["hid"]])
    return kinds


def param_kinds(F):
    """Infer, for every local function parameter of type &HashMap<u32,u32>, which index space the map is *used* for:
    from the key of each `.get(..)` on it (an Operator/InitInstr field naming the space) and, transitively, from the
    callee parameters it is passed to.  Names of parameters and locals play no role.  → {(fn path, param idx): set(kinds)}"""
    if id(F) in _PK_CACHE:
        return _PK_CACHE[id(F)]
    fns = [f for f in F.fns if f.get("body") is not None and any(_is_u32_map(p.get("ty")) for p in f.get("params", []))]
    kinds = {}
    phid = {}
    for f in fns:
        for i, p in enumerate(f["params"]):
            if _is_u32_map(p.get("ty")) and p["pat"].get("k") == "Binding":
                kinds[(f["path"], i)] = set()
                phid[(f["path"], p["pat"]["hid"])] = i
    # pairing evidence: a tuple `(index_place, map, ..)` that carries a map parameter next to an index whose origin names a
    # space (e.g. `InitInstr::Global(id) => (id, <map>, ..)`) uses that map for that space when the tuple is consumed
    for f in fns:
        origins = _binding_origins(f)
        for t in walk(f["body"]):
            if t.get("k") != "Tup":
                continue
            maps_in = []
            ks = set()
            for el in t.get("elems", []):
                pv = peel(el)
                if pv.get("k") == "Path" and pv.get("res", {}).get("r") == "local" and (f["path"], pv["res"]["hid"]) in phid:
                    maps_in.append(phid[(f["path"], pv["res"]["hid"])])
                else:
                    ks |= _leaf_kind_of_key(el, origins)
            if maps_in and len(ks) == 1:
                for i in maps_in:
                    kinds[(f["path"], i)] |= ks
    changed = True
    rounds = 0
    while changed and rounds < 10:
        changed = False
        rounds += 1
        for f in fns:
            origins = _binding_origins(f)
            for c in walk(f["body"]):
                if c.get("k") not in ("Call", "MethodCall"):
                    continue
                if c["k"] == "MethodCall" and c["method"] == "get":
                    rv = peel(c["recv"])
                    if rv.get("k") == "Path" and rv.get("res", {}).get("r") == "local" and (f["path"], rv["res"]["hid"]) in phid:
                        ks = _leaf_kind_of_key(c["args"][0], origins) if c["args"] else set()
                        slot = kinds[(f["path"], phid[(f["path"], rv["res"]["hid"])])]
                        if not ks <= slot:
                            slot |= ks
                            changed = True
                    continue
                callee = c.get("inst") or c.get("callee")
                tgt = F.by_path.get(callee or "")
                if not tgt or len(tgt) != 1:
                    continue
                args = ([c["recv"]] if c["k"] == "MethodCall" else []) + list(c["args"])
                for j, a in enumerate(args):
                    if (tgt[0]["path"], j) not in kinds:
                        continue
                    av = peel(a)
                    if av.get("k") == "Path" and av.get("res", {}).get("r") == "local" and (f["path"], av["res"]["hid"]) in phid:
                        slot = kinds[(f["path"], phid[(f["path"], av["res"]["hid"])])]
                        add = kinds[(tgt[0]["path"], j)]
                        if not add <= slot:
                            slot |= add
                            changed = True
    _PK_CACHE[id(F)] = kinds
    return kinds


def encoder_roles(F):
    """fn path → 'ENC' (passes its operator parameter to wasm_encoder::Function::instruction without fixing it) or
    'FIXENC' (applies fix_op_id_mapping to the operator(s) it is given and then encodes them, on every path)."""
    roles = {}
    for g in F.fns:
        if g.get("body") is None:
            continue
        op_params = [pm for pm in g.get("params", []) if "Operator" in (pm.get("ty") or "")]
        if not op_params:
            continue
        sinks = [c for c in walk(g["body"]) if c.get("k") == "MethodCall" and (c.get("inst") or "").endswith("Function::instruction")]
        if sinks and not any(x.get("k") == "Call" and (x.get("callee") or "").endswith("fix_op_id_mapping") for x in walk(g["body"])):
            roles[g["path"]] = "ENC"
    changed = True
    while changed:
        changed = False
        for g in F.fns:
            if g.get("body") is None or g["path"] in roles:
                continue
            op_params = [pm for pm in g.get("params", []) if "Operator" in (pm.get("ty") or "")]
            if not op_params:
                continue
            encs = [c for c in walk(g["body"]) if (c.get("k") == "Call" and roles.get(c.get("callee")) == "ENC") or (c.get("k") == "MethodCall" and (c.get("inst") or "").endswith("Function::instruction"))]
            fixes = [c for c in walk(g["body"]) if c.get("k") == "Call" and (c.get("callee") or "").endswith("fix_op_id_mapping")]
            if encs and fixes and all(any(uncond_before(g["body"], f_, e_)[0] for f_ in fixes) for e_ in encs):
                roles[g["path"]] = "FIXENC"
                changed = True
    return roles


def mapping_locals(fn, F=None):
    """hid → kind.  Sources: `let m = … recalculate_ids(.. self.<coll>) / get_mapping_generic(..)`.
    Parameters: the kind the parameter is *used* for (param_kinds; by-name only when F is not supplied)."""
    out = {}
    pk = param_kinds(F) if F is not None else None
    for i, p in enumerate(fn.get("params", [])):
        b = p["pat"]
        if b.get("k") == "Binding":
            if pk is not None:
                ks = pk.get((fn["path"], i))
                if ks and len(ks) == 1:
                    out[b["hid"]] = next(iter(ks))
                elif ks:
                    out[b["hid"]] = "+".join(sorted(ks))  # one map used for two spaces: never equals a wanted kind
                continue
            for k in KINDS:
                if b["name"] == k + "_mapping" or (k == "func" and b["name"] in ("fn_mapping", "function_mapping")):
                    out[b["hid"]] = k
    if fn.get("body") is None:
        return out
    for st in walk(fn["body"]):
        if st.get("k") == "Let" and st["pat"].get("k") == "Binding" and "init" in st:
            calls = [n for n in walk(st["init"]) if n.get("k") == "Call" and (n.get("callee") or "").split("::")[-1] in ("recalculate_ids", "get_mapping_generic")]
            if calls:
                kinds = set()
                for n in walk(st["init"]):
                    if n.get("k") == "Field" and n["name"] in SELF_FIELD_KIND:
                        b = peel(n["base"])
                        if b.get("k") == "Path" and b["res"].get("name") == "self":
                            kinds.add(SELF_FIELD_KIND[n["name"]])
                if len(kinds) == 1:
                    out[st["pat"]["hid"]] = kinds.pop()
    # a bundle of the maps: `let ms = IdMappings { funcs: &func_mapping, .. }` — (hid of ms, field) → kind
    for st in walk(fn["body"]):
        if st.get("k") == "Let" and st["pat"].get("k") == "Binding" and "init" in st:
            lit = peel(st["init"])
            while isinstance(lit, dict) and lit.get("k") == "AddrOf":
                lit = peel(lit["a"])
            if isinstance(lit, dict) and lit.get("k") == "Struct" and isinstance(lit.get("fields"), list) and "pats" not in lit:
                for fname, val in lit["fields"]:
                    if isinstance(val, dict):
                        k_ = kind_of_expr(val, out)
                        if k_:
                            out[(st["pat"]["hid"], fname)] = k_
    return out


def kind_of_expr(e, maps):
    e = peel(e)
    while isinstance(e, dict) and (e.get("k") == "AddrOf" or (e.get("k") == "Unary" and e.get("op") == "*")):
        e = peel(e["a"])
    if e.get("k") == "Path" and e.get("res", {}).get("r") == "local":
        return maps.get(e["res"]["hid"])
    if e.get("k") == "Field":
        b = peel(e["base"])
        while isinstance(b, dict) and (b.get("k") == "AddrOf" or (b.get("k") == "Unary" and b.get("op") == "*")):
            b = peel(b["a"])
        if isinstance(b, dict) and b.get("k") == "Path" and b.get("res", {}).get("r") == "local":
            return maps.get((b["res"]["hid"], e["name"]))
    return None


def mapping_lookups(e, maps):
    """kinds of mapping `.get(..)` lookups contained in expression e"""
    out = set()
    for n in walk(e):
        if n.get("k") == "MethodCall" and n["method"] == "get":
            k = kind_of_expr(n["recv"], maps)
            if k:
                out.add(k)
    return out


# --------------------------------------------------------------------------

def map_args(F):
    r = RuleResult("R-MAP-ARGS",
                   "all three old→new maps are HashMap<u32,u32>, so the type checker cannot tell them apart: (1) every map parameter is used for exactly one index space (the key of each `.get` on it is an Operator/InitInstr field of that space, transitively through callees); (2) at every call site the map passed — traced back to recalculate_ids(self.<collection>) or to the caller's own parameter — is the map of the space the callee uses that parameter for")
    pk = param_kinds(F)
    n = 0
    for (path, i), ks in sorted(pk.items()):
        tgt = F.by_path.get(path)
        if not ks:
            continue
        ok = len(ks) == 1
        r.ob(ok, {"fn": path, "param": i, "used_for": sorted(ks)})
        if not ok:
            r.violate("%s | param %d mixed" % (path, i), F.loc(tgt[0]), "one map parameter is used for several index spaces: %s" % sorted(ks))
    for fn in F.fns:
        if fn.get("body") is None:
            continue
        maps = mapping_locals(fn, F)
        if not maps:
            continue
        for c in walk(fn["body"]):
            if c.get("k") not in ("Call", "MethodCall"):
                continue
            callee = c.get("inst") or c.get("callee")
            tgt = F.by_path.get(callee or "")
            if not tgt or len(tgt) != 1 or tgt[0].get("params") is None:
                continue
            args = ([c["recv"]] if c["k"] == "MethodCall" else []) + list(c["args"])
            for j, a in enumerate(args):
                ks = pk.get((tgt[0]["path"], j))
                if not ks or len(ks) != 1:
                    continue
                want = next(iter(ks))
                pn = tgt[0]["params"][j]["pat"].get("name")
                got = kind_of_expr(a, maps)
                n += 1
                ok = got == want
                r.ob(ok, {"caller": fn["path"], "callee": tgt[0]["name"], "param": pn, "arg_kind": got})
                if fn["path"] not in r.analysed:
                    r.analysed.append(fn["path"])
                if not ok:
                    r.violate("%s | %s(#%d %s)" % (fn["path"], tgt[0]["name"], j, want), F.loc(fn, c),
                              "argument %d of %s is used by the callee as the %s map, but the %s map is passed" % (j, tgt[0]["name"], want, got))
    r.count("mapping_arguments", n)
    r.count("map_params_inferred", sum(1 for ks in pk.values() if ks))
    return r


def emit_mapped(F, kinds=KINDS, names=False):
    r = RuleResult("R-EMIT-MAPPED",
                   "no index into a re-indexable space (function/global/memory) reaches a wasm_encoder sink in encode_internal without passing through the matching old→new map: exports by kind, start, element function lists, global/data initialisers, data segment memory, code (op + injected lists), raw const-expr copies, and the index-keyed name maps")
    fn = enc_fn(F)
    repo = os.environ.get("ORCA_ANALYSED_REPO", REPO)
    r.analysed.append(fn["path"])
    maps = mapping_locals(fn, F)
    if set(maps.values()) != set(KINDS):
        raise CheckError("encode_internal: mapping locals not identified: %s" % maps)
    body = fn["body"]
    n_sinks = 0
    # 1. exports by ExternalKind
    ek = "wasmparser::ExternalKind"
    em = [m for m in walk(body) if m.get("k") == "Match" and m.get("scrut_ty", "").replace("&", "") == ek]
    if len(em) != 1:
        raise CheckError("encode_internal: expected one match on ExternalKind, found %d" % len(em))
    em = em[0]
    kind_of_variant = {"Func": "func", "Global": "global", "Memory": "memory"}
    for variant in F.variants(ek):
        arm = None
        for a in em["arms"]:
            vs, wild = pat_variants(a["pat"])
            if (ek, variant) in vs or (wild and arm is None and not any((ek, variant) in pat_variants(b["pat"])[0] for b in em["arms"])):
                arm = a
                break
        if arm is None:
            continue
        calls = [c for c in walk(arm["body"]) if c.get("k") == "MethodCall" and (c.get("inst") or "").endswith("ExportSection::export")]
        need = kind_of_variant.get(variant)
        for c in calls:
            n_sinks += 1
            got = mapping_lookups(c["args"][2], maps)
            if need is None:
                r.ob(True)
                continue
            if need not in kinds:
                continue
            ok = got == {need}
            r.ob(ok, {"sink": "export " + variant, "index_mapped_through": sorted(got)})
            if not ok:
                r.violate("%s | export %s" % (fn["path"], variant), F.loc(fn, c),
                          "exported %s index is emitted %s: after an edit that shifts the %s index space the export designates a different %s" % (
                              variant, "through the %s map" % sorted(got) if got else "raw (export.index)", need, variant.lower()))
    # 1b. an export sink that is NOT inside an arm of the kind dispatch: the index it emits must have been assigned from a
    #     lookup in a map that was itself selected by the kind dispatch (`let m = match kind {Func => Some(&func_map), ..}`)
    in_arms = set()
    for a in em["arms"]:
        for c in walk(a["body"]):
            if c.get("k") == "MethodCall" and (c.get("inst") or "").endswith("ExportSection::export"):
                in_arms.add(id(c))
    for c in walk(body):
        if c.get("k") == "MethodCall" and (c.get("inst") or "").endswith("ExportSection::export") and id(c) not in in_arms:
            n_sinks += 1
            arm_kind = {}
            for a in em["arms"]:
                vs, wild = pat_variants(a["pat"])
                ks = {kind_of_expr(x, maps) for x in walk(a["body"]) if x.get("k") == "Path"} - {None}
                for (_, v) in vs:
                    arm_kind[v] = ks
            sel_hid = None
            for st in walk(body):
                if st.get("k") == "Let" and st.get("init") is em and st["pat"].get("k") == "Binding":
                    sel_hid = st["pat"]["hid"]
            idx_place = place_path(c["args"][2])
            assigned = False
            for asg in walk(body):
                if asg.get("k") == "Assign" and place_path(asg["lhs"]) == idx_place and idx_place:
                    gets = [g for g in walk(asg["rhs"]) if g.get("k") == "MethodCall" and g["method"] == "get"]
                    if gets and sp_before(asg, c):
                        assigned = True
            # shape A': `let m = match kind {Func => Some(&func_map), ..}; let idx = match m { Some(mm) => *mm.get(&export.index).., None => export.index }`
            a2_ = peel(c["args"][2])
            if not assigned and sel_hid is not None and a2_.get("k") == "Path" and a2_.get("res", {}).get("r") == "local":
                for st in walk(body):
                    if st.get("k") == "Let" and st["pat"].get("hid") == a2_["res"]["hid"] and isinstance(st.get("init"), dict) and sp_before(st, c):
                        uses_sel = any(x.get("k") == "Path" and x.get("res", {}).get("hid") == sel_hid for x in walk(st["init"]))
                        gets = [g for g in walk(st["init"]) if g.get("k") == "MethodCall" and g["method"] == "get"]
                        # a miss in the selected map must fail loudly: each lookup is unwrapped/expected, and no
                        # `unwrap_or(export.index)`-style fallback conflates "kind has no map" with "id not in the map"
                        loud = all(any(m_.get("k") == "MethodCall" and m_.get("recv") is g and (m_["method"] in ("unwrap", "expect") or (
                                       m_["method"] == "unwrap_or_else" and m_.get("args") and peel(m_["args"][0]).get("k") == "Closure" and diverges(peel(m_["args"][0])["body"])))
                                       for m_ in walk(st["init"])) for g in gets)
                        soft = any(m_.get("k") == "MethodCall" and m_["method"] in ("unwrap_or", "unwrap_or_default", "unwrap_or_else", "or", "or_else") and not (
                                   m_["method"] == "unwrap_or_else" and m_.get("args") and peel(m_["args"][0]).get("k") == "Closure" and diverges(peel(m_["args"][0])["body"]))
                                   for m_ in walk(st["init"]))
                        if uses_sel and gets and loud and not soft:
                            assigned = True
            # shape B: `let idx = match export.kind { Func => *func_map.get(..), .. }; exports.export(.., idx)`
            idx_from_dispatch = False
            if a2_.get("k") == "Path" and a2_.get("res", {}).get("r") == "local":
                for st in walk(body):
                    if st.get("k") == "Let" and st["pat"].get("hid") == a2_["res"]["hid"] and st.get("init") is em:
                        idx_from_dispatch = True
            elif any(x is em for x in walk(c["args"][2])):
                idx_from_dispatch = True
            for variant, need in kind_of_variant.items():
                if need not in kinds:
                    continue
                if idx_from_dispatch:
                    arm_ = next((a for a in em["arms"] if (ek, variant) in pat_variants(a["pat"])[0]), None)
                    got_ = mapping_lookups(arm_["body"], maps) if arm_ else set()
                    ok = got_ == {need}
                    r.ob(ok, {"sink": "export " + variant + " (index computed by the kind dispatch)", "index_mapped_through": sorted(got_)})
                    if not ok:
                        r.violate("%s | export %s" % (fn["path"], variant), F.loc(fn, c),
                                  "exported %s index is emitted %s: after an edit that shifts the %s index space the export designates a different %s" % (
                                      variant, "through the %s map" % sorted(got_) if got_ else "raw (export.index)", need, variant.lower()))
                    continue
                ok = sel_hid is not None and assigned and arm_kind.get(variant) == {need}
                r.ob(ok, {"sink": "export " + variant + " (dispatch hoisted out of the sink)", "map_selected": sorted(arm_kind.get(variant) or [])})
                if not ok:
                    r.violate("%s | export %s" % (fn["path"], variant), F.loc(fn, c),
                              "exported %s index is emitted outside the kind dispatch and is not provably remapped through the %s map" % (variant, need))
    # 2. start
    if "func" in kinds:
        ok = False
        for n in walk(body):
            if n.get("k") == "Assign" and (place_path(n["lhs"]) or "") == "self.start":
                rhs = peel(n["rhs"])
                if "func" in mapping_lookups(n["rhs"], maps):
                    ok = True   # e.g. `self.start = self.start.and_then(|s| func_mapping.get(..) ..)`
                if rhs.get("k") == "Path" and rhs["res"].get("r") == "local":
                    hid = rhs["res"]["hid"]
                    for st in walk(body):
                        if st.get("k") == "Let" and st["pat"].get("hid") == hid and "func" in mapping_lookups(st.get("init", {}), maps):
                            ok = True
        lits = [n for n in walk(body) if n.get("k") == "Struct" and (n.get("adt") or "").endswith("StartSection")]
        n_sinks += len(lits)
        r.ob(ok and len(lits) == 1, {"sink": "start", "self.start remapped before emission": ok})
        if not (ok and len(lits) == 1):
            r.violate("%s | start" % fn["path"], F.loc(fn), "the start function index is not remapped through the function map before emission")
    # 3. element function lists
    if "func" in kinds:
        for n in walk(body):
            if n.get("k") in ("Call",) and (n.get("fres") or {}).get("variant") == "Functions" and "Elements" in ((n.get("fres") or {}).get("adt") or ""):
                n_sinks += 1
                # its argument derives from a local; every value that local is given — on every branch of the assigning
                # expression — must be produced by a lookup in the function map (`.get`, not merely `contains_key`)
                ok = False
                src_hids = {x["res"]["hid"] for a_ in n["args"] for x in walk(a_) if x.get("k") == "Path" and x.get("res", {}).get("r") == "local"}

                def leaves(e):
                    e = peel(e)
                    if e.get("k") == "If":
                        return leaves(e["then"]) + (leaves(e["else"]) if "else" in e else [None])
                    if e.get("k") == "Match" and e.get("src") not in ("ForLoopDesugar", "TryDesugar"):
                        out_ = []
                        for a2 in e["arms"]:
                            if a2["body"].get("ty") != "!":
                                out_ += leaves(a2["body"])
                        return out_
                    if e.get("k") == "Block" and e.get("expr") is not None:
                        return leaves(e["expr"])
                    return [e]

                assigns = [st for st in walk(body) if st.get("k") == "Assign" and peel(st["lhs"]).get("res", {}).get("hid") in src_hids]
                if assigns:
                    ok = all(lf is not None and "func" in mapping_lookups(lf, maps) for st in assigns for lf in leaves(st["rhs"]))
                else:
                    ok = any("func" in mapping_lookups(a_, maps) for a_ in n["args"])
                r.ob(ok, {"sink": "element function list", "mapped": ok})
                if not ok:
                    r.violate("%s | elements" % fn["path"], F.loc(fn, n), "element segment function indices are emitted without the function map")
    # 4. raw const-expr copies
    for n in walk(body):
        if not ({"func", "global"} & set(kinds)):
            break  # constant expressions carry function/global indices only
        if n.get("k") == "MethodCall" and (n.get("inst") or n.get("callee") or "").endswith("Reencode::const_expr"):
            n_sinks += 1
            # which sink is it feeding? describe by the nearest enclosing encoder call name via source snippet
            snip = snippet(repo, fn["file"], n["sp"])
            r.ob(False, {"sink": "raw const_expr copy", "expr": snip})
            r.violate("%s | raw const_expr | %s" % (fn["path"], snip), F.loc(fn, n),
                      "a stored wasmparser::ConstExpr is re-encoded byte-for-byte (`%s`): any ref.func / global.get inside keeps its pre-edit index" % snip)
    # 5. global initialisers and data offsets: on every path to the sink, InitInstr::fix_id_mapping has been applied to
    #    every instruction of the very expression that is converted (to_wasmencoder_type) for the sink, before the conversion
    for sink_name, label in (("GlobalSection::global", "global initialiser"), ("DataSection::active", "active data offset")):
        for c in walk(body):
            if c.get("k") == "MethodCall" and (c.get("inst") or "").endswith(sink_name):
                n_sinks += 1
                convs = []  # conversion nodes whose value reaches the sink
                for a_ in c["args"]:
                    for x in walk(a_):
                        if x.get("k") == "MethodCall" and x["method"] == "to_wasmencoder_type":
                            convs.append(x)
                        if x.get("k") == "Path" and x.get("res", {}).get("r") == "local":
                            for st in walk(body):
                                if st.get("k") == "Let" and st["pat"].get("hid") == x["res"]["hid"] and "init" in st:
                                    convs += [y for y in walk(st["init"]) if y.get("k") == "MethodCall" and y["method"] == "to_wasmencoder_type"]
                ok, why = bool(convs), "no InitExpr conversion feeds the sink"
                for K in convs:
                    base = peel(K["recv"])
                    root_hid = None
                    bb = base
                    while isinstance(bb, dict) and bb.get("k") in ("Field", "Index", "Unary", "AddrOf", "MethodCall"):
                        bb = bb.get("base") or bb.get("a") or bb.get("recv")
                    if isinstance(bb, dict) and bb.get("k") == "Path":
                        root_hid = bb.get("res", {}).get("hid")
                    fixes = []
                    for loop in walk(body):
                        if loop.get("k") == "Match" and loop.get("src") == "ForLoopDesugar" and root_hid is not None and \
                                any(x.get("k") == "Path" and x.get("res", {}).get("hid") == root_hid for x in walk(loop["scrut"])):
                            fixes += [x for x in walk(loop) if x.get("k") == "MethodCall" and x["method"] == "fix_id_mapping"]
                        # iterator form: `X.exprs.iter_mut().for_each(|e| e.fix_id_mapping(..))` — the for_each call stands for
                        # the loop when the closure applies the fix to its element unconditionally
                        if loop.get("k") == "MethodCall" and loop["method"] == "for_each" and root_hid is not None and loop.get("args") and \
                                peel(loop["args"][0]).get("k") == "Closure" and \
                                any(x.get("k") == "Path" and x.get("res", {}).get("hid") == root_hid for x in walk(loop["recv"])):
                            clo = peel(loop["args"][0])
                            for fm in walk(clo["body"]):
                                if fm.get("k") == "MethodCall" and fm["method"] == "fix_id_mapping":
                                    pth = path_to(clo["body"], fm) or []
                                    if not any(isinstance(n_, dict) and n_.get("k") in ("If", "Match") for n_, _ in pth[:-1]):
                                        fixes.append(loop)
                    if not fixes:
                        ok, why = False, "fix_id_mapping is never applied to the converted expression"
                        break
                    good = False
                    for f_ in fixes:
                        g_ok, g_why = uncond_before(body, f_, K)
                        if g_ok:
                            good = True
                        else:
                            why = "fix_id_mapping (line %d) %s the conversion to the encoder form (line %d)" % (f_["sp"][0], g_why, K["sp"][0])
                    if not good:
                        ok = False
                        break
                r.ob(ok, {"sink": label, "fix_id_mapping_dominates_conversion": ok})
                if not ok:
                    r.violate("%s | %s" % (fn["path"], label), F.loc(fn, c), "%s is emitted without InitInstr::fix_id_mapping having been applied first on every path: %s" % (label, why))
                if sink_name == "DataSection::active" and "memory" in kinds:
                    got = set()
                    a0 = peel(c["args"][0])
                    src_e = c["args"][0]
                    if a0.get("k") == "Path" and a0["res"].get("r") == "local":
                        for st in walk(body):
                            if st.get("k") == "Let" and st["pat"].get("hid") == a0["res"]["hid"]:
                                src_e = st.get("init", {})
                    got = mapping_lookups(src_e, maps)
                    # every branch that yields the index must look it up (a constant fast path for "memory 0" is unmapped)
                    lvs = _value_leaves(src_e)
                    if any(lf is None or not mapping_lookups(lf, maps) for lf in lvs):
                        got = got | {"<unmapped branch>"}
                    ok = got == {"memory"}
                    r.ob(ok, {"sink": "active data memory index", "mapped_through": sorted(got)})
                    if not ok:
                        r.violate("%s | data memory index" % fn["path"], F.loc(fn, c), "active data segment memory index is not remapped through the memory map")
    # 6. code: every operator that reaches wasm_encoder::Function::instruction has had fix_op_id_mapping applied on every
    #    path.  Helpers are classified by what they do to their operator parameter, wherever they live and whatever they are
    #    called:  ENC = encodes it (calls Function::instruction on it),  FIXENC = fixes it and then encodes it.
    roles = encoder_roles(F)
    enc_calls = []
    for g in F.fns:
        if g.get("body") is None:
            continue
        for c in walk(g["body"]):
            if c.get("k") == "Call" and roles.get(c.get("callee")) == "ENC" and c["args"]:
                enc_calls.append((g, c))
    n_inst = sum(1 for v in roles.values() if v == "ENC")
    r.count("instruction_sinks", n_inst)
    for h, cc in enc_calls:
        if roles.get(h["path"]) == "FIXENC":
            n_sinks += 1
            r.ob(True, {"sink": "instruction via %s inside %s (fixes before encoding)" % (cc["callee"].split("::")[-1], h["name"])})
            continue
        n_sinks += 1
        opnd = place_path(cc["args"][0]) or "?"
        root = opnd.split(".")[0]
        fixes = [x for x in walk(h["body"]) if x.get("k") == "Call" and (x.get("callee") or "").endswith("fix_op_id_mapping")
                 and (place_path(x["args"][0]) or "").split(".")[0] == root
                 and uncond_before(h["body"], x, cc)[0]]
        ok = bool(fixes)
        r.ob(ok, {"sink": "instruction via %s(%s)" % (cc["callee"].split("::")[-1], opnd), "fix_op_id_mapping_before": ok})
        if not ok:
            r.violate("%s | code %s(%s)" % (h["path"], "encode", snippet(repo, h["file"], cc["args"][0]["sp"])), F.loc(h, cc),
                      "an instruction is encoded without fix_op_id_mapping having been applied to it")
    # 7. index-keyed name maps stored at parse
    if names:
        for c in walk(body):
            if c.get("k") == "MethodCall" and (c.get("inst") or "").startswith("wasm_encoder::NameSection::"):
                m = c["method"]
                space = {"functions": "func", "locals": "func", "labels": "func", "globals": "global", "memories": "memory"}.get(m)
                if not space:
                    continue
                n_sinks += 1
                pp = place_path(c["args"][0]) or ""
                raw = pp.startswith("self.")
                r.ob(not raw, {"sink": "names." + m, "arg": pp, "stored_at_parse": raw})
                if raw:
                    r.violate("%s | names.%s" % (fn["path"], m), F.loc(fn, c),
                              "name map `%s` (keyed by %s index) was stored at parse time and is emitted unchanged: after the %s index space shifts, names attach to different entities" % (pp, space, space))
    if names:
        n_sinks += _name_index_clause(F, r, fn, body, repo)
    r.count("sinks", n_sinks)
    return r


def _value_leaves(e):
    """the expressions that can be the value of `e` (through if/match/block tails); diverging arms are dropped"""
    e = peel(e)
    if e.get("k") == "If":
        return _value_leaves(e["then"]) + (_value_leaves(e["else"]) if "else" in e else [None])
    if e.get("k") == "Match" and e.get("src") not in ("ForLoopDesugar", "TryDesugar"):
        # `match map.get(k) { Some(n) => *n, None => panic }` is itself the lookup: keep it whole
        if any(x.get("k") == "MethodCall" and x["method"] == "get" for x in walk(e.get("scrut") or {})):
            return [e]
        out_ = []
        for a2 in e["arms"]:
            if a2["body"].get("ty") != "!":
                out_ += _value_leaves(a2["body"])
        return out_
    if e.get("k") == "Block" and e.get("expr") is not None:
        return _value_leaves(e["expr"])
    return [e]


def _name_index_clause(F, r, fn, body, repo):
    """function-name indices: the index a name is emitted under is a *position* in the re-indexed function space — the
    loop variable of the function walk, or a count of the live function imports seen so far — never a value seeded
    from an `imports.num_*` counter (those still count deleted imports)"""
    n_sinks = 0
    names = True
    if names:
        for c in walk(body):
            if c.get("k") == "MethodCall" and c["method"] == "append" and "NameMap" in (c.get("recv_ty") or "") and c["args"]:
                n_sinks += 1
                bad = None
                seen_h = set()
                stack_ = [c["args"][0]]
                while stack_:
                    e_ = stack_.pop()
                    for x in walk(e_):
                        if x.get("k") == "Field" and x["name"].startswith("num_"):
                            bad = x["name"]
                        if x.get("k") == "Path" and x.get("res", {}).get("r") == "local" and x["res"].get("hid") not in seen_h:
                            seen_h.add(x["res"]["hid"])
                            for st in walk(body):
                                if st.get("k") == "Let" and st["pat"].get("hid") == x["res"]["hid"] and "init" in st:
                                    stack_.append(st["init"])
                ok = bad is None
                r.ob(ok, {"sink": "name index", "expr": snippet(repo, fn["file"], c["args"][0]["sp"]), "seeded_from_counter": bad})
                if not ok:
                    r.violate("%s | name index from %s" % (fn["path"], bad), F.loc(fn, c),
                              "a name is emitted under an index derived from `%s`, a counter that is not decremented when an import is deleted: after such a delete every later name is attached to the next entity" % bad)
    return n_sinks


def name_index(F):
    r = RuleResult("R-NAME-INDEX", "every name-map entry is emitted under a position of the re-indexed index space, never under a value seeded from an `imports.num_*` counter (which still counts deleted imports)")
    fn = enc_fn(F)
    r.analysed.append(fn["path"])
    n = _name_index_clause(F, r, fn, fn["body"], os.environ.get("ORCA_ANALYSED_REPO", REPO))
    r.count("name_entries", n)
    if n < 2:
        raise CheckError("encode_internal: expected ≥2 NameMap::append sites (import names, local names), found %d" % n)
    return r


def _miss_reported_to_loud_caller(body, g, m, none_arm):
    """the lookup `g` sits in an inlined helper whose `None` arm *returns* the miss (`None => Err(old)` / `None => None` as the
    helper's value) and every call of the helper fails loudly on that value: `if helper(..).is_err() { panic!() }`,
    `if let Err(e) = helper(..) { panic!(..) }`, `helper(..).unwrap()/expect(..)`, or a match whose Err/None arm diverges."""
    tail = peel(none_arm["body"])
    while isinstance(tail, dict) and tail.get("k") == "Block" and not tail.get("stmts") and tail.get("expr") is not None:
        tail = peel(tail["expr"])
    miss_variant = None
    if isinstance(tail, dict) and tail.get("k") == "Call" and (tail.get("fres") or {}).get("variant") in ("Err",):
        miss_variant = "Err"
    if isinstance(tail, dict) and tail.get("k") == "Path" and (tail.get("res") or {}).get("variant") == "None":
        miss_variant = "None"
    if isinstance(tail, dict) and tail.get("k") == "Lit" and "Bool(false)" in str(tail.get("lit")):
        miss_variant = "false"      # `fn try_remap(..) -> bool`: false = no entry
    if miss_variant is None:
        return False
    # innermost inlined call that contains the lookup, and whose helper body's value is the match
    holder = None
    for c in walk(body):
        if c.get("k") in ("Call", "MethodCall") and isinstance(c.get("inlined"), dict) and any(x is g for x in walk(c["inlined"])):
            if holder is None or any(x is c for x in walk(holder["inlined"])):
                holder = c
    if holder is None:
        return False
    hb = peel(holder["inlined"]["body"])
    while isinstance(hb, dict) and hb.get("k") == "Block" and not hb.get("stmts") and hb.get("expr") is not None:
        hb = peel(hb["expr"])
    if hb is not m:
        return False
    if miss_variant == "false":
        for n in walk(body):
            if n.get("k") == "If":
                c_ = peel(n["cond"])
                if c_.get("k") == "Unary" and c_.get("op") == "!" and peel(c_["a"]) is holder and diverges(n["then"]):
                    return True
                if c_ is holder and "else" in n and diverges(n["else"]):
                    return True
        return False
    test = {"Err": ("is_err",), "None": ("is_none",)}[miss_variant]
    for n in walk(body):
        if n.get("k") == "MethodCall" and peel(n.get("recv") or {}) is holder and n["method"] in ("unwrap", "expect"):
            return True
        if n.get("k") == "If" and diverges(n["then"]):
            c_ = peel(n["cond"])
            if c_.get("k") == "MethodCall" and c_["method"] in test and peel(c_["recv"]) is holder:
                return True
            if c_.get("k") == "LetExpr" and peel(c_["init"]) is holder and c_["pat"].get("variant") == miss_variant:
                return True
        if n.get("k") == "Match" and peel(n.get("scrut") or {}) is holder:
            for a_ in n["arms"]:
                if a_["pat"].get("variant") == miss_variant and (a_["body"].get("ty") == "!" or diverges(a_["body"])):
                    return True
    return False


def miss_loud(F):
    r = RuleResult("R-MISS-LOUD",
                   "every lookup in an old→new index map fails loudly when the entry is missing (the None continuation diverges, or `.unwrap()`); no unwrap_or/default/silent skip. Reviewed exception: the start function (warn + start section dropped, no index emitted)")
    n = 0
    for fn in F.fns:
        if fn.get("body") is None:
            continue
        maps = mapping_locals(fn, F)
        # update_*_instr take `mapping`
        if fn["name"] in ("update_fn_instr", "update_global_instr", "update_memory_instr"):
            for p in fn["params"]:
                if p["pat"].get("name") == "mapping":
                    maps[p["pat"]["hid"]] = {"update_fn_instr": "func", "update_global_instr": "global", "update_memory_instr": "memory"}[fn["name"]]
        if not maps:
            continue
        gets = [g for g in walk(fn["body"]) if g.get("k") == "MethodCall" and g["method"] == "get" and kind_of_expr(g["recv"], maps)]
        for g in gets:
            n += 1
            if fn["path"] not in r.analysed:
                r.analysed.append(fn["path"])
            verdict = None
            # consumer: Match with None arm, or .unwrap(), or Unary deref of unwrap
            for m in walk(fn["body"]):
                if m.get("k") == "Match" and any(x is g for x in walk(m["scrut"])):
                    for arm in m["arms"]:
                        if arm["pat"].get("variant") == "None" or arm["pat"].get("k") == "Wild":
                            if arm["body"].get("ty") == "!":
                                verdict = "diverges"
                            elif _miss_reported_to_loud_caller(fn["body"], g, m, arm):
                                verdict = "diverges"
                            else:
                                verdict = "silent:" + ("warn" if any("warn" in (x.get("exp") or []) for x in walk(arm["body"])) else "fallthrough")
                    break
                if m.get("k") == "MethodCall" and m.get("recv") is g:
                    if m["method"] in ("unwrap", "expect"):
                        verdict = "diverges"
                    elif m["method"] in ("unwrap_or_else", "ok_or_else", "map_or_else") and m.get("args") \
                            and peel(m["args"][0]).get("k") == "Closure" and diverges(peel(m["args"][0])["body"]):
                        verdict = "diverges"       # `.unwrap_or_else(|| panic!(..))`: the miss is as loud as with `expect`
                    elif m["method"] in ("copied", "cloned", "map") and any(
                            m2.get("k") == "MethodCall" and m2.get("recv") is m and (m2["method"] in ("unwrap", "expect") or (
                                m2["method"] == "unwrap_or_else" and m2.get("args") and peel(m2["args"][0]).get("k") == "Closure" and diverges(peel(m2["args"][0])["body"])))
                            for m2 in walk(fn["body"])):
                        verdict = "diverges"
                    else:
                        verdict = "silent:" + m["method"]
                    break
            if verdict is None:
                # `let Some(n) = map.get(k) else { panic!(..) };`
                for st in walk(fn["body"]):
                    if st.get("k") == "Let" and "else" in st and any(x is g for x in walk(st.get("init") or {})):
                        els = st["else"]
                        div = els.get("ty") == "!" or any(x.get("ty") == "!" for x in walk(els) if x.get("k") in ("Call", "MethodCall", "Ret", "Break", "Continue"))
                        verdict = "diverges" if div and not any(x.get("k") in ("Continue", "Break") for x in walk(els)) else "silent:let-else"
                # `map.get(k).copied().unwrap()` / `.expect(..)` / `*map.get(k).unwrap()` through value-preserving adaptors
                cur_ = g
                for _ in range(4):
                    nxt = None
                    for m in walk(fn["body"]):
                        if m.get("k") == "MethodCall" and m.get("recv") is cur_:
                            nxt = m
                            break
                    if nxt is None:
                        break
                    if nxt["method"] in ("unwrap", "expect"):
                        verdict = "diverges"
                        break
                    if nxt["method"] in ("copied", "cloned", "as_ref", "map"):
                        cur_ = nxt
                        continue
                    if nxt["method"] in ("unwrap_or_else", "ok_or_else", "ok_or"):
                        # diverging closure / converted to an error that is propagated
                        if any(x.get("ty") == "!" for a_ in nxt["args"] for x in walk(a_)):
                            verdict = "diverges"
                        break
                    break
            if verdict is None:
                verdict = "silent:unknown-consumer"
            key = "%s | %s.get" % (fn["path"], kind_of_expr(g["recv"], maps))
            # reviewed exception, by data flow: the looked-up index is stored only into `self.start` (an Option): a missing
            # entry makes it None, the start section is then not emitted at all — no stale index can reach the output
            exception = False
            if verdict.startswith("silent"):
                for a_ in walk(fn["body"]):
                    if a_.get("k") == "Assign" and (place_path(a_["lhs"]) or "") == "self.start":
                        if any(x is g for x in walk(a_["rhs"])):
                            exception = True
                        rhs_ = peel(a_["rhs"])
                        if rhs_.get("k") == "Path" and rhs_.get("res", {}).get("r") == "local":
                            for st in walk(fn["body"]):
                                if st.get("k") == "Let" and st["pat"].get("hid") == rhs_["res"]["hid"] and any(x is g for x in walk(st.get("init") or {})):
                                    exception = True
            ok = verdict == "diverges" or exception
            r.ob(ok, {"lookup": snippet(os.environ.get("ORCA_ANALYSED_REPO", REPO), fn["file"], g["sp"]), "fn": fn["path"], "on_missing": verdict})
            if not ok:
                r.violate("%s | %s" % (key, snippet(os.environ.get("ORCA_ANALYSED_REPO", REPO), fn["file"], g["sp"])), F.loc(fn, g),
                          "a missing entry in the %s map is handled silently (%s): a reference to a deleted entity would be emitted with a stale/wrong index instead of failing" % (kind_of_expr(g["recv"], maps), verdict))
    r.count("map_lookups", n)
    return r


def del_guard(F):
    r = RuleResult("R-DEL-GUARD",
                   "collections that are never compacted by reorganise (imports, exports) are emitted under an explicit `!x.deleted` guard")
    fn = enc_fn(F)
    r.analysed.append(fn["path"])
    for sink, label in (("ImportSection::import", "import"), ("ExportSection::export", "export")):
        calls = [c for c in walk(fn["body"]) if c.get("k") == "MethodCall" and (c.get("inst") or "").endswith(sink)]
        if not calls:
            raise CheckError("encode_internal: no %s sink" % sink)
        for c in calls:
            guarded = False

            def rec(node, g):
                nonlocal guarded
                if isinstance(node, list):
                    for v in node:
                        rec(v, g)
                    return
                if not isinstance(node, dict):
                    return
                if node is c and g:
                    guarded = True
                if node.get("k") == "If":
                    cond = node["cond"]
                    neg = cond.get("k") == "Unary" and cond.get("op") == "!" and (place_path(cond["a"]) or "").endswith(".deleted")
                    rec(cond, g)
                    rec(node["then"], g or neg)
                    if "else" in node:
                        rec(node["else"], g)
                    return
                for v in node.values():
                    if isinstance(v, (dict, list)):
                        rec(v, g)

            rec(fn["body"], False)
            if not guarded:
                # early-exit idiom: `if x.deleted { continue; }` earlier in the same loop body
                for n_ in walk(fn["body"]):
                    if n_.get("k") == "If" and (place_path(peel(n_["cond"])) or "").endswith(".deleted") and any(x.get("k") == "Continue" for x in walk(n_["then"])) and "else" not in n_:
                        if uncond_before(fn["body"], n_, c)[0] and lca(fn["body"], n_, c) is not None and not any(a_.get("k") == "Match" and a_.get("src") == "ForLoopDesugar" and not any(y is n_ for y in walk(a_)) for a_, _ in (path_to(fn["body"], c) or []) if isinstance(a_, dict) and any(y is c for y in walk(a_)) and not any(y is n_ for y in walk(a_))):
                            guarded = True
            if not guarded:
                # the loop runs over `<collection>.iter().filter(|x| !x.deleted)`
                for m_ in walk(fn["body"]):
                    if m_.get("k") == "Match" and m_.get("src") == "ForLoopDesugar" and any(y is c for y in walk(m_)):
                        for f_ in walk(m_["scrut"]):
                            if f_.get("k") == "MethodCall" and f_["method"] == "filter" and f_.get("args") and peel(f_["args"][0]).get("k") == "Closure":
                                b_ = peel(peel(f_["args"][0])["body"])
                                if b_.get("k") == "Unary" and b_.get("op") == "!" and (place_path(b_["a"]) or "").endswith(".deleted"):
                                    guarded = True
            if not guarded:
                # established by any mix of enclosing tests and earlier guard clauses
                from vlib.facts import guard_conditions
                for pol, cd in guard_conditions(fn["body"], c):
                    if pol in ("pat", "notpat"):
                        continue
                    cd_ = peel(cd)
                    if pol is True and cd_.get("k") == "Unary" and cd_.get("op") == "!" and (place_path(cd_["a"]) or "").endswith(".deleted"):
                        guarded = True
                    if pol is False and (place_path(cd_) or "").endswith(".deleted"):
                        guarded = True
            r.ob(guarded, {"sink": label, "under_not_deleted": guarded})
            if not guarded:
                r.violate("%s | %s" % (fn["path"], label), F.loc(fn, c), "%ss are emitted without testing `.deleted`: a deleted %s would still appear in the output" % (label, label))
    return r


SECTION_ORDER = ["TypeSection", "ImportSection", "FunctionSection", "TableSection", "MemorySection", "TagSection",
                 "GlobalSection", "ExportSection", "StartSection", "ElementSection", "DataCountSection", "CodeSection",
                 "DataSection", "NameSection", "CustomSection"]


def section_order(F):
    r = RuleResult("R-SECTION-ORDER",
                   "encode_internal emits sections in binary-format order (type, import, function, table, memory, tag, global, export, start, element, datacount, code, data, then custom sections)")
    fn = enc_fn(F)
    r.analysed.append(fn["path"])
    seq = []
    for n in walk(fn["body"]):
        if n.get("k") == "MethodCall" and (n.get("inst") or "") == "wasm_encoder::Module::section":
            t = n["args"][0]["ty"].replace("&", "").split("<")[0].split("::")[-1]
            seq.append((t, n))
    names = [t for t, _ in seq]
    r.count("section_calls", len(names))
    ok = names == SECTION_ORDER
    r.ob(ok, {"emitted_order": names})
    if not ok:
        r.violate("%s | order" % fn["path"], F.loc(fn), "sections are emitted in the order %s; the binary format requires %s" % (names, SECTION_ORDER))
    # lowering may add types (exit wrapper block type) and locals (branch flags): it has to be complete before the first
    # section is emitted, unconditionally
    res = [c for c in walk(fn["body"]) if c.get("k") == "MethodCall" and c["method"] == "resolve_special_instrumentation"]
    if len(res) != 1:
        raise CheckError("encode_internal: expected one call of resolve_special_instrumentation, found %d" % len(res))
    if seq:
        ok2, why = uncond_before(fn["body"], res[0], seq[0][1])
        r.ob(ok2, {"lowering_before_first_section": ok2})
        if not ok2:
            r.violate("%s | lowering after sections" % fn["path"], F.loc(fn, res[0]),
                      "resolve_special_instrumentation %s the first emitted section: types and locals it adds are missing from sections already written (the first encoding differs from the second, and may be invalid)" % why)
    return r


PAIR = {"Type": {"Type"}, "Import": {"Import"}, "Export": {"Export"}, "Memory": {"Memory"}, "Data": {"ActiveData", "PassiveData"},
        "Global": {"Global"}, "Func": {"Func"}, "Local": {"Local"}, "Table": {"Table"}, "Element": {"Element"},
        "Probe": {"FuncProbe", "FuncLocProbe"}}


def tag_emit(F):
    r = RuleResult("R-TAG-EMIT",
                   "every add_injection(InjectType::K, Injection::K'{..}) pairs K with its own record kind, is guarded by the side-effects flag and by the presence of a tag; parse-path constructors pass tag None; probe bodies are collected after index remapping")
    n = 0
    for fn in F.fns:
        if fn.get("body") is None:
            continue
        for c in walk(fn["body"]):
            if c.get("k") == "Call" and (c.get("callee") or "").endswith("::add_injection"):
                n += 1
                if fn["path"] not in r.analysed:
                    r.analysed.append(fn["path"])
                ty = peel(c["args"][1])
                inj = peel(c["args"][2])
                k = ty.get("res", {}).get("variant") if ty.get("k") == "Path" else None
                k2 = inj.get("variant") if inj.get("k") == "Struct" else None
                if k2 is None and inj.get("k") == "Path" and inj.get("res", {}).get("r") == "local":
                    # the record is built elsewhere and handed over in a local (`if let Some(probe) = x.as_func_probe(..)`): every
                    # Injection literal the local can come from must be of a paired kind
                    from vlib.facts import binding_site
                    _pt, scr_, _kd = binding_site(fn["body"], inj["res"]["hid"])
                    kinds_ = {x.get("variant") for x in walk(scr_ or {}) if x.get("k") == "Struct" and (x.get("adt") or "").endswith("Injection") and x.get("variant")}
                    if not kinds_:
                        r.undecided("%s: where the record passed to add_injection is built was not found" % fn["path"])
                        continue
                    okk = k in PAIR and kinds_ <= PAIR[k]
                    r.ob(okk, {"fn": fn["path"], "InjectType": k, "Injection": sorted(kinds_)})
                    if not okk:
                        r.violate("%s | %s/%s" % (fn["path"], k, "+".join(sorted(kinds_))), F.loc(fn, c), "add_injection files an Injection::%s record under InjectType::%s" % (sorted(kinds_), k))
                    continue
                ok = k in PAIR and k2 in PAIR[k]
                r.ob(ok, {"fn": fn["path"], "InjectType": k, "Injection": k2})
                if not ok:
                    r.violate("%s | %s/%s" % (fn["path"], k, k2), F.loc(fn, c), "add_injection files an Injection::%s record under InjectType::%s" % (k2, k))
                # tag field value comes from a binding named tag / a tag accessor
                if inj.get("k") == "Struct":
                    tagv = dict((a, b) for a, b in inj["fields"]).get("tag")
                    ok2 = tagv is not None
                    r.ob(ok2)
                    if not ok2:
                        r.violate("%s | %s no tag" % (fn["path"], k2), F.loc(fn, c), "Injection::%s record built without its tag" % k2)
    r.count("add_injection_sites", n)
    # guard: in encode_internal every add_injection is under `if pull_side_effects`
    fn = enc_fn(F)
    ps_hid = None
    for p in fn["params"]:
        if p["pat"].get("name") == "pull_side_effects":
            ps_hid = p["pat"]["hid"]
    if ps_hid is None:
        raise CheckError("encode_internal: parameter pull_side_effects not found")

    # established on the way to the call: an enclosing `if pull_side_effects` (possibly `&& ..`), or an earlier guard clause
    # `if !pull_side_effects { continue / return }`
    from vlib.facts import guard_conditions

    def is_ps(e):
        e = peel(e)
        return e.get("k") == "Path" and e.get("res", {}).get("hid") == ps_hid

    def holds(pol, c):
        c = peel(c)
        if pol is True:
            if is_ps(c):
                return True
            if c.get("k") == "Binary" and c.get("op") == "&&":
                return holds(True, c["a"]) or holds(True, c["b"])
            return False
        if c.get("k") == "Unary" and c.get("op") == "!":
            return is_ps(c["a"])
        if c.get("k") == "Binary" and c.get("op") == "||":
            return holds(False, c["a"]) or holds(False, c["b"])
        return False
    for node in walk(fn["body"]):
        if node.get("k") == "Call" and (node.get("callee") or "").endswith("::add_injection"):
            def pat_holds(pc):
                # `if let (true, Some(tag)) = (pull_side_effects, x.get_tag())`: the flag is matched against the literal true
                pat, scrut = pc
                scrut = peel(scrut)
                if scrut.get("k") == "Tup" and pat.get("k") == "Tuple" and len(pat.get("pats") or []) == len(scrut["elems"]):
                    for sub, el in zip(pat["pats"], scrut["elems"]):
                        if is_ps(el) and sub.get("k") in ("Lit", "Expr") and "Bool(true)" in str(sub):
                            return True
                if is_ps(scrut) and pat.get("k") in ("Lit", "Expr") and "Bool(true)" in str(pat):
                    return True
                return False
            g = any((pol in (True, False) and holds(pol, c)) or (pol == "pat" and pat_holds(c)) for pol, c in guard_conditions(fn["body"], node))
            r.ob(g, {"add_injection guarded by pull_side_effects": g})
            if not g:
                r.violate("%s | unguarded add_injection" % fn["path"], F.loc(fn, node), "side-effect record is produced even when side effects were not requested")
    # a record stands for what the section loop emits: within the loop body that emits an entity, the record is made for
    # exactly the entities that are emitted — (1) every `deleted` test the emission sits under also guards the record (a
    # deleted export is not reported), (2) the record is not under a kind test (`is_function()`, ..) the emission is not under
    # (a tagged imported global is reported like a tagged imported function)
    KIND_TESTS = ("is_function", "is_global", "is_memory", "is_table", "is_tag", "is_local", "is_import")
    for lp in walk(fn["body"]):
        if not (lp.get("k") == "Match" and lp.get("src") == "ForLoopDesugar"):
            continue
        inner = [m_ for m_ in walk(lp["arms"][0]["body"]) if m_.get("k") == "Match" and m_ is not lp]
        per_item = None
        for a_ in (inner[0]["arms"] if inner else []):
            if a_["pat"].get("variant") == "Some":
                per_item = a_["body"]
        if per_item is None:
            continue
        if any(x.get("k") == "Match" and x.get("src") == "ForLoopDesugar" for x in walk(per_item)):
            continue        # outer loops: judged at the innermost loop
        sinks_ = [x for x in walk(per_item) if x.get("k") == "MethodCall" and "wasm_encoder" in (x.get("recv_ty") or "") and x["method"] not in ("new", "len", "is_empty")]
        recs_ = [x for x in walk(per_item) if x.get("k") == "Call" and (x.get("callee") or "").endswith("::add_injection")]
        if not sinks_ or not recs_:
            continue

        def if_anc(node):
            return [c_ for c_ in (conditional_ancestors(per_item, node) or []) if c_.get("k") == "If"]
        sink_ifs = [c_ for s_ in sinks_ for c_ in if_anc(s_)]
        for rec_ in recs_:
            rec_ifs = if_anc(rec_)
            rec_conds = guard_conditions(per_item, rec_)
            # (1) deleted tests of the emission
            for c_ in sink_ifs:
                if not any((y.get("k") == "Field" and y["name"] == "deleted") or (y.get("k") == "MethodCall" and y["method"] == "is_deleted") for y in walk(c_["cond"])):
                    continue
                covered = any(c_ is r_ for r_ in rec_ifs) or any(pol in (True, False) and any((y.get("k") == "Field" and y["name"] == "deleted") or (y.get("k") == "MethodCall" and y["method"] == "is_deleted") for y in walk(cd_)) for pol, cd_ in rec_conds)
                r.ob(covered, {"record shares the emission's deleted test": covered})
                if not covered:
                    r.violate("%s | record for deleted entity" % fn["path"], F.loc(fn, rec_),
                              "a side-effect record is produced outside the `deleted` test its section emission sits under: an entity that was added and deleted again is reported although the encoded module does not contain it")
            # (2) kind tests the emission is not under
            for c_ in rec_ifs:
                if any(c_ is s_ for s_ in sink_ifs):
                    continue
                kt = [y["method"] for y in walk(c_["cond"]) if y.get("k") == "MethodCall" and y["method"] in KIND_TESTS]
                if kt:
                    r.ob(False, {"record only for": kt})
                    r.violate("%s | record only under %s" % (fn["path"], kt[0]), F.loc(fn, rec_),
                              "a side-effect record is produced only if `%s()` holds, while the section loop emits entities of every kind: a tagged entity of another kind is in the encoded module but missing from the report" % kt[0])
    # records that carry an initialiser / offset expression are built after that expression's ids were remapped: the report
    # and the encoded module must name the same globals and functions
    fixes_by_root = {}
    for lp in walk(fn["body"]):
        is_for = lp.get("k") == "Match" and lp.get("src") == "ForLoopDesugar" and any(x.get("k") == "MethodCall" and x["method"] == "fix_id_mapping" for x in walk(lp["arms"][0]["body"]))
        is_each = lp.get("k") == "MethodCall" and lp["method"] == "for_each" and any(x.get("k") == "MethodCall" and x["method"] == "fix_id_mapping" for x in walk(lp.get("args") or []))
        if not (is_for or is_each):
            continue
        src_ = lp["scrut"] if is_for else lp["recv"]
        for x in walk(src_):
            if x.get("k") == "Field" and x["name"] == "exprs":
                b_ = peel(x["base"])
                while isinstance(b_, dict) and b_.get("k") in ("Field", "Unary", "AddrOf"):
                    b_ = peel(b_.get("base") or b_.get("a"))
                if isinstance(b_, dict) and b_.get("k") == "Path" and b_.get("res", {}).get("r") == "local":
                    fixes_by_root.setdefault(b_["res"]["hid"], []).append(lp)
    for node in walk(fn["body"]):
        if node.get("k") == "Call" and (node.get("callee") or "").endswith("::add_injection"):
            used = {x["res"]["hid"] for a_ in node["args"] for x in walk(a_) if x.get("k") == "Path" and x.get("res", {}).get("hid") in fixes_by_root}
            for h_ in used:
                okf = all(sp_before(lp, node) for lp in fixes_by_root[h_])
                r.ob(okf, {"record with an init/offset expression built after its ids were remapped": okf})
                if not okf:
                    r.violate("%s | record-before-remap" % fn["path"], F.loc(fn, node),
                              "a side-effect record copies an initialiser/offset expression before InitInstr::fix_id_mapping has run on it: the report names pre-encoding global/function ids while the encoded module uses the re-indexed ones")
    # probe bodies collected after remap: add_opcode_injections call follows the instruction loop in the same block
    ok = False
    for blk in walk(fn["body"]):
        if blk.get("k") == "Block":
            idx_fix = idx_add = None
            for i, st in enumerate(blk["stmts"]):
                e = st.get("e") or st.get("init") or {}
                if any(x.get("k") == "Call" and (x.get("callee") or "").endswith("fix_op_id_mapping") for x in walk(e)) and idx_fix is None:
                    idx_fix = i
                if any(x.get("k") == "MethodCall" and x["method"] == "add_opcode_injections" for x in walk(e)):
                    idx_add = i
            if idx_fix is not None and idx_add is not None and idx_fix < idx_add:
                ok = True
    r.ob(ok, {"add_opcode_injections after the remapping loop": ok})
    if not ok:
        r.violate("%s | probes-before-remap" % fn["path"], F.loc(fn), "probe bodies are collected before their indices are remapped (records would use pre-edit indices)")
    # the remapping the records rely on is done IN PLACE on the stored bodies (the records are cloned from them afterwards):
    # every fix_op_id_mapping reachable from encode_internal operates on an element of the IR, never on a fresh clone
    n_fix = 0
    for f2 in F.fns:
        if f2.get("body") is None:
            continue
        for c in walk(f2["body"]):
            if c.get("k") == "Call" and (c.get("callee") or "").endswith("fix_op_id_mapping") and c["args"]:
                n_fix += 1
                root = c["args"][0]
                while isinstance(root, dict) and root.get("k") in ("AddrOf", "Unary", "Field", "Index"):
                    root = root.get("a") or root.get("base")
                fresh = False
                if isinstance(root, dict) and root.get("k") == "Path" and root.get("res", {}).get("r") == "local":
                    for st in walk(f2["body"]):
                        if st.get("k") == "Let" and st["pat"].get("hid") == root["res"]["hid"] and "init" in st:
                            if any(x.get("k") == "MethodCall" and x["method"] in ("clone", "to_owned", "cloned") for x in walk(st["init"])):
                                fresh = True
                r.ob(not fresh, {"fix_op_id_mapping in": f2["path"], "operates_on_stored_operator": not fresh})
                if fresh:
                    r.violate("%s | remap on a copy" % f2["path"], F.loc(f2, c), "fix_op_id_mapping is applied to a clone of the operator: the body kept in the IR — from which the probe records are cloned — keeps pre-encoding indices, so the side-effect report disagrees with the encoded module")
    r.count("fix_op_sites", n_fix)
    # probe records name their function by the position the caller passes (post-re-indexing), not by the stored func_id
    for f2 in F.fns:
        if f2.get("body") is None:
            continue
        for lit in walk(f2["body"]):
            if lit.get("k") == "Struct" and (lit.get("adt") or "").endswith("Injection") and lit.get("variant") in ("FuncProbe", "FuncLocProbe") and "rest" not in lit:
                fs = dict((a, b) for a, b in lit["fields"] if isinstance(b, dict))
                tv = fs.get("target_fid")
                if tv is None:
                    continue
                stale = [x["name"] for x in walk(tv) if x.get("k") == "Field" and x["name"] in ("func_id", "import_fn_id")]
                # follow one level of locals/params: a local initialised from func_id is just as stale
                for x in walk(tv):
                    if x.get("k") == "Path" and x.get("res", {}).get("r") == "local":
                        for st in walk(f2["body"]):
                            if st.get("k") == "Let" and st["pat"].get("hid") == x["res"]["hid"] and "init" in st:
                                stale += [y["name"] for y in walk(st["init"]) if y.get("k") == "Field" and y["name"] in ("func_id", "import_fn_id")]
                ok3 = not stale
                r.ob(ok3, {"record": lit["variant"], "target_fid_from_position": ok3})
                if not ok3:
                    r.violate("%s | %s target_fid" % (f2["path"], lit["variant"]), F.loc(f2, lit), "Injection::%s.target_fid is taken from the stored `%s` (pre-encoding id): after re-indexing the record names a different function than the encoded module" % (lit["variant"], stale[0]))
    # callers of the record builders pass a position, not a stored id
    for f2 in F.fns:
        if f2.get("body") is None:
            continue
        for c in walk(f2["body"]):
            if c.get("k") == "MethodCall" and c["method"] in ("add_corrected_special_injections", "add_opcode_injections", "add_injections") and c["args"]:
                a0 = c["args"][0]
                if "u32" not in (a0.get("ty") or ""):
                    continue
                stale = [x["name"] for x in walk(a0) if x.get("k") == "Field" and x["name"] in ("func_id", "import_fn_id")]
                r.ob(not stale, {"caller": f2["path"], "passes_position": not stale})
                if stale:
                    r.violate("%s | %s(%s)" % (f2["path"], c["method"], stale[0]), F.loc(f2, c), "%s is given the stored `%s` instead of the function's position after re-indexing" % (c["method"], stale[0]))
    # parse path: tag None
    g = mirutil.build_callgraph(F)
    roots = [f["path"] for f in F.fns if f["name"] in ("parse", "parse_internal") and (f.get("self_adt") or "").endswith("::Module")]
    seen, _ = mirutil.reachable_fns(F, roots, g)
    n_tag = 0
    for p in sorted(seen):
        f = F.by_path[p][0]
        if f.get("body") is None:
            # closures: their HIR is inside the parent body
            continue
        if (f.get("impl_trait") or "").startswith(("std::clone", "std::default", "std::fmt", "std::cmp", "std::hash", "core::")):
            continue  # derived impls copy/default the tag; they do not originate one
        for n2 in walk(f["body"]):
            if n2.get("k") == "Struct" and "base" not in n2:
                fs = dict((a, b) for a, b in n2["fields"])
                if "tag" in fs and (n2.get("adt") or "").startswith("ir::"):
                    v = peel(fs["tag"])
                    isnone = v.get("k") == "Path" and (v.get("res", {}).get("variant") == "None" or v.get("res", {}).get("path", "").endswith("::None"))
                    # `tag` forwarded from a constructor parameter is judged at the constructor's call sites
                    isparam = v.get("k") == "Path" and v.get("res", {}).get("r") == "local" and any(pp["pat"].get("hid") == v["res"].get("hid") for pp in f["params"])
                    isfield = v.get("k") in ("MethodCall", "Field")  # e.g. import.tag.clone(): propagates the import's own tag
                    n_tag += 1
                    ok = isnone or isparam or isfield
                    r.ob(ok, {"fn": p, "constructs": n2.get("adt"), "tag": "None" if isnone else ("param" if isparam else "propagated")})
                    if not ok:
                        r.violate("%s | tag %s" % (p, n2.get("adt")), F.loc(f, n2), "parse path constructs %s with a tag: parsed items would be reported as injected" % n2.get("adt"))
            if n2.get("k") == "Call" and n2.get("callee") in F.by_path:
                tgt = F.by_path[n2["callee"]][0]
                pn = [pp["pat"].get("name") for pp in tgt.get("params", [])]
                if "tag" in pn and len(n2["args"]) == len(pn):
                    v = peel(n2["args"][pn.index("tag")])
                    isnone = v.get("k") == "Path" and v.get("res", {}).get("variant") == "None"
                    # as for struct literals: `import.tag.clone()` propagates another parsed entity's tag (itself None on this
                    # path), and a parameter forwarded to the constructor is judged at this function's own call sites
                    if not isnone:
                        vv = v
                        while isinstance(vv, dict) and vv.get("k") == "MethodCall" and vv["method"] in ("clone", "to_owned", "cloned") and not vv.get("args"):
                            vv = peel(vv["recv"])
                        if isinstance(vv, dict) and vv.get("k") == "Field" and vv["name"] == "tag":
                            isnone = True
                        if isinstance(vv, dict) and vv.get("k") == "Path" and vv.get("res", {}).get("r") == "local" and any(pp["pat"].get("hid") == vv["res"].get("hid") for pp in f["params"]):
                            isnone = True
                    n_tag += 1
                    r.ob(isnone, {"fn": p, "calls": tgt["name"], "tag_arg_is_None": isnone})
                    if not isnone:
                        r.violate("%s | tag arg %s" % (p, tgt["name"]), F.loc(f, n2), "parse path passes a non-None tag to %s" % tgt["name"])
    r.count("parse_tag_sites", n_tag)
    return r


def _self_rooted(fn, lhs):
    """the assigned place lives in state owned by `self`: rooted at self, or at a binding introduced by iterating
    (iter_mut / &mut) over a self field"""
    e = lhs
    while isinstance(e, dict) and e.get("k") in ("Field", "Index", "Unary", "AddrOf"):
        e = e.get("base") or e.get("a")
    if not (isinstance(e, dict) and e.get("k") == "Path" and e.get("res", {}).get("r") == "local"):
        return False
    if e["res"].get("name") == "self":
        return True
    hid = e["res"].get("hid")
    for m in walk(fn["body"]):
        if m.get("k") == "Match" and m.get("src") == "ForLoopDesugar":
            binds = set()
            for lp in walk(m["arms"][0]["body"]):
                if lp.get("k") == "Match" and lp is not m:
                    for arm in lp["arms"]:
                        if arm["pat"].get("variant") == "Some":
                            binds |= {b["hid"] for b in walk(arm["pat"]) if b.get("k") == "Binding"}
                    break
            if hid in binds and any(x.get("k") == "Path" and x.get("res", {}).get("name") == "self" for x in walk(m["scrut"])) \
                    and any(x.get("k") == "MethodCall" and x["method"] in ("iter_mut", "values_mut") for x in walk(m["scrut"])):
                return True
    return False


def idempotent_encode(F):
    r = RuleResult("R-IDEMPOTENT-ENCODE",
                   "encode_internal may remap stored indices in place only if it also renormalises the ID source the map is derived from and resets the recalculate flags (otherwise a second encode applies a non-identity map to already-remapped indices)")
    fn = enc_fn(F)
    g = mirutil.build_callgraph(F)
    seen, _ = mirutil.reachable_fns(F, [fn["path"]], g)
    r.analysed += sorted(seen)[:40]
    r.count("encode_reachable_fns", len(seen))
    # in-place mappers applied to self-owned state
    inplace = []
    maps_enc = mapping_locals(fn, F)
    for c in walk(fn["body"]):
        if c.get("k") == "Call" and (c.get("callee") or "").endswith("fix_op_id_mapping"):
            inplace.append(("code operators", c))
        if c.get("k") == "MethodCall" and c["method"] == "fix_id_mapping":
            inplace.append(("stored init expressions", c))
        if c.get("k") == "Assign" and (place_path(c["lhs"]) or "") == "self.start":
            inplace.append(("self.start", c))
        elif c.get("k") == "Assign" and _self_rooted(fn, c["lhs"]) and (mapping_lookups(c["rhs"], maps_enc) or any(
                g.get("k") == "MethodCall" and g["method"] == "get" and _is_u32_map(g.get("recv_ty")) for g in walk(c["rhs"]))):
            inplace.append(("stored field `%s`" % (place_path(c["lhs"]) or "?"), c))
    # renormalisation evidence anywhere in the encode call graph
    id_fields = ("func_id", "import_fn_id", "global_id", "import_global_id", "mem_id", "import_mem_id")
    renorm = set()
    flag_reset = set()
    for p in seen:
        f = F.by_path[p][0]
        if f.get("body") is None:
            continue
        for n in walk(f["body"]):
            if n.get("k") == "Assign":
                pp = place_path(n["lhs"]) or ""
                if pp.split(".")[-1] in id_fields:
                    renorm.add(pp.split(".")[-1])
                if pp.endswith("recalculate_ids") and peel(n["rhs"]).get("lit") == "Bool(false)":
                    flag_reset.add(pp)
            if n.get("k") == "MethodCall" and n["method"] == "set_id":
                renorm.add("set_id")
    seen_what = set()
    for what, c in inplace:
        ok = bool(renorm) and bool(flag_reset)
        r.ob(ok, {"in_place_remap_of": what, "id_sources_renormalised": sorted(renorm), "flags_reset": sorted(flag_reset)})
        if not ok and what not in seen_what:
            seen_what.add(what)
            r.violate("%s | in-place remap without renormalisation | %s" % (fn["path"], what), F.loc(fn, c),
                      "encode_internal rewrites %s in place through the old→new maps but never renormalises the stored IDs (%s) nor resets recalculate_ids: a second encode() re-applies a non-identity map to already-remapped indices" % (
                          what, "/".join(id_fields)))
    r.count("inplace_remap_sites", len(inplace))
    return r


# ---------------------------------------------------------------- R-LOOP-SCRATCH
ACCUM = ("push", "extend", "append", "insert", "push_str", "extend_from_slice", "push_back")
RESET = ("clear", "truncate", "drain", "take")


def _walk_outside_call_args(n):
    """Nodes of an argument expression that belong to *this* call: the arguments of nested calls (e.g. the call wrapped by
    the `?` desugaring, or `f(g(&mut buf))`) are judged at the nested call itself."""
    if isinstance(n, list):
        for v in n:
            yield from _walk_outside_call_args(v)
        return
    if not isinstance(n, dict):
        return
    yield n
    if n.get("k") == "AddrOf" and n.get("mut"):
        return      # `&mut buf` (also inside an array/tuple literal) lends the buffer for writing: not a whole *read*
    for k_, v in n.items():
        if k_ == "args" and n.get("k") in ("Call", "MethodCall"):
            continue
        if isinstance(v, (dict, list)):
            yield from _walk_outside_call_args(v)


def loop_scratch(F, roots=None):
    """A scratch buffer that lives across iterations of a loop (declared outside it), is *filled* inside the loop (push/
    extend/…, or handed to a callee as `&mut buf`) and is also *consumed whole* inside the same loop (passed as `&buf`,
    `buf.as_slice()`, `Cow::from(&buf)` … to a call) must be emptied in every iteration before it is filled — otherwise
    iteration n hands over the items of iterations 1..n.  Buffers the loop also pops/removes from (stacks, work lists) and
    accumulators that are only read element-wise or after the loop are exempt."""
    r = RuleResult("R-LOOP-SCRATCH",
                   "a buffer declared outside a loop, filled inside it and handed over whole inside it (per-iteration scratch) is reset (clear/truncate/reassign/take) on every iteration before its first fill; stacks and accumulators read after the loop are exempt")
    n_scratch = 0
    n_loops = 0
    ELEMENT = ("get", "get_mut", "len", "is_empty", "last", "last_mut", "first", "contains", "contains_key", "iter_mut", "capacity", "reserve")
    MANAGED = ("pop", "remove", "swap_remove", "pop_front", "pop_back", "retain")
    for fn in F.fns:
        if fn.get("body") is None or (fn.get("impl_trait") or "").startswith(("std::", "core::")):
            continue
        if roots and fn["name"] not in roots:
            continue
        lets = {}
        for st in walk(fn["body"]):
            if st.get("k") == "Let" and st["pat"].get("k") == "Binding":
                lets[st["pat"]["hid"]] = st
        touched = False
        for m in walk(fn["body"]):
            if not (m.get("k") == "Match" and m.get("src") == "ForLoopDesugar"):
                continue
            # the outer desugaring match: `match into_iter(..) { mut iter => loop {..} }`
            if not any(x.get("k") == "Loop" for x in walk(m["arms"][0]["body"])):
                continue
            n_loops += 1
            loop_body = m["arms"][0]["body"]
            inner_lets = {st["pat"]["hid"] for st in walk(loop_body) if st.get("k") == "Let" and st["pat"].get("k") == "Binding"}
            fills = {}
            for c in walk(loop_body):
                if c.get("k") == "MethodCall" and c["method"] in ACCUM:
                    rv = peel(c["recv"])
                    if rv.get("k") == "Path" and rv.get("res", {}).get("r") == "local":
                        h = rv["res"]["hid"]
                        if h in lets and h not in inner_lets:
                            fills.setdefault(h, []).append(c)
                if c.get("k") in ("Call", "MethodCall"):
                    for a_ in c.get("args", []):
                        if a_.get("k") == "AddrOf" and a_.get("mut"):
                            rv = peel(a_["a"])
                            if rv.get("k") == "Path" and rv.get("res", {}).get("r") == "local":
                                h = rv["res"]["hid"]
                                if h in lets and h not in inner_lets:
                                    fills.setdefault(h, []).append(c)
            for h, fl in fills.items():
                name = lets[h]["pat"]["name"]
                bty = lets[h]["pat"].get("ty") or ""
                if not any(t in bty for t in ("Vec<", "NameMap", "String", "HashMap<", "HashSet<", "VecDeque<", "BTreeMap<", "BTreeSet<")):
                    continue  # not a container (e.g. a stateless re-encoder passed as &mut)
                managed = False
                whole_reads = []
                # lent mutably through a literal (`for m in [&mut a, &mut b] { m.remove(k) }`): what happens to it is not
                # followed; it is not a per-iteration scratch buffer in any case
                for lit_ in walk(loop_body):
                    if lit_.get("k") in ("Array", "Tup") and any(y.get("k") == "AddrOf" and y.get("mut") and peel(y["a"]).get("res", {}).get("hid") == h for y in lit_.get("elems", [])):
                        managed = True
                for c in walk(loop_body):
                    if c.get("k") == "MethodCall":
                        rv = peel(c["recv"])
                        if rv.get("k") == "Path" and rv.get("res", {}).get("hid") == h and c["method"] in MANAGED:
                            managed = True
                    if c.get("k") in ("Call", "MethodCall"):
                        for a_ in c.get("args", []):
                            if a_.get("k") == "AddrOf" and a_.get("mut"):
                                continue
                            for x in _walk_outside_call_args(a_):
                                if x.get("k") == "Path" and x.get("res", {}).get("hid") == h:
                                    # element-wise reads inside the argument (buf.len(), buf[i]) do not hand the buffer over
                                    par = None
                                    for y in walk(a_):
                                        if y.get("k") == "MethodCall" and peel(y["recv"]) is x and y["method"] in ELEMENT + ACCUM:
                                            par = y
                                        if y.get("k") == "Index" and peel(y["base"]) is x:
                                            par = y
                                    if par is None:
                                        whole_reads.append(c)
                if managed or not whole_reads:
                    continue
                n_scratch += 1
                touched = True
                resets = []
                for c in walk(loop_body):
                    if c.get("k") == "MethodCall" and c["method"] in RESET:
                        rv = peel(c["recv"])
                        if rv.get("k") == "Path" and rv.get("res", {}).get("hid") == h:
                            resets.append(c)
                    if c.get("k") == "Assign":
                        l = peel(c["lhs"])
                        if l.get("k") == "Path" and l.get("res", {}).get("hid") == h:
                            resets.append(c)
                first_fill = min(fl, key=lambda x: (x["sp"][0], x["sp"][1]))
                ok = any(uncond_before(loop_body, rs_, first_fill)[0] for rs_ in resets)
                r.ob(ok, {"fn": fn["path"], "buffer": name, "filled_and_handed_over_in_loop": True, "reset_each_iteration": ok})
                if not ok:
                    r.violate("%s | scratch %s" % (fn["path"], name), F.loc(fn, first_fill),
                              "buffer `%s` is declared outside the loop, filled and handed over inside it, but not emptied at the top of every iteration: the items of earlier iterations are handed over again with each later one" % name)
        if touched:
            r.analysed.append(fn["path"])
    # `v.resize(n, x)` sets the TOTAL length: inside a loop that is meant to append a run per iteration it truncates or
    # stops growing the vector (a run-length expansion written with resize reports only the longest prefix)
    for fn in F.fns:
        if fn.get("body") is None or (fn.get("impl_trait") or "").startswith(("std::", "core::")):
            continue
        for m in walk(fn["body"]):
            if not (m.get("k") == "Match" and m.get("src") == "ForLoopDesugar" and any(x.get("k") == "Loop" for x in walk(m["arms"][0]["body"]))):
                continue
            loop_body = m["arms"][0]["body"]
            inner_lets = {st["pat"]["hid"] for st in walk(loop_body) if st.get("k") == "Let" and st["pat"].get("k") == "Binding"}
            for c in walk(loop_body):
                if c.get("k") == "MethodCall" and c["method"] in ("resize", "resize_with", "truncate") and c["args"]:
                    rv = peel(c["recv"])
                    if rv.get("k") == "Path" and rv.get("res", {}).get("r") == "local" and rv["res"]["hid"] not in inner_lets:
                        uses_len = any(x.get("k") == "MethodCall" and x["method"] == "len" and peel(x["recv"]).get("res", {}).get("hid") == rv["res"]["hid"] for x in walk(c["args"][0]))
                        r.ob(uses_len, {"fn": fn["path"], "resize_in_loop_relative_to_len": uses_len})
                        if not uses_len:
                            r.violate("%s | %s in loop on %s" % (fn["path"], c["method"], rv["res"].get("name")), F.loc(fn, c),
                                      "`%s.%s(..)` inside a loop sets the vector's absolute length from a per-iteration value: elements appended by earlier iterations are cut off or no new ones are added" % (rv["res"].get("name"), c["method"]))
    r.count("loops", n_loops)
    r.count("scratch_buffers", n_scratch)
    return r


def _is_assign_target(root, node):
    for c in walk(root):
        if c.get("k") == "Assign" and peel(c["lhs"]) is node:
            return True
    return False


# ---------------------------------------------------------------- R-MAPPER-UNCOND
MAPPERS_CALL = ("fix_op_id_mapping", "update_fn_instr", "update_global_instr", "update_memory_instr", "update_ids_and_encode")
MAPPERS_METHOD = ("fix_id_mapping",)


def mapper_uncond(F):
    """Whether an index is remapped may depend on WHAT is being emitted (section empty, entity deleted, kind, instrumentation
    present) but never on the maps themselves or on the recalculate flags: 'nothing moved in space A' says nothing about
    spaces B and C, and the three maps are recomputed independently."""
    r = RuleResult("R-MAPPER-UNCOND",
                   "no call that applies the old→new maps (fix_op_id_mapping, InitInstr::fix_id_mapping, update_*_instr) is guarded by a condition computed from a map or from a recalculate_ids flag (a shortcut 'ids did not move' looking at one index space skips the remapping of the other two)")
    n = 0
    for fn in F.fns:
        if fn.get("body") is None:
            continue
        sites = []
        for c in walk(fn["body"]):
            if c.get("k") == "Call" and (c.get("callee") or "").split("::")[-1] in MAPPERS_CALL:
                sites.append(c)
            if c.get("k") == "MethodCall" and c["method"] in MAPPERS_METHOD:
                sites.append(c)
        if not sites:
            continue
        r.analysed.append(fn["path"])

        def base_taint(e):
            for x in walk(e):
                if x.get("k") == "Field" and x["name"] == "recalculate_ids":
                    return "a recalculate_ids flag"
                if x.get("k") == "Path" and _is_u32_map(x.get("ty")):
                    return "the map `%s`" % x.get("res", {}).get("name", "?")
                if x.get("k") == "MethodCall" and _is_u32_map(x.get("recv_ty")):
                    return "a map"
            return None

        taint = {}
        changed = True
        while changed:
            changed = False
            for st in walk(fn["body"]):
                if st.get("k") == "Let" and st["pat"].get("k") == "Binding" and "init" in st and st["pat"]["hid"] not in taint:
                    if _is_u32_map(st["pat"].get("ty")):
                        continue  # the map itself is not a condition
                    t = base_taint(st["init"])
                    if t is None:
                        for x in walk(st["init"]):
                            if x.get("k") == "Path" and x.get("res", {}).get("hid") in taint:
                                t = taint[x["res"]["hid"]]
                    if t is not None and (st["pat"].get("ty") in ("bool",) or "Option" in (st["pat"].get("ty") or "") or st["pat"].get("ty") in ("usize", "u32")):
                        taint[st["pat"]["hid"]] = t + " (via `%s`)" % st["pat"]["name"]
                        changed = True
        for c in sites:
            n += 1
            bad = None
            for anc in conditional_ancestors(fn["body"], c) or []:
                cond = anc.get("cond") if anc.get("k") == "If" else (anc.get("scrut") if anc.get("k") == "Match" else None)
                if cond is None:
                    continue
                t = None
                for x in walk(cond):
                    if x.get("k") == "Path" and x.get("res", {}).get("hid") in taint:
                        t = taint[x["res"]["hid"]]
                if t is None and not (cond.get("k") == "Call" and (cond.get("callee") or "").split("::")[-1].startswith("refers_to_")):
                    bt = base_taint(cond)
                    # `match map.get(k)` / `if let Some(..) = map.get(k)` is the lookup itself, not a guard
                    if bt and not any(x.get("k") == "MethodCall" and x["method"] == "get" for x in walk(cond)):
                        t = bt
                if t:
                    bad = (anc, t)
            ok = bad is None
            r.ob(ok, {"fn": fn["path"], "mapper_call_line": c["sp"][0], "guarded_by_map_or_flag": not ok})
            if not ok:
                r.violate("%s | guarded mapper" % fn["path"], F.loc(fn, c),
                          "the remapping call at line %d runs only if a condition derived from %s holds: indices of the other index spaces (and of this one, when the flag is stale) are then emitted unmapped" % (c["sp"][0], bad[1]))
    r.count("mapper_calls", n)
    return r


# ---------------------------------------------------------------- R-FULL-ITER
TRUNC = ("take", "skip", "step_by", "take_while", "skip_while", "rev", "nth", "last")
FILTERS = ("filter", "filter_map", "skip", "skip_while", "take_while", "step_by", "flat_map", "flatten")


KIND_PRED = {"is_function": "FunctionID", "is_global": "GlobalID", "is_memory": "MemoryID", "is_table": "TableID", "is_tag": "TagID"}
KIND_TYPEREF = {"Func": "FunctionID", "Global": "GlobalID", "Memory": "MemoryID", "Table": "TableID", "Tag": "TagID"}


def _filter_kind(call):
    """if `call` is `.filter(|x| x.is_function())`-like (a pure *kind* filter over imports), the ID type of that kind"""
    for a_ in call.get("args", []):
        for x in walk(a_):
            if x.get("k") == "MethodCall" and x["method"] in KIND_PRED:
                return KIND_PRED[x["method"]]
            if x.get("k") in ("TupleStruct", "Struct", "Path") and (x.get("adt") or x.get("res", {}).get("adt") or "") == "wasmparser::TypeRef":
                v = x.get("variant") or x.get("res", {}).get("variant")
                if v in KIND_TYPEREF:
                    return KIND_TYPEREF[v]
        # `.filter(Import::is_function)` (path to the predicate)
        if a_.get("k") == "Path" and (a_.get("res", {}).get("path") or "").split("::")[-1] in KIND_PRED:
            return KIND_PRED[a_["res"]["path"].split("::")[-1]]
    return None


def full_iter(F):
    """Zero-expected rule over the whole crate.  (a) A walk over IR state that is consumed element by element (for-loop,
    collect, for_each, map …) is not truncated or reordered (take/skip/step_by/take_while/skip_while/rev/last); counting or
    testing a prefix (`take_while(..).count()`, `.any()`) and generators (`repeat(x).take(n)`, ranges) are not walks.
    (b) A position computed after a filter (`filter(..).enumerate()/position()/nth(k)`) is an ordinal among the survivors:
    that is right when the filter selects one import *kind* and the ordinal is used in that kind's index space (the n-th
    function import is function n), and wrong for any other filter (e.g. `!deleted`) or any other index space."""
    r = RuleResult("R-FULL-ITER",
                   "no element-wise walk over IR state is truncated or reordered, and a position taken after a filter is used only as the per-kind ordinal of a pure kind filter (never after a `deleted`-style filter, never as an index into the unfiltered collection)")
    n_chains = 0
    ORDER_FREE = ("count", "any", "all", "sum", "min", "max", "is_empty", "product")
    for fn in F.fns:
        if fn.get("body") is None or (fn.get("impl_trait") or "").startswith(("std::", "core::")):
            continue
        # ids constructed in this function (to see which index space an ordinal ends up in)
        id_ctors = {((x.get("fres") or {}).get("adt") or "").split("::")[-1] for x in walk(fn["body"]) if x.get("k") == "Call" and ((x.get("fres") or {}).get("adt") or "").startswith("ir::id::")}
        ret_ty = fn.get("ret") or ""
        outer_of = {}
        for x in walk(fn["body"]):
            if x.get("k") == "MethodCall":
                outer_of[id(peel(x["recv"]))] = x
        for c in walk(fn["body"]):
            if not (c.get("k") == "MethodCall" and ("iter::Iterator::" in (c.get("callee") or "") or "iter::traits" in (c.get("callee") or ""))):
                continue
            chain_nodes = []
            cur = c
            while isinstance(cur, dict) and cur.get("k") == "MethodCall":
                chain_nodes.append(cur)
                cur = peel(cur["recv"])
            chain_nodes.reverse()
            chain = [x["method"] for x in chain_nodes]
            n_chains += 1
            m = c["method"]
            tys = (c.get("ty") or "") + " " + (c.get("recv_ty") or "")
            over_ir = "ir::" in tys or "wasmparser::Operator" in tys
            if not over_ir:
                continue
            root = cur
            while isinstance(root, dict) and root.get("k") in ("Field", "Index", "Unary", "AddrOf"):
                root = peel(root.get("base") or root.get("a"))
            generator = (isinstance(root, dict) and root.get("k") == "Struct" and "ops::Range" in (root.get("adt") or "")) or \
                (isinstance(root, dict) and root.get("k") == "Call" and (root.get("callee") or "").split("::")[-1] in ("repeat", "repeat_n", "once", "repeat_with", "successors", "from_fn", "empty"))
            if m in ("take", "skip", "step_by", "take_while", "skip_while", "rev", "last") and not generator:
                # what consumes the truncated iterator?
                term = c
                while id(term) in outer_of and "iter::" in (outer_of[id(term)].get("callee") or ""):
                    term = outer_of[id(term)]
                if term["method"] in ORDER_FREE:
                    continue
                r.ob(False, {"fn": fn["path"], "chain": ".".join(chain)})
                r.violate("%s | %s" % (fn["path"], ".".join(chain)), F.loc(fn, c),
                          "iterator chain `.%s()` truncates or reorders an element-wise walk over IR state: elements outside the window are silently not visited/emitted/reported" % ".".join(chain))
            if m in ("enumerate", "position", "rposition", "nth"):
                filters = [x for x in chain_nodes[:-1] if x["method"] in FILTERS]
                if filters:
                    kinds = [_filter_kind(x) for x in filters]
                    pure_kind = all(k is not None for k in kinds) and len(set(kinds)) == 1
                    if pure_kind:
                        # ordinal among one kind: fine unless it is turned into another index space here
                        other = {t for t in id_ctors if t and t != kinds[0] and t in ("ImportsID",)}
                        uses_as_imports = "ImportsID" in other and any(
                            (x.get("fres") or {}).get("adt", "").endswith("ImportsID") and any(y is c or (y.get("k") == "Path" and False) for y in walk(x)) for x in walk(fn["body"]) if x.get("k") == "Call")
                        if not uses_as_imports:
                            r.ob(True, {"fn": fn["path"], "chain": ".".join(chain), "per_kind_ordinal_of": kinds[0]})
                            continue
                    r.ob(False, {"fn": fn["path"], "chain": ".".join(chain)})
                    r.violate("%s | %s" % (fn["path"], ".".join(chain)), F.loc(fn, c),
                              "%s() is applied after `%s`: its index counts only the surviving elements, not positions in the collection (ids/indices derived from it shift as soon as one element is filtered out)" % (m, filters[0]["method"]))
                elif m == "nth" and "module_imports::Import" in tys and not generator:
                    # the k-th entry of the *whole* import list is addressed by an ImportsID, never by a per-kind index
                    a_ty = " ".join((x.get("ty") or "") for x in walk(c["args"][0])) if c["args"] else ""
                    ok = "ImportsID" in a_ty
                    r.ob(ok, {"fn": fn["path"], "chain": ".".join(chain), "nth_argument_is_ImportsID": ok})
                    if not ok:
                        r.violate("%s | %s" % (fn["path"], ".".join(chain)), F.loc(fn, c),
                                  "the n-th entry of the whole import list is selected with an index that is not an ImportsID: a per-kind index (function/global/memory index) names a different import as soon as an import of another kind precedes")
    r.ob(True, {"iterator_adaptor_calls_scanned": n_chains})
    r.count("iterator_calls_scanned", n_chains)
    return r


# ---------------------------------------------------------------- R-ENCODE-WRITES
ENC_MUT = ("push", "insert", "remove", "clear", "retain", "extend", "append", "truncate", "pop", "drain", "sort", "dedup", "swap", "take", "replace",
           "get_or_insert_with", "or_insert", "push_str", "sort_by", "sort_unstable", "dedup_by_key", "swap_remove", "split_off", "fill", "reverse",
           "last_mut", "iter_mut", "get_mut", "first_mut", "values_mut", "entry", "set_id", "set_kind")


def encode_writes(F):
    """Encoding must leave the IR in a state from which the same bytes are produced again.  Every pattern of IR-state
    mutation reachable from encode_internal is therefore a reviewed row of tables/encode_writes.json with its idempotence
    class; a mutation pattern that is not in the table (a new field written, a list folded in place, a flag set for 'next
    time') is reported."""
    import json
    from vlib.report import VERIF
    r = RuleResult("R-ENCODE-WRITES",
                   "every ADT-field mutation pattern in the call graph of Module::encode_internal is a reviewed row of tables/encode_writes.json (remap / lower / append-once / scratch / access); no other IR state is written while encoding")
    rows = json.load(open(os.path.join(VERIF, "tables", "encode_writes.json")))["rows"]
    fn = enc_fn(F)
    g = mirutil.build_callgraph(F)
    seen, parent = mirutil.reachable_fns(F, [fn["path"]], g)

    def base(t):
        return re.sub(r"<.*", "", (t or "").replace("&mut ", "").replace("&", "")).split("::")[-1]

    pats = {}
    occ = {}
    for p in sorted(seen):
        f = F.by_path[p][0]
        if f.get("body") is None or f.get("hidden_helper"):
            continue        # a helper inlined at all its call sites is seen inside its callers
        for n in walk(f["body"]):
            key = None
            if n.get("k") in ("Assign", "AssignOp"):
                l = n["lhs"]
                while isinstance(l, dict) and l.get("k") in ("Unary", "Index", "AddrOf"):
                    l = l.get("a") or l.get("base")
                if isinstance(l, dict) and l.get("k") == "Field":
                    key = "%s.%s =" % (base(l.get("base_ty")), l["name"])
                elif isinstance(l, dict) and l.get("k") == "Path" and l.get("res", {}).get("r") == "local":
                    # `*b = ..` where b is the `&mut` binding a pattern gives to a field of one of the crate's own IR types
                    # (`DataSegmentKind::Active { memory_index, .. } => *memory_index = ..`): a write to that field
                    pat_, _scr, _k = binding_site(f["body"], l["res"]["hid"])
                    if pat_ is not None:
                        for s_ in walk(pat_):
                            if s_.get("k") == "Struct" and isinstance(s_.get("fields"), list) and (s_.get("adt") or "").startswith("ir::"):
                                for item in s_["fields"]:
                                    if isinstance(item, list) and isinstance(item[1], dict) and any(b.get("k") == "Binding" and b.get("hid") == l["res"]["hid"] for b in walk(item[1])):
                                        key = "%s.%s =" % (base(s_["adt"]), item[0])
            elif n.get("k") == "MethodCall" and (n["method"] in ENC_MUT or n["method"].startswith(("sort", "dedup", "retain", "drain", "extend", "swap", "split_off", "rotate", "resize", "truncate"))):
                l = peel(n["recv"])
                while isinstance(l, dict) and l.get("k") in ("Unary", "Index", "AddrOf"):
                    l = l.get("a") or l.get("base")
                if isinstance(l, dict) and l.get("k") == "Field":
                    key = "%s.%s.%s()" % (base(l.get("base_ty")), l["name"], n["method"])
            if key:
                pats.setdefault(key, (f, n))
                occ.setdefault(key, []).append((f, n))
    r.analysed += sorted(seen)[:30]
    r.count("encode_reachable_fns", len(seen))
    r.count("write_patterns", len(pats))
    vanished = [k for k in rows if k not in pats and not rows[k].get("optional")]   # optional rows: shapes the same write takes after a refactoring
    for key, (f, n) in sorted(pats.items()):
        ok = key in rows
        if ok and rows[key].get("only_in"):
            # a row reviewed for one place only (e.g. the code-section loop): the same access elsewhere is a new mutation
            stray = [(f_, n_) for f_, n_ in occ[key] if f_["name"] not in rows[key]["only_in"]]
            if stray:
                ok = False
                f, n = stray[0]
        if not ok:
            # a field/ADT rename shows up as one reviewed pattern vanishing and one unknown pattern with the same operation
            # appearing: report it as information, not as a new mutation
            op_ = key.rsplit(".", 1)[-1] if key.endswith("()") else "="
            twin = [k for k in vanished if (k.rsplit(".", 1)[-1] if k.endswith("()") else "=") == op_]
            if twin:
                vanished.remove(twin[0])
                r.ob(True, {"pattern": key, "treated_as_rename_of": twin[0]})
                r.info.append("write pattern %s is new and %s vanished: treated as a rename (re-review tables/encode_writes.json)" % (key, twin[0]))
                continue
        r.ob(ok, {"pattern": key, "class": rows.get(key, {}).get("class")})
        if not ok:
            r.violate("%s | unreviewed write %s" % (fn["path"], key), F.loc(f, n),
                      "`%s` (in %s, reachable from encode_internal via %s) mutates IR state while encoding and is not a reviewed idempotent pattern: a second encode() starts from different state and can produce different bytes" % (
                          key, f["path"], " → ".join(x.split("::")[-1] for x in mirutil.call_path(parent, f["path"])[-4:])))
    return r


def emit_all(F):
    """R-EMIT-ALL: an emission loop of Module::encode_internal — a `for` over one of the module's own collections whose
    body hands something to a wasm_encoder section builder — emits on every pass through the loop body, except for
    elements it recognises as deleted or as belonging to the other (import/local) half of the index space.  Any other
    condition under which an element is passed over silently removes it from the output and shifts every later index."""
    from vlib.paths import paths
    r = RuleResult("R-EMIT-ALL",
                   "every emission loop of encode_internal reaches a wasm_encoder sink on each iteration unless the element is deleted or of the other import/local kind")
    fn = F.one_fn(name="encode_internal", self_adt="Module")
    r.analysed.append(fn["path"])
    n = 0
    for m in walk(fn["body"]):
        if not (m.get("k") == "Match" and m.get("src") == "ForLoopDesugar"):
            continue
        src = None
        for x in walk(m["scrut"]):
            pp = place_path(x) if x.get("k") == "Field" else None
            if pp and pp.startswith("self.") and src is None:
                src = pp
        if not src:
            continue
        inner = [mm for mm in walk(m["arms"][0]["body"]) if mm.get("k") == "Match" and mm is not m]
        body = None
        for arm in (inner[0]["arms"] if inner else []):
            if arm["pat"].get("variant") == "Some":
                body = arm["body"]
        if body is None:
            continue

        def is_sink(n_):
            return n_.get("k") == "MethodCall" and "wasm_encoder" in (n_.get("recv_ty") or "") and n_["method"] not in ("new", "len", "is_empty")
        if any(x.get("k") == "Match" and x.get("src") == "ForLoopDesugar" and any(is_sink(y) for y in walk(x)) for x in walk(body)):
            continue        # outer loops over groups of items: the inner loop is the emission loop

        def cl(n_):
            if n_.get("k") == "MethodCall" and "wasm_encoder" in (n_.get("recv_ty") or "") and n_["method"] not in ("new", "len", "is_empty"):
                return "SINK"
            if n_.get("k") == "MethodCall" and n_["method"] in ("is_deleted", "is_import", "is_local"):
                return "KINDTEST"
            if n_.get("k") == "Field" and n_["name"] == "deleted":
                return "KINDTEST"
            if n_.get("k") == "Match" and any(t in (n_.get("scrut_ty") or "") for t in ("FuncKind", "GlobalKind", "MemKind")):
                return "KINDTEST"
            if n_.get("k") == "Let" and "else" in n_ and any(t in str((n_.get("pat") or {}).get("adt") or "") for t in ("FuncKind", "GlobalKind", "MemKind")):
                return "KINDTEST"       # `let FuncKind::Local(l) = f.kind() else { continue }`
            return None
        evs = {ev for ev, st in paths(body, cl) if st in ("fall", "cont")}
        if not any("SINK" in ev for ev in evs):
            continue        # not an emission loop (it collects, counts or renames)
        n += 1
        bad = [ev for ev in evs if "SINK" not in ev and "KINDTEST" not in ev]
        ok = not bad
        r.ob(ok, {"loop over": src, "paths": len(evs), "paths that skip the element for another reason": len(bad)})
        if not ok:
            r.violate("%s | loop over %s skips elements" % (fn["path"], src), F.loc(fn, m),
                      "the emission loop over `%s` has a path that emits nothing for an element that is neither deleted nor of the other import/local kind: that element vanishes from the output and every later one shifts down" % src)
    r.count("emission_loops", n)
    return r
