"""R-REFERS-EXH(kind): the re-index predicate and updater cover every operator
that carries an index into a re-indexable space."""
from vlib.facts import walk, peel, place_path, pat_variants, pat_alternatives, CheckError, conditional_ancestors
from vlib.report import RuleResult

OP = "wasmparser::Operator"


def index_variants(F, kind):
    """Variants of wasmparser::Operator that carry an index into `kind` space,
    with the list of index-carrying fields, computed from the ADT definition."""
    out = {}
    for name, v in F.variants(OP).items():
        fields = []
        for f in v["fields"]:
            if kind == "func" and f["name"] == "function_index":
                fields.append(f["name"])
            elif kind == "global" and f["name"] == "global_index":
                fields.append(f["name"])
            elif kind == "memory" and (f["ty"].endswith("MemArg") or f["name"] in ("mem", "src_mem", "dst_mem")):
                fields.append(f["name"])
        if fields:
            out[name] = fields
    return out


def _match_on_param(fn, F):
    """The (single) match in `fn` whose scrutinee type is Operator."""
    ms = [m for m in walk(fn["body"]) if m.get("k") == "Match" and OP in m.get("scrut_ty", "")]
    if len(ms) == 0:
        # `let (Operator::A { x } | Operator::B { x }) = op else { panic!(..) };  <rest of the body>`: a one-arm match whose
        # arm body is the rest of the function
        for blk in walk(fn["body"]):
            if blk.get("k") != "Block":
                continue
            for i_, st in enumerate(blk.get("stmts") or []):
                if st.get("k") == "Let" and "else" in st and "init" in st and OP in ((st["init"].get("ty") or "") + " " + (peel(st["init"]).get("ty") or "")):
                    rest = {"k": "Block", "stmts": blk["stmts"][i_ + 1:], "expr": blk.get("expr"), "ty": blk.get("ty"), "sp": st.get("sp")}
                    return {"k": "Match", "scrut": st["init"], "scrut_ty": OP, "sp": st.get("sp"), "synthetic": True,
                            "arms": [{"pat": st["pat"], "body": rest}, {"pat": {"k": "Wild"}, "body": st["else"]}]}
    if len(ms) != 1:
        raise CheckError("%s: expected exactly one match on Operator, found %d" % (fn["path"], len(ms)))
    return ms[0]


def _arm_is_true(arm):
    b = arm["body"]
    return b.get("k") == "Lit" and b.get("lit") == "Bool(true)"


def _diverges(e):
    return e.get("ty") == "!"


def refers_exh(F, kind):
    names = {"func": ("refers_to_func", "update_fn_instr"),
             "global": ("refers_to_global", "update_global_instr"),
             "memory": ("refers_to_memory", "update_memory_instr")}[kind]
    r = RuleResult("R-REFERS-EXH(%s)" % kind,
                   "every wasmparser::Operator variant with a %s-index field is accepted by %s and rewritten (every such field) by %s" % (kind, names[0], names[1]))
    need = index_variants(F, kind)
    r.count("adt_variants", len(need))
    upd = F.one_fn(name=names[1], path_contains="wrappers")
    preds = F.find_fns(name=names[0], path_contains="wrappers")
    if len(preds) == 1:
        pred = preds[0]
        r.analysed += [pred["path"], upd["path"], OP]
        # predicate: variants in arms evaluating to `true`
        m = _match_on_param(pred, F)
        pred_set = set()
        for arm in m["arms"]:
            vs, wild = pat_variants(arm["pat"])
            if _arm_is_true(arm):
                if wild:
                    # catch-all true: covers everything
                    pred_set |= set(need)
                pred_set |= {v for a, v in vs if a == OP}
    else:
        # the predicate was inlined / renamed: take the set of operators under which the updater is actually called —
        # from `if P(op)` guards and from the match arms (with or without `_ if P(op)` guards) around every call site
        pred_set = set()
        pred = None
        sites = 0
        for fn_ in F.fns:
            if fn_.get("body") is None:
                continue
            for c in walk(fn_["body"]):
                if not (c.get("k") == "Call" and (c.get("callee") or "") == upd["path"]):
                    continue
                sites += 1
                pred = pred or fn_
                got_guard = False
                for anc in conditional_ancestors(fn_["body"], c) or []:
                    if anc.get("k") == "If":
                        cd = peel(anc["cond"])
                        if cd.get("k") == "Call" and (cd.get("callee") or "") in F.by_path:
                            try:
                                pred_set |= _pred_accepts(F, F.by_path[cd["callee"]][0]) - {"*"}
                                got_guard = True
                            except CheckError:
                                pass
                    if anc.get("k") == "Match" and OP in (anc.get("scrut_ty") or ""):
                        for arm in anc["arms"]:
                            if any(x is c for x in walk(arm["body"])):
                                vs, wild = pat_variants(arm["pat"])
                                pred_set |= {v for a, v in vs if a == OP}
                                got_guard = True
                                if wild and "guard" in arm:
                                    g_ = peel(arm["guard"])
                                    if g_.get("k") == "Call" and (g_.get("callee") or "") in F.by_path:
                                        try:
                                            pred_set |= _pred_accepts(F, F.by_path[g_["callee"]][0]) - {"*"}
                                        except CheckError:
                                            pass
                                elif wild:
                                    pred_set |= set(need)
                if not got_guard:
                    pred_set |= set(need)  # called unconditionally
        if pred is None:
            raise CheckError("anchor: neither %s nor any call site of %s found" % (names[0], names[1]))
        r.analysed += [pred["path"] + " (call-site guards of %s)" % names[1], upd["path"], OP]
    # updater: variants in non-diverging arms, with the fields bound
    m2 = _match_on_param(upd, F)
    upd_fields = {}
    for arm in m2["arms"]:
        if _diverges(arm["body"]):
            continue
        for leaf in pat_alternatives(arm["pat"]):
            if leaf.get("k") == "Struct" and leaf.get("adt") == OP:
                bound = {fname for fname, sub in leaf["fields"]}
                upd_fields.setdefault(leaf["variant"], set()).update(bound)
                # which bound fields are actually written in the arm body?
        # writes in the body: Assign whose lhs derefs a binding
    # local "remapper" helpers: fn(p: &mut u32, map) that writes `*p = *map.get(p)` (key and target are the same parameter)
    remappers = set()
    for g_ in getattr(F, "all_fns", F.fns):
        if g_.get("body") is None:
            continue
        pms = g_.get("params", [])
        mut_u32 = [pm for pm in pms if (pm.get("ty") or "").replace(" ", "") in ("&mutu32",)]
        has_map = any("HashMap<u32, u32" in (pm.get("ty") or "") for pm in pms)
        if len(mut_u32) == 1 and has_map:
            ph = mut_u32[0]["pat"].get("hid")
            okk = False
            for x in walk(g_["body"]):
                if x.get("k") == "Assign":
                    l = x["lhs"]
                    while isinstance(l, dict) and l.get("k") in ("Unary",):
                        l = l.get("a")
                    if isinstance(l, dict) and l.get("k") == "Path" and l.get("res", {}).get("hid") == ph:
                        okk = any(y.get("k") == "MethodCall" and y["method"] == "get" and any(z.get("k") == "Path" and z.get("res", {}).get("hid") == ph for z in walk(y["args"][0])) for y in walk(g_["body"]) if y.get("args"))
            if okk:
                remappers.add(g_["path"])
    # written fields per arm: collect binding names assigned to
    written = {}
    for arm in m2["arms"]:
        if _diverges(arm["body"]):
            continue
        assigned = set()
        for n in walk(arm["body"]):
            if n.get("k") == "Call" and (n.get("callee") or "") in remappers and n["args"]:
                a0 = n["args"][0]
                while isinstance(a0, dict) and a0.get("k") in ("AddrOf", "Unary", "Field"):
                    a0 = a0.get("a") or a0.get("base")
                if isinstance(a0, dict) and a0.get("k") == "Path" and a0.get("res", {}).get("r") == "local":
                    assigned.add(a0["res"]["name"])
            if n.get("k") == "Assign":
                lhs = n["lhs"]
                # *binding = ..  or binding.memory = ..
                while lhs.get("k") in ("Unary", "Field"):
                    lhs = lhs.get("a") or lhs.get("base")
                if lhs.get("k") == "Path" and lhs["res"].get("r") == "local":
                    assigned.add(lhs["res"]["name"])
        for leaf in pat_alternatives(arm["pat"]):
            if leaf.get("k") == "Struct" and leaf.get("adt") == OP:
                for fname, sub in leaf["fields"]:
                    bn = sub.get("name") if sub.get("k") == "Binding" else None
                    if bn in assigned:
                        written.setdefault(leaf["variant"], set()).add(fname)

    if not written and not m2.get("synthetic"):
        # no arm rewrites anything in place: the arms only select the operand slot(s) (`[Some(&mut memarg.memory), None]`)
        # and the rewrite happens once after the match — which slot an arm selects is not followed
        hands_out = any(x.get("k") == "AddrOf" and x.get("mut") for arm in m2["arms"] for x in walk(arm["body"])) or \
            any(x.get("k") in ("Array", "Tup") for arm in m2["arms"] for x in walk(arm["body"]))
        later_write = any(x.get("k") == "Assign" and not any(x is y for arm in m2["arms"] for y in walk(arm["body"])) for x in walk(upd["body"]))
        if hands_out and later_write:
            r.undecided("%s selects the operand slots in its match and rewrites them afterwards: per-field rewriting was not analysed" % names[1])
            for v in sorted(need):
                okp = v in pred_set
                r.ob(okp, {"variant": v, "in_predicate": okp})
                if not okp:
                    r.violate("%s | %s" % (pred["path"], v), F.loc(pred),
                              "operator %s carries a %s index (%s) but %s does not accept it: it keeps its old index after re-indexing" % (v, kind, ",".join(need[v]), names[0]))
            return r
    # key/target agreement: `match mapping.get(K) { Some(n) => *T = *n }` must look up the very field it rewrites
    n_pairs = 0
    # let-else form: `let Some(n) = mapping.get(K) else { panic }; *T = *n;`
    for st in walk(m2):
        if st.get("k") == "Let" and "else" in st and "init" in st:
            sc = peel(st["init"])
            if sc.get("k") == "MethodCall" and sc.get("method") == "get" and sc.get("args"):
                kplace = place_path(sc["args"][0])
                binds = {b["hid"] for b in walk(st["pat"]) if b.get("k") == "Binding"}
                for a in walk(m2):
                    if a.get("k") == "Assign" and {x["res"]["hid"] for x in walk(a["rhs"]) if x.get("k") == "Path" and x.get("res", {}).get("r") == "local"} & binds:
                        tplace = place_path(a["lhs"])
                        n_pairs += 1
                        ok = kplace is not None and kplace == tplace
                        r.ob(ok, {"lookup_key": kplace, "rewritten": tplace})
                        if not ok:
                            r.violate("%s | key/target %s←map[%s]" % (upd["path"], tplace, kplace), F.loc(upd, a),
                                      "%s rewrites `%s` with the mapping of `%s`: the %s index is replaced by another operand's new index" % (names[1], tplace, kplace, kind))
    for g in walk(m2):
        if g.get("k") != "Match":
            continue
        sc = peel(g.get("scrut") or {})
        if not (sc.get("k") == "MethodCall" and sc.get("method") == "get" and sc.get("args")):
            continue
        kplace = place_path(sc["args"][0])
        for arm in g["arms"]:
            binds = {b["hid"] for b in walk(arm["pat"]) if b.get("k") == "Binding"}
            if not binds:
                continue
            for a in walk(arm["body"]):
                if a.get("k") != "Assign":
                    continue
                uses = {x["res"]["hid"] for x in walk(a["rhs"]) if x.get("k") == "Path" and x.get("res", {}).get("r") == "local"}
                if not (uses & binds):
                    continue
                tplace = place_path(a["lhs"])
                n_pairs += 1
                ok = kplace is not None and kplace == tplace
                r.ob(ok, {"lookup_key": kplace, "rewritten": tplace})
                if not ok:
                    r.violate("%s | key/target %s←map[%s]" % (upd["path"], tplace, kplace), F.loc(upd, a),
                              "%s rewrites `%s` with the mapping of `%s`: the %s index is replaced by another operand's new index" % (names[1], tplace, kplace, kind))
    # closure form: `let remap = |m| match mapping.get(&m) {..}; *T = remap(*K);`
    remap_closures = set()
    for st in walk(m2):
        if st.get("k") == "Let" and st["pat"].get("k") == "Binding" and isinstance(st.get("init"), dict) and peel(st["init"]).get("k") == "Closure":
            clo = peel(st["init"])
            ph_ = {b["hid"] for p_ in clo.get("params", []) for b in walk(p_) if b.get("k") == "Binding"}
            if len(ph_) == 1 and any(x.get("k") == "MethodCall" and x.get("method") == "get" and x.get("args") and
                                     any(y.get("k") == "Path" and y.get("res", {}).get("hid") in ph_ for y in walk(x["args"][0])) for x in walk(clo["body"])):
                remap_closures.add(st["pat"]["hid"])
    for a in walk(m2):
        if a.get("k") != "Assign":
            continue
        rhs = peel(a["rhs"])
        f_ = peel(rhs.get("f") or {}) if rhs.get("k") == "Call" else {}
        if f_.get("k") == "Path" and f_.get("res", {}).get("hid") in remap_closures and rhs.get("args"):
            kplace, tplace = place_path(rhs["args"][0]), place_path(a["lhs"])
            n_pairs += 1
            ok = kplace is not None and kplace == tplace
            r.ob(ok, {"lookup_key": kplace, "rewritten": tplace})
            if not ok:
                r.violate("%s | key/target %s←map[%s]" % (upd["path"], tplace, kplace), F.loc(upd, a),
                          "%s rewrites `%s` with the mapping of `%s`: the %s index is replaced by another operand's new index" % (names[1], tplace, kplace, kind))
    r.count("lookup_rewrite_pairs", n_pairs)

    for v, fields in sorted(need.items()):
        okp = v in pred_set
        r.ob(okp, {"variant": v, "in_predicate": okp})
        if not okp:
            r.violate("%s | %s" % (pred["path"], v), F.loc(pred),
                      "operator %s carries a %s index (%s) but %s does not accept it: it keeps its old index after re-indexing" % (v, kind, ",".join(fields), names[0]))
        for fld in fields:
            oku = fld in written.get(v, set())
            r.ob(oku, {"variant": v, "field": fld, "rewritten": oku})
            if not oku:
                r.violate("%s | %s.%s" % (upd["path"], v, fld), F.loc(upd),
                          "operator %s field %s is not rewritten by %s" % (v, fld, names[1]))
    # predicate ⊆ updater (else the updater's catch-all panics on an accepted operator)
    for v in sorted(pred_set):
        ok = v in written
        r.ob(ok)
        if not ok:
            r.violate("%s | accepted-not-updated | %s" % (upd["path"], v), F.loc(upd),
                      "%s accepts %s but %s has no rewriting arm for it (falls into the panicking catch-all)" % (names[0], v, names[1]))
    # spurious: predicate accepts a variant without such an index
    for v in sorted(pred_set - set(need)):
        r.info.append("predicate accepts %s which has no %s index field" % (v, kind))
    r.count("predicate_variants", len(pred_set & set(need)))
    r.count("updater_variants", len(set(written) & set(need)))
    return r


def _pred_accepts(F, fn):
    m = _match_on_param(fn, F)
    acc = set()
    for arm in m["arms"]:
        vs, wild = pat_variants(arm["pat"])
        if _arm_is_true(arm):
            acc |= {v for a, v in vs if a == OP}
            if wild:
                acc.add("*")
    return acc


def _upd_handles(F, fn):
    m = _match_on_param(fn, F)
    h = set()
    for arm in m["arms"]:
        if _diverges(arm["body"]):
            continue
        vs, wild = pat_variants(arm["pat"])
        h |= {v for a, v in vs if a == OP}
        if wild:
            h.add("*")
    return h


def fix_op_dispatch(F):
    """fix_op_id_mapping: for each index space there is a dispatch `if P(op) { U(op, map) }` where P accepts exactly the
    operators of that space (R-REFERS-EXH) and U handles every operator P accepts; the dispatch is unconditional otherwise.
    Which map is passed is R-MAP-ARGS's business (inferred from use, not from names)."""
    r = RuleResult("R-FIXOP-DISPATCH", "fix_op_id_mapping dispatches, for each of the three index spaces, `if refers_to_X(op) { update_X(op, map) }` with the updater handling every operator the predicate accepts, not nested under any other condition")
    fn = F.one_fn(name="fix_op_id_mapping")
    r.analysed.append(fn["path"])
    kinds_seen = {}
    top = fn["body"]
    top_ifs = []
    # dispatches must sit at the top level of the function body (not under another condition)
    stmts = list(top.get("stmts") or []) + ([top["expr"]] if top.get("expr") else [])
    for st in stmts:
        e = st.get("e") if st.get("k") in ("Semi", "Expr") else st
        e = peel(e) if isinstance(e, dict) else e
        if isinstance(e, dict) and e.get("k") == "If":
            top_ifs.append(e)
    for n in top_ifs:
        c = peel(n["cond"])
        if c.get("k") == "DropTemps":
            c = peel(c.get("e") or c.get("a") or {})
        if not (c.get("k") == "Call" and c.get("callee")):
            continue
        ptgt = F.by_path.get(c["callee"])
        if not ptgt:
            continue
        for x in walk(n["then"]):
            if x.get("k") == "Call" and x.get("callee") in F.by_path:
                utgt = F.by_path[x["callee"]][0]
                try:
                    acc = _pred_accepts(F, ptgt[0])
                    han = _upd_handles(F, utgt)
                except CheckError:
                    continue
                for kind in ("func", "global", "memory"):
                    need = set(index_variants(F, kind))
                    if acc and (acc - {"*"}) <= need and (acc - {"*"}):
                        ok = "*" in han or acc <= han
                        kinds_seen[kind] = (ptgt[0]["name"], utgt["name"], ok)
    if len(kinds_seen) < 3:
        # dispatch restructured (e.g. one `match op { .. }`): it is enough here that each space's updater is still
        # called from fix_op_id_mapping; under which operators is R-REFERS-EXH's business (call-site guard fallback)
        from rules.emit import param_kinds
        pk = param_kinds(F)
        for x in walk(fn["body"]):
            if x.get("k") == "Call" and x.get("callee") in F.by_path:
                ut = F.by_path[x["callee"]][0]
                for (pth, j), ks in pk.items():
                    if pth == ut["path"] and len(ks) == 1:
                        k_ = next(iter(ks))
                        if k_ not in kinds_seen and any("Operator" in (pm.get("ty") or "") for pm in ut.get("params", [])):
                            kinds_seen[k_] = ("(restructured dispatch)", ut["name"], True)
    for kind in ("func", "global", "memory"):
        got = kinds_seen.get(kind)
        ok = got is not None and got[2]
        r.ob(ok, {"space": kind, "dispatch": got})
        if not ok:
            r.violate("%s | %s" % (fn["path"], kind), F.loc(fn),
                      "fix_op_id_mapping has no unconditional `if <predicate>(op) { <updater>(op, ..) }` dispatch for the %s index space whose updater handles all accepted operators (found %r)" % (kind, got))
    r.count("dispatches", len(kinds_seen))
    return r
