"""R-REFERS-EXH(kind): the re-index predicate and updater cover every operator
that carries an index into a re-indexable space."""
from vlib.facts import walk, pat_variants, pat_alternatives, CheckError
from vlib.report import RuleResult

OP = "wasmparser::Operator"


def index_variants(F, kind):
    """Variants of wasmparser::Operator that carry an index into `kind` space,
    with the list of index-carrying fields, computed from the ADT definition."""
    out = {}
    for name, v in F.variants(OP).items():
        fields = []
        for f in v["fields"]:
            if kind == "func" and f["name"] == "function_index":
                fields.append(f["name"])
            elif kind == "global" and f["name"] == "global_index":
                fields.append(f["name"])
            elif kind == "memory" and (f["ty"].endswith("MemArg") or f["name"] in ("mem", "src_mem", "dst_mem")):
                fields.append(f["name"])
        if fields:
            out[name] = fields
    return out


def _match_on_param(fn, F):
    """The (single) match in `fn` whose scrutinee type is Operator."""
    ms = [m for m in walk(fn["body"]) if m.get("k") == "Match" and OP in m.get("scrut_ty", "")]
    if len(ms) != 1:
        raise CheckError("%s: expected exactly one match on Operator, found %d" % (fn["path"], len(ms)))
    return ms[0]


def _arm_is_true(arm):
    b = arm["body"]
    return b.get("k") == "Lit" and b.get("lit") == "Bool(true)"


def _diverges(e):
    return e.get("ty") == "!"


def refers_exh(F, kind):
    names = {"func": ("refers_to_func", "update_fn_instr"),
             "global": ("refers_to_global", "update_global_instr"),
             "memory": ("refers_to_memory", "update_memory_instr")}[kind]
    r = RuleResult("R-REFERS-EXH(%s)" % kind,
                   "every wasmparser::Operator variant with a %s-index field is accepted by %s and rewritten (every such field) by %s" % (kind, names[0], names[1]))
    need = index_variants(F, kind)
    r.count("adt_variants", len(need))
    pred = F.one_fn(name=names[0], path_contains="wrappers")
    upd = F.one_fn(name=names[1], path_contains="wrappers")
    r.analysed += [pred["path"], upd["path"], OP]

    # predicate: variants in arms evaluating to `true`
    m = _match_on_param(pred, F)
    pred_set = set()
    for arm in m["arms"]:
        vs, wild = pat_variants(arm["pat"])
        if _arm_is_true(arm):
            if wild:
                # catch-all true: covers everything
                pred_set |= set(need)
            pred_set |= {v for a, v in vs if a == OP}
    # updater: variants in non-diverging arms, with the fields bound
    m2 = _match_on_param(upd, F)
    upd_fields = {}
    for arm in m2["arms"]:
        if _diverges(arm["body"]):
            continue
        for leaf in pat_alternatives(arm["pat"]):
            if leaf.get("k") == "Struct" and leaf.get("adt") == OP:
                bound = {fname for fname, sub in leaf["fields"]}
                upd_fields.setdefault(leaf["variant"], set()).update(bound)
                # which bound fields are actually written in the arm body?
        # writes in the body: Assign whose lhs derefs a binding
    # written fields per arm: collect binding names assigned to
    written = {}
    for arm in m2["arms"]:
        if _diverges(arm["body"]):
            continue
        assigned = set()
        for n in walk(arm["body"]):
            if n.get("k") == "Assign":
                lhs = n["lhs"]
                # *binding = ..  or binding.memory = ..
                while lhs.get("k") in ("Unary", "Field"):
                    lhs = lhs.get("a") or lhs.get("base")
                if lhs.get("k") == "Path" and lhs["res"].get("r") == "local":
                    assigned.add(lhs["res"]["name"])
        for leaf in pat_alternatives(arm["pat"]):
            if leaf.get("k") == "Struct" and leaf.get("adt") == OP:
                for fname, sub in leaf["fields"]:
                    bn = sub.get("name") if sub.get("k") == "Binding" else None
                    if bn in assigned:
                        written.setdefault(leaf["variant"], set()).add(fname)

    for v, fields in sorted(need.items()):
        okp = v in pred_set
        r.ob(okp, {"variant": v, "in_predicate": okp})
        if not okp:
            r.violate("%s | %s" % (pred["path"], v), F.loc(pred),
                      "operator %s carries a %s index (%s) but %s does not accept it: it keeps its old index after re-indexing" % (v, kind, ",".join(fields), names[0]))
        for fld in fields:
            oku = fld in written.get(v, set())
            r.ob(oku, {"variant": v, "field": fld, "rewritten": oku})
            if not oku:
                r.violate("%s | %s.%s" % (upd["path"], v, fld), F.loc(upd),
                          "operator %s field %s is not rewritten by %s" % (v, fld, names[1]))
    # predicate ⊆ updater (else the updater's catch-all panics on an accepted operator)
    for v in sorted(pred_set):
        ok = v in written
        r.ob(ok)
        if not ok:
            r.violate("%s | accepted-not-updated | %s" % (upd["path"], v), F.loc(upd),
                      "%s accepts %s but %s has no rewriting arm for it (falls into the panicking catch-all)" % (names[0], v, names[1]))
    # spurious: predicate accepts a variant without such an index
    for v in sorted(pred_set - set(need)):
        r.info.append("predicate accepts %s which has no %s index field" % (v, kind))
    r.count("predicate_variants", len(pred_set & set(need)))
    r.count("updater_variants", len(set(written) & set(need)))
    return r


def fix_op_dispatch(F):
    """fix_op_id_mapping calls update_X under refers_to_X for all three kinds."""
    r = RuleResult("R-FIXOP-DISPATCH", "fix_op_id_mapping guards update_{fn,global,memory}_instr by the matching refers_to_* predicate with the matching map parameter")
    fn = F.one_fn(name="fix_op_id_mapping")
    r.analysed.append(fn["path"])
    want = {"refers_to_func": ("update_fn_instr", "func_mapping"),
            "refers_to_global": ("update_global_instr", "global_mapping"),
            "refers_to_memory": ("update_memory_instr", "memory_mapping")}
    found = {}
    for n in walk(fn["body"]):
        if n.get("k") == "If":
            c = n["cond"]
            if c.get("k") == "Call" and c.get("callee"):
                pname = c["callee"].split("::")[-1]
                calls = [x for x in walk(n["then"]) if x.get("k") == "Call" and x.get("callee")]
                for x in calls:
                    uname = x["callee"].split("::")[-1]
                    args = [a for a in x["args"]]
                    mp = None
                    if len(args) >= 2 and args[1].get("k") == "Path":
                        mp = args[1]["res"].get("name")
                    found[pname] = (uname, mp, n.get("else") is None)
    for p, (u, mp) in want.items():
        got = found.get(p)
        ok = got is not None and got[0] == u and got[1] == mp
        r.ob(ok, {"predicate": p, "expected": [u, mp], "found": got})
        if not ok:
            r.violate("%s | %s" % (fn["path"], p), F.loc(fn),
                      "fix_op_id_mapping does not call %s(op, %s) under %s(op): found %r" % (u, mp, p, got))
    r.count("dispatches", len(found))
    return r
