"""R-CONSTEXPR-TABLE: InitExpr::eval and InitExpr::to_wasmencoder_type are
mutually inverse tables with bit-preserving immediates."""
from vlib.absint import Interp, V, Vt, show, fields_of, is_panic
from vlib.facts import walk, pat_alternatives, CheckError, lit_int
from vlib.report import RuleResult

OP = "wasmparser::Operator"
II = "ir::types::InitInstr"
WEI = "wasm_encoder::Instruction"
WPH = "wasmparser::HeapType"
WPA = "wasmparser::AbstractHeapType"

# conversions that preserve every bit of the immediate (reviewed):
#  wasmparser::Ieee32::bits / f32::from_bits / wasm_encoder Ieee32::from(f32) (= to_bits), same for 64,
#  v128_to_u128 (checked structurally below) followed by `as i128` (same width, two's complement)
BITPRES = ("wasmparser::Ieee32::bits", "wasmparser::Ieee64::bits",
           "core::f32::<impl f32>::from_bits", "core::f64::<impl f64>::from_bits",
           "<wasm_encoder::Ieee32 as std::convert::From<f32>>::from",
           "<wasm_encoder::Ieee64 as std::convert::From<f64>>::from",
           "ir::types::v128_to_u128")


def strip(t):
    """Remove whitelisted bit-preserving conversions; return (leaf, chain)."""
    chain = []
    while isinstance(t, tuple):
        if t[0] == "app" and len(t[2]) == 1 and t[1] in BITPRES:
            chain.append(t[1])
            t = t[2][0]
        elif t[0] == "cast" and t[1] in ("i128",):
            chain.append("as " + t[1])
            t = t[2]
        else:
            break
    return t, chain


def _find_match(fn, adt):
    def base(ty):
        ty = ty.replace("&mut ", "").replace("&", "").strip()
        return ty.split("<")[0]
    ms = [m for m in walk(fn["body"]) if m.get("k") == "Match" and base(m.get("scrut_ty", "")) == adt]
    # outermost = first in pre-order
    if not ms:
        raise CheckError("%s: no match on %s" % (fn["path"], adt))
    return ms[0]


def heap_domain(F):
    out = []
    for name in F.variants(WPA):
        for sh in (False, True):
            out.append((V(WPH, "Abstract", shared=("b", sh), ty=("v", WPA, name, ())), "%s%s" % ("shared " if sh else "", name.lower())))
    for kind in ("Module", "RecGroup"):
        out.append((Vt(WPH, "Concrete", Vt("wasmparser::UnpackedIndex", kind, ("s", "i"))), "concrete %s i" % kind.lower()))
    return out


def canon_heap_we(h):
    fs = fields_of(h)
    if h[2] == "Abstract":
        return ("abs", fs.get("shared"), fs.get("ty")[2] if fs.get("ty", ("",))[0] == "v" else fs.get("ty"))
    if h[2] == "Concrete":
        x = fs.get("0")
        if isinstance(x, tuple) and x[0] == "v" and (x[1] or "").endswith("UnpackedIndex"):
            return ("conc", fields_of(x)["0"])
        return ("conc", x)
    return ("?", h)


def constexpr_table(F):
    r = RuleResult("R-CONSTEXPR-TABLE",
                   "every constant-expression operator InitExpr::eval accepts is re-emitted by to_wasmencoder_type as the same-named wasm_encoder instruction, each immediate flowing field→field through bit-preserving conversions only; ref.null's heap-type table is the identity")
    ev = F.one_fn(name="eval", self_adt="InitExpr")
    enc = F.one_fn(name="to_wasmencoder_type", self_adt="InitExpr")
    r.analysed += [ev["path"], enc["path"]]
    m_ev = _find_match(ev, OP)
    m_enc = _find_match(enc, II)
    # is the value of the match handed to exactly one `.encode(..)` in the function (directly, or as the value of a helper
    # inlined at its call)?
    holders = [m_enc]
    for c in walk(enc["body"]):
        if c.get("k") in ("Call", "MethodCall") and isinstance(c.get("inlined"), dict):
            hb = c["inlined"]["body"]
            while isinstance(hb, dict) and hb.get("k") in ("Block", "DropTemps", "Use") and not hb.get("stmts"):
                hb = hb.get("expr") or hb.get("e") or {}
            if hb is m_enc:
                holders.append(c)
    enc_of_result = sum(1 for c in walk(enc["body"]) if c.get("k") == "MethodCall" and c["method"] == "encode" and any(x is h for h in holders for x in walk(c["recv"]))) == 1
    opv = F.variants(OP)
    wev = F.variants(WEI)
    iiv = F.variants(II)
    produced = set()
    n_ops = 0
    for arm in m_ev["arms"]:
        for leaf in pat_alternatives(arm["pat"]):
            if leaf.get("adt") != OP or not leaf.get("variant"):
                continue
            name = leaf["variant"]
            if arm["body"].get("ty") == "!" or arm["body"].get("k") == "Break":
                continue
            n_ops += 1
            fnames = [f["name"] for f in opv[name]["fields"]]
            if name == "RefNull":
                inputs = [(V(OP, name, hty=h), lbl) for h, lbl in heap_domain(F)]
            else:
                inputs = [(V(OP, name, **{f: ("s", f) for f in fnames}), "")]
            for opval, lbl in inputs:
                I = Interp(F, opaque=("v128_to_u128",))
                _, iv = I.match_on(m_ev, opval)
                if is_panic(iv) or iv[0] != "v" or iv[1] != II:
                    r.ob(False)
                    r.violate("%s | %s %s" % (ev["path"], name, lbl), F.loc(ev, arm), "eval(%s) does not produce an InitInstr: %s" % (name, show(iv)))
                    continue
                produced.add(iv[2])
                I2 = Interp(F, opaque=("v128_to_u128",))
                _, ov = I2.match_on(m_enc, iv)
                encs = [e for e in I2.effects if e[1].endswith("::encode")]
                if not encs and isinstance(ov, tuple) and len(ov) > 2 and ov[0] == "v" and ov[1] == WEI and enc_of_result:
                    # the match *returns* the instruction (a helper `fn instr_to_wasmencoder(..) -> Instruction`) and the
                    # caller encodes that value once: `self.instr_to_wasmencoder(i).encode(&mut bytes)`
                    encs = [("effect", "wasm_encoder::Encode::encode", [ov])]
                if len(encs) != 1 or encs[0][2][0][0] != "v" or encs[0][2][0][1] != WEI:
                    r.ob(False)
                    r.violate("%s | %s %s" % (enc["path"], name, lbl), F.loc(enc),
                              "to_wasmencoder_type(%s) does not encode exactly one wasm_encoder instruction (found %d)" % (show(iv), len(encs)))
                    continue
                out = encs[0][2][0]
                # 1. same operator
                ok = out[2] == name
                r.ob(ok, {"operator": name + (" " + lbl if lbl else ""), "ir": show(iv), "emitted": show(out)})
                if not ok:
                    r.violate("%s | %s→%s" % (enc["path"], name, out[2]), F.loc(enc),
                              "constant operator %s is re-emitted as %s" % (name, out[2]))
                    continue
                # 2. immediates
                ofs = fields_of(out)
                if name == "RefNull":
                    got = canon_heap_we(ofs.get("0")) if ofs.get("0", ("",))[0] == "v" else ("?", ofs.get("0"))
                    want = canon_heap_we(fields_of(opval)["hty"])
                    ok = got == want
                    r.ob(ok)
                    if not ok:
                        r.violate("%s | RefNull %s" % (enc["path"], lbl), F.loc(enc),
                                  "ref.null %s is re-emitted with heap type %s" % (lbl, got))
                    continue
                wfields = [f["name"] for f in wev[name]["fields"]]
                if len(wfields) != len(fnames):
                    r.ob(False)
                    r.violate("%s | %s arity" % (enc["path"], name), F.loc(enc), "immediate count differs for %s" % name)
                    continue
                for idx, wf in enumerate(wfields):
                    val = ofs.get(wf if not wf.isdigit() else str(idx))
                    leaf_v, chain = strip(val)
                    # expected source field: same name, or the only field for tuple variants
                    exp = wf if wf in fnames else (fnames[idx] if len(fnames) == len(wfields) else None)
                    ok = leaf_v == ("s", exp)
                    r.ob(ok, {"operator": name, "immediate": wf, "flows_from": show(leaf_v), "through": chain})
                    if not ok:
                        r.violate("%s | %s.%s" % (enc["path"], name, wf), F.loc(enc),
                                  "immediate %s of %s is emitted from %s (expected the parsed %s through bit-preserving conversions only)" % (wf, name, show(val), exp))
    r.count("const_operators", n_ops)
    # every InitInstr variant is both produced and consumed explicitly
    consumed = set()
    for arm in m_enc["arms"]:
        for leaf in pat_alternatives(arm["pat"]):
            if leaf.get("adt") == II and leaf.get("variant"):
                consumed.add(leaf["variant"])
    for v in iiv:
        ok = v in consumed
        r.ob(ok)
        if not ok:
            r.violate("%s | unhandled %s" % (enc["path"], v), F.loc(enc), "InitInstr::%s has no explicit arm in to_wasmencoder_type" % v)
        if v not in produced:
            r.info.append("InitInstr::%s is never produced by eval (API-only)" % v)
    r.count("initinstr_variants", len(iiv))
    # v128_to_u128: little-endian assembly (index i shifted by 8*i), all 16 bytes
    vf = F.one_fn(name="v128_to_u128")
    pairs = set()
    for n in walk(vf["body"]):
        if n.get("k") == "Binary" and n.get("op") == "<<":
            a, b = n["a"], n["b"]
            idx = [x for x in walk(a) if x.get("k") == "Index"]
            if idx and idx[0]["index"].get("k") == "Lit" and b.get("k") == "Lit":
                i = lit_int(idx[0]["index"]["lit"])
                sh = lit_int(b["lit"])
                pairs.add((i, sh))
    ok = pairs == {(i, 8 * i) for i in range(16)}
    r.ob(ok, {"v128_to_u128 byte/shift pairs": sorted(pairs)})
    r.analysed.append(vf["path"])
    if not ok:
        r.violate("%s | byte-order" % vf["path"], F.loc(vf), "v128_to_u128 does not assemble bytes little-endian: %s" % sorted(pairs))
    return r
